"""C07 — the same grid reads equal from every supported container format.

Correspondence (implementation vs Lean model, inside `hyp`):
  * in-memory `ImageMesh` / `RectilinearMesh` / `StructuredMesh`: ordered `points`, cell type and ordered
    `connectivity` vs `Fc.C07.gridMesh` (exhaustive over all extents <= 3 per axis, random larger ones);
  * `.vti/.vtr/.vts` files written by the harness (ascii VTK XML) -> `fieldcompare.io.read_field_data` ->
    geometric content (pixel/voxel normalised to quad/hexahedron order) vs `Fc.C07.readGrid`;
  * `from_meshio` / `to_meshio` on real `meshio.Mesh` objects vs `Fc.C07.fromMeshio` / `Fc.C07.toMeshio`.
Search (implementation vs the property, independent Python oracle `spec_lm` = the lattice described
geometrically): every container format a grid can be expressed in (`.vti`, `.vtr`, `.vts`, `.vtu` written with
`fieldcompare.io.write`, legacy `.vtk` and `.xdmf` written by meshio) must read to the same content, and any two of
them must compare equal with `MeshFieldsComparator` (domain equal, every point field PASSED, no field FAILED).
Compressed containers (phase 5): a directed batch writes one grid per family as zlib / lzma / lz4-compressed
`.vti/.vtr/.vts/.vtu` (inline binary) with block sizes taken from the byte lengths of the grid's own arrays (arrays
that fill exactly 1, 2, 4 blocks, miss / exceed a block boundary by one byte or one item), in VTK's header convention
(partial-size word 0 when the last block is full) and in meshio's (block size): same content as the grid, equal to
the ascii containers.
Adversarial: zero extents in every subset of directions, grids in every coordinate plane, rotated / sheared
direction matrices, extents that do not start at 0 (all three structured formats; for `.vti` this was
finding F20, fixed by a3961d2 — ordinary cases now), empty ordinate arrays, shuffled and repeated meshio blocks.
"""
from __future__ import annotations
import contextlib
import io
import itertools
import os
import shutil
import tempfile
import warnings
from fractions import Fraction

import numpy as np

from fcv import core, meshgen
from fcv import vtkcomp_p5d as vtkcomp
from fcv.predio import NP_DT

KINDS = ("image", "rect", "struct")
VTK_DT = {"f64": "Float64", "f32": "Float32", "i32": "Int32", "i64": "Int64", "i8": "Int8", "i16": "Int16", "u8": "UInt8",
          "u16": "UInt16", "u32": "UInt32", "u64": "UInt64"}
MIO_TYPE = {"VERTEX": "vertex", "LINE": "line", "TRIANGLE": "triangle", "QUAD": "quad", "TETRA": "tetra",
            "HEXAHEDRON": "hexahedron", "PYRAMID": "pyramid", "WEDGE": "wedge", "PIXEL": "pixel", "POLYGON": "polygon"}
FC_TYPE = {v: k for k, v in MIO_TYPE.items()}
QUAD_ORDER = [(0, 0), (1, 0), (1, 1), (0, 1)]
HEX_ORDER = [(0, 0, 0), (1, 0, 0), (1, 1, 0), (0, 1, 0), (0, 0, 1), (1, 0, 1), (1, 1, 1), (0, 1, 1)]


# ------------------------------------------------------------------------------------------------ oracle
# The lattice described geometrically, written independently of fieldcompare and of the Lean model.

def lattice_points_order(ext):
    """lattice positions in VTK file order (x fastest over all three directions)"""
    return [(i, j, k) for k in range(ext[2] + 1) for j in range(ext[1] + 1) for i in range(ext[0] + 1)]


def point_number(ext, pos):
    return pos[0] + (ext[0] + 1) * (pos[1] + (ext[1] + 1) * pos[2])


def lattice_cells(ext):
    """(type name, rows): one LINE / QUAD / HEXAHEDRON per lattice cell of the non-zero directions, cells in
    VTK file order (first non-zero direction fastest), corners in VTK order"""
    nz = [d for d in range(3) if ext[d] > 0]
    dim = len(nz)
    if dim == 0:
        return None, []
    corners = {1: [(0,), (1,)], 2: QUAD_ORDER, 3: HEX_ORDER}[dim]
    rows = []
    for loc_rev in itertools.product(*[range(ext[d]) for d in reversed(nz)]):
        loc = tuple(reversed(loc_rev))
        row = []
        for dl in corners:
            pos = [0, 0, 0]
            for d, l, x in zip(nz, loc, dl):
                pos[d] = l + x
            row.append(point_number(ext, pos))
        rows.append(row)
    return {1: "LINE", 2: "QUAD", 3: "HEXAHEDRON"}[dim], rows


def spec_lm(grid):
    """the explicit logical mesh every representation of `grid` has to read to"""
    t, rows = lattice_cells(grid["ext"])
    return {"dim": 3, "points": [list(p) for p in grid["pts"]], "cells": [[t, rows]] if t else [],
            "pf": [dict(f) for f in grid["pf"]], "cf": [dict(f, ctype=t) for f in grid["cf"]]}


# ------------------------------------------------------------------------------------------------ numbers
# Floats travel as exact integers counted in units of 2^-U.  U is chosen per case as the smallest number of
# fractional bits that makes every number of the case whole (the 2^-1074 unit of fcv.num would make every token
# 324 digits long); the image-data model receives U explicitly.

_UNIT = [1074]


def frac_bits(xs):
    b = 0
    for x in xs:
        if isinstance(x, float):
            b = max(b, x.as_integer_ratio()[1].bit_length() - 1)
    return b


def set_unit(*float_lists):
    _UNIT[0] = max([12] + [frac_bits(l) for l in float_lists])
    return _UNIT[0]


def f2u(x):
    """float -> number of 2^-U units (a whole number for every value of the case; exact fraction text otherwise)"""
    fr = Fraction(float(x)) * (1 << _UNIT[0])
    return fr.numerator if fr.denominator == 1 else f"{fr.numerator}:{fr.denominator}"


def grid_unit(grid):
    fl = [c for p in grid["pts"] for c in p]
    for k in ("origin", "spacing"):
        fl += grid.get(k, [])
    fl += [x for row in grid.get("basis", []) for x in row]
    fl += [x for o in grid.get("ords", []) for x in o]
    if "origin" in grid:
        fl += file_origin(grid)
    for f in grid.get("pf", []) + grid.get("cf", []):
        if f["dt"][0] == "f":
            fl += [float(x) for x in f["v"]]
    return set_unit(fl)


def lm_unit(lm, extra=()):
    fl = [c for p in lm["points"] for c in p] + list(extra)
    for f in lm.get("pf", []) + lm.get("cf", []) + lm.get("pd", []):
        if f["dt"][0] == "f":
            fl += [float(x) for x in f["v"]]
    for f in lm.get("cd", []):
        if f["dt"][0] == "f":
            fl += [float(x) for v in f["v"] for x in v]
    return set_unit(fl)


# ------------------------------------------------------------------------------------------------ content strings

def _vals(dt, vs):
    if dt in ("f64", "f32", "f16"):
        return ",".join(str(f2u(float(x))) for x in vs)
    return ",".join(str(int(x)) for x in vs)


def _rs(tail):
    r = 1
    for d in tail:
        r *= d
    return r


def _norm_row(t, row):
    if t == "PIXEL":
        return "QUAD", [row[i] for i in (0, 1, 3, 2)]
    if t == "VOXEL":
        return "HEXAHEDRON", [row[i] for i in (0, 1, 3, 2, 4, 5, 7, 6)]
    return t, row


def content_strings(lm, normalise=True):
    """(sorted point items over connected points, sorted cell items), same text as Driver/OpsC07.lean"""
    coords = [",".join(str(f2u(c)) for c in p) for p in lm["points"]]
    connected = set()
    for _, rows in lm["cells"]:
        for r in rows:
            connected.update(r)
    P = []
    for p in sorted(connected):
        s = coords[p]
        for f in lm["pf"]:
            rs = _rs(f["tail"])
            s += f"/{f['name']}={_vals(f['dt'], f['v'][p * rs:(p + 1) * rs])}"
        P.append(_canon_item(s, 1))
    C = []
    for t, rows in lm["cells"]:
        for c, r in enumerate(rows):
            tt, rr = _norm_row(t, r) if normalise else (t, r)
            s = tt + "/" + ";".join(coords[i] for i in rr)
            for f in lm["cf"]:
                if f["ctype"] != t:
                    continue
                rs = _rs(f["tail"])
                s += f"/{f['name']}={_vals(f['dt'], f['v'][c * rs:(c + 1) * rs])}"
            C.append(_canon_item(s, 2))
    return sorted(P), sorted(C)


def _canon_item(item, keep):
    """field values of an item sorted by field name (the order in which an implementation lists its fields —
    e.g. the VTU writer iterates a `set` of names — is not part of the content)"""
    parts = item.split("/")
    return "/".join(parts[:keep] + sorted(parts[keep:]))


def parse_content(s):
    if s in ("raise", "-"):
        return s
    p, c = s.split("#")
    return (sorted(_canon_item(x, 1) for x in p.split("|")) if p else [],
            sorted(_canon_item(x, 2) for x in c.split("|")) if c else [])


def dtypes_of(lm):
    return sorted([("p", f["name"], f["dt"]) for f in lm["pf"]] + [("c", f["name"], f["dt"]) for f in lm["cf"]])


# ------------------------------------------------------------------------------------------------ grid generation

def _dy(rng, lo, hi, den):
    return rng.randint(lo * den, hi * den) / den


def _exact(fr):
    x = float(fr)
    assert Fraction(x) == fr, "generator produced a value that is not exactly representable"
    return x


def _signed_perm(rng, rot_only=False):
    perm = list(range(3))
    rng.shuffle(perm)
    m = [[0.0] * 3 for _ in range(3)]
    for r in range(3):
        m[r][perm[r]] = rng.choice([1.0, -1.0])
    return m


def _matmul(a, b):
    return [[sum(Fraction(a[i][k]) * Fraction(b[k][j]) for k in range(3)) for j in range(3)] for i in range(3)]


def gen_basis(rng):
    kind = rng.choice(["rot", "rot", "scaled", "shear"])
    P = _signed_perm(rng)
    if kind == "rot":
        return P, kind
    U = [[1.0 if i == j else 0.0 for j in range(3)] for i in range(3)]
    if kind == "scaled":
        for i in range(3):
            U[i][i] = rng.choice([0.5, 1.0, 2.0, 0.25])
    else:
        i, j = rng.choice([(0, 1), (0, 2), (1, 2)])
        U[i][j] = rng.choice([0.5, -0.5, 0.25, 1.0])
    return [[_exact(x) for x in row] for row in _matmul(P, U)], kind


def image_points(ext, origin, spacing, basis, lo=(0, 0, 0)):
    """origin + B·(spacing∘(lo + ijk)) evaluated exactly, must be representable"""
    pts = []
    for pos in lattice_points_order(ext):
        v = [Fraction(spacing[d]) * (pos[d] + lo[d]) for d in range(3)]
        pts.append([_exact(Fraction(origin[r]) + sum(Fraction(basis[r][c]) * v[c] for c in range(3))) for r in range(3)])
    return pts


def gen_ext(rng, maxe):
    while True:
        ext = [0 if rng.random() < 0.35 else rng.randint(1, maxe) for _ in range(3)]
        if any(ext):
            return ext


def gen_fields(rng, grid):
    npnt = len(grid["pts"])
    nz = [e for e in grid["ext"] if e > 0]
    ncell = 1
    for e in nz:
        ncell *= e
    grid["pf"], grid["cf"] = [], []
    for k in range(rng.randint(0, 2)):
        dt = rng.choice(["f64", "f64", "f32", "i32", "i64"])
        tail = rng.choice([[], [], [3]])
        grid["pf"].append({"name": f"p{k}", "dt": dt, "tail": tail,
                           "v": meshgen._distinct_values(rng, dt, npnt * _rs(tail))})
    for k in range(rng.randint(0, 2)):
        dt = rng.choice(["f64", "f64", "f32", "i32", "i64"])
        tail = rng.choice([[], [], [3]])
        grid["cf"].append({"name": f"c{k}", "dt": dt, "tail": tail,
                           "v": meshgen._distinct_values(rng, dt, ncell * _rs(tail))})
    return grid


def gen_grid(rng, maxe=4, family=None, fields=True):
    """a lattice together with every structured description it admits; all coordinates exactly representable"""
    family = family or rng.choice(["axis", "axis", "affine", "affine", "rect", "curvi"])
    ext = gen_ext(rng, maxe)
    g = {"ext": ext, "family": family, "lo": [0, 0, 0]}
    if rng.random() < 0.35:
        g["lo"] = [rng.randint(-3, 5) for _ in range(3)]
    if family in ("axis", "affine"):
        origin = [_dy(rng, -16, 16, 8) for _ in range(3)]
        spacing = [_dy(rng, 1, 16, 4) for _ in range(3)]
        for d in range(3):
            if ext[d] == 0 and rng.random() < 0.4:
                spacing[d] = 0.0
        basis, bk = ([[1.0, 0.0, 0.0], [0.0, 1.0, 0.0], [0.0, 0.0, 1.0]], "identity") if family == "axis" else gen_basis(rng)
        g.update(origin=origin, spacing=spacing, basis=basis, basis_kind=bk,
                 direction_attr=(family == "affine" or rng.random() < 0.3))
        g["pts"] = image_points(ext, origin, spacing, basis)
        if family == "axis":
            g["ords"] = [[_exact(Fraction(origin[d]) + Fraction(spacing[d]) * i) for i in range(ext[d] + 1)] for d in range(3)]
    elif family == "rect":
        ords = []
        for d in range(3):
            x = _dy(rng, -16, 16, 8)
            o = [x]
            for _ in range(ext[d]):
                x = x + _dy(rng, 1, 12, 8)
                o.append(x)
            ords.append(o)
        g["ords"] = ords
        g["empty_flat_ordinates"] = rng.random() < 0.25
        if g["empty_flat_ordinates"]:
            for d in range(3):
                if ext[d] == 0:
                    ords[d] = [0.0]     # an empty <DataArray> means ordinate 0.0
        g["pts"] = [[ords[0][i], ords[1][j], ords[2][k]] for (i, j, k) in lattice_points_order(ext)]
    else:
        perm = list(range(3))
        rng.shuffle(perm)
        sgn = [rng.choice([1.0, -1.0]) for _ in range(3)]
        off = [_dy(rng, -8, 8, 4) for _ in range(3)]
        pts = []
        for pos in lattice_points_order(ext):
            q = [pos[d] * 2.0 + _dy(rng, -1, 1, 64) * 0.5 for d in range(3)]
            p = [0.0, 0.0, 0.0]
            for d in range(3):
                p[perm[d]] = off[d] + sgn[d] * q[d]
            pts.append(p)
        g["pts"] = pts
    if fields:
        gen_fields(rng, g)
    else:
        g["pf"], g["cf"] = [], []
    return g


def gen_inexact_grid(rng, maxe=4):
    """axis-aligned grid with decimal origin / spacing: the structured classes evaluate origin + i*spacing in
    floating point, other writers round the exact value once — representations agree only up to rounding"""
    ext = gen_ext(rng, maxe)
    scale = rng.choice([1e-3, 1.0, 1.0, 250.0])
    origin = [rng.choice([0.0, 0.1, -0.7, 3.3]) * scale for _ in range(3)]
    spacing = [rng.choice([0.1, 0.3, 0.7, 1.1, 1e-2]) * scale for _ in range(3)]
    g = {"ext": ext, "family": "axis", "inexact": True, "lo": [0, 0, 0], "origin": origin, "spacing": spacing,
         "basis": [[1.0, 0.0, 0.0], [0.0, 1.0, 0.0], [0.0, 0.0, 1.0]], "basis_kind": "identity",
         "direction_attr": rng.random() < 0.5}
    rnd = lambda fr: fr.numerator / fr.denominator
    g["ords"] = [[rnd(Fraction(origin[d]) + Fraction(spacing[d]) * i) for i in range(ext[d] + 1)] for d in range(3)]
    g["pts"] = [[g["ords"][0][i], g["ords"][1][j], g["ords"][2][k]] for (i, j, k) in lattice_points_order(ext)]
    return gen_fields(rng, g)


def snap_points(lm, grid):
    """replace coordinates that agree with the oracle's up to rounding (1e-12 relative to the grid size) by the
    oracle's, so that the content can be compared exactly"""
    if isinstance(lm, str) or len(lm["points"]) != len(grid["pts"]):
        return lm
    tol = 1e-12 * max([1.0] + [abs(c) for p in grid["pts"] for c in p])
    lm = dict(lm, points=[list(q) if len(p) == len(q) and all(abs(a - b) <= tol for a, b in zip(p, q)) else p
                          for p, q in zip(lm["points"], grid["pts"])])
    return lm


def formats_of(grid):
    return {"axis": ["vti", "vtr", "vts", "vtu"], "affine": ["vti", "vts", "vtu"], "rect": ["vtr", "vts", "vtu"],
            "curvi": ["vts", "vtu"]}[grid["family"]]


# ------------------------------------------------------------------------------------------------ file writers

def _num(dt, x):
    return repr(float(x)) if dt in ("f64", "f32") else str(int(x))


def _payload(vtk_type, name, ncomp, np_dt, vals, text_of, enc=None, lens=None, extra=""):
    """one <DataArray>: ascii (enc None) or zlib/lzma/lz4-compressed inline binary (fcv.vtkcomp_p5d)"""
    head = f'<DataArray type="{vtk_type}" Name="{name}" NumberOfComponents="{ncomp}"'
    if enc is None:
        return head + f' format="ascii"{extra}>\n' + " ".join(text_of(x) for x in vals) + "\n</DataArray>\n"
    raw = np.array(vals, dtype=np_dt).astype(np.dtype(np_dt).newbyteorder("<")).tobytes()
    if lens is not None:
        lens.append(len(raw))
    return head + f' format="binary"{extra}>\n' + vtkcomp.encode_inline(raw, enc) + "\n</DataArray>\n"


def _data_array(f, extra="", enc=None, lens=None):
    return _payload(VTK_DT[f["dt"]], f["name"], _rs(f["tail"]), NP_DT[f["dt"]], f["v"], lambda x: _num(f["dt"], x),
                    enc, lens, extra)


def _coords_array(name, vals, ncomp=1, enc=None, lens=None):
    return _payload("Float64", name, ncomp, np.float64, vals, lambda x: repr(float(x)), enc, lens)


def _int_array(vtk_type, np_dt, name, vals, enc=None, lens=None):
    return _payload(vtk_type, name, 1, np_dt, vals, lambda x: str(int(x)), enc, lens)


def _extent_attr(grid):
    return " ".join(f"{grid['lo'][d]} {grid['lo'][d] + grid['ext'][d]}" for d in range(3))


def _piece_data(grid, enc=None, lens=None):
    return ("<PointData>\n" + "".join(_data_array(f, enc=enc, lens=lens) for f in grid["pf"]) + "</PointData>\n<CellData>\n"
            + "".join(_data_array(f, enc=enc, lens=lens) for f in grid["cf"]) + "</CellData>\n")


def _root(gtype, enc=None):
    attrs = 'byte_order="LittleEndian" header_type="UInt64"' if enc is None else vtkcomp.root_attrs(enc)
    return f'<?xml version="1.0"?>\n<VTKFile type="{gtype}" version="1.0" {attrs}>\n'


def file_origin(grid):
    """the Origin attribute such that — in VTK's semantics — structured index `lo` sits at grid['origin']"""
    lo = grid["lo"]
    if not any(lo):
        return list(grid["origin"])
    v = [Fraction(grid["spacing"][d]) * lo[d] for d in range(3)]
    return [_exact(Fraction(grid["origin"][r]) - sum(Fraction(grid["basis"][r][c]) * v[c] for c in range(3)))
            for r in range(3)]


def write_vti(path, grid, enc=None, lens=None):
    ext = _extent_attr(grid)
    o = file_origin(grid)
    attrs = f'WholeExtent="{ext}" Origin="{" ".join(repr(x) for x in o)}" Spacing="{" ".join(repr(x) for x in grid["spacing"])}"'
    if grid.get("direction_attr", True):
        attrs += ' Direction="' + " ".join(repr(x) for row in grid["basis"] for x in row) + '"'
    txt = (_root("ImageData", enc)
           + f'<ImageData {attrs}>\n<Piece Extent="{ext}">\n' + _piece_data(grid, enc, lens) + "</Piece>\n</ImageData>\n</VTKFile>\n")
    with open(path, "w") as fh:
        fh.write(txt)


def write_vtr(path, grid, enc=None, lens=None):
    ext = _extent_attr(grid)
    ords = [list(o) for o in grid["ords"]]
    if grid.get("empty_flat_ordinates"):
        ords = [[] if grid["ext"][d] == 0 else ords[d] for d in range(3)]
    txt = (_root("RectilinearGrid", enc)
           + f'<RectilinearGrid WholeExtent="{ext}">\n<Piece Extent="{ext}">\n' + _piece_data(grid, enc, lens) + "<Coordinates>\n"
           + "".join(_coords_array("xyz"[d], ords[d], enc=enc, lens=lens) for d in range(3))
           + "</Coordinates>\n</Piece>\n</RectilinearGrid>\n</VTKFile>\n")
    with open(path, "w") as fh:
        fh.write(txt)


def write_vts(path, grid, enc=None, lens=None):
    ext = _extent_attr(grid)
    txt = (_root("StructuredGrid", enc)
           + f'<StructuredGrid WholeExtent="{ext}">\n<Piece Extent="{ext}">\n' + _piece_data(grid, enc, lens) + "<Points>\n"
           + _coords_array("Points", [c for p in grid["pts"] for c in p], 3, enc=enc, lens=lens)
           + "</Points>\n</Piece>\n</StructuredGrid>\n</VTKFile>\n")
    with open(path, "w") as fh:
        fh.write(txt)


VTK_CELL_ID = {"LINE": 3, "QUAD": 9, "HEXAHEDRON": 12}


def write_vtu_xml(path, grid, enc=None, lens=None):
    """the explicit unstructured description of the lattice (spec_lm), written by the harness (ascii or compressed)"""
    lm = spec_lm(grid)
    rows = [r for _, rws in lm["cells"] for r in rws]
    types = [VTK_CELL_ID[t] for t, rws in lm["cells"] for _ in rws]
    offs, o = [], 0
    for r in rows:
        o += len(r)
        offs.append(o)
    txt = (_root("UnstructuredGrid", enc)
           + f'<UnstructuredGrid>\n<Piece NumberOfPoints="{len(lm["points"])}" NumberOfCells="{len(rows)}">\n'
           + _piece_data(grid, enc, lens) + "<Points>\n"
           + _coords_array("Points", [c for p in lm["points"] for c in p], 3, enc=enc, lens=lens) + "</Points>\n<Cells>\n"
           + _int_array("Int64", np.int64, "connectivity", [i for r in rows for i in r], enc, lens)
           + _int_array("Int64", np.int64, "offsets", offs, enc, lens)
           + _int_array("UInt8", np.uint8, "types", types, enc, lens)
           + "</Cells>\n</Piece>\n</UnstructuredGrid>\n</VTKFile>\n")
    with open(path, "w") as fh:
        fh.write(txt)


XML_WRITERS = {"vti": write_vti, "vtr": write_vtr, "vts": write_vts, "vtu": write_vtu_xml}


def write_vtu(path_noext, grid):
    from fieldcompare.io import write
    with _quiet():
        return write(meshgen.to_fc(spec_lm(grid)), path_noext)


def split_blocks(rng, lm, repeat):
    """meshio description of a logical mesh: every type block cut into 1..3 blocks (if `repeat`), shuffled"""
    blocks = []   # (fc type, rows, [per cell-field value slices])
    for t, rows in lm["cells"]:
        n = len(rows)
        cuts = sorted(rng.sample(range(1, n), min(n - 1, rng.randint(1, 2)))) if (repeat and n > 1) else []
        for a, b in zip([0] + cuts, cuts + [n]):
            vals = {}
            for f in lm["cf"]:
                if f["ctype"] == t:
                    rs = _rs(f["tail"])
                    vals[f["name"]] = f["v"][a * rs:b * rs]
            blocks.append((t, rows[a:b], vals))
    rng.shuffle(blocks)
    names = []
    for f in lm["cf"]:
        if f["name"] not in names:
            names.append(f["name"])
    meta = {n: next(f for f in lm["cf"] if f["name"] == n) for n in names}
    return {"dim": lm["dim"], "points": lm["points"],
            "blocks": [[MIO_TYPE[t], rows] for t, rows, _ in blocks],
            "pd": [dict(f) for f in lm["pf"]],
            "cd": [{"name": n, "dt": meta[n]["dt"], "tail": meta[n]["tail"], "v": [b[2][n] for b in blocks]} for n in names]}


def mio_repeated(mio):
    ts = [b[0] for b in mio["blocks"]]
    return len(set(ts)) < len(ts)


def mio_to_meshio(mio):
    import meshio
    pts = np.array(mio["points"], dtype=np.float64).reshape(len(mio["points"]), mio["dim"])
    cells = [(t, np.array(rows, dtype=np.int64).reshape(len(rows), -1)) for t, rows in mio["blocks"]]
    pd = {f["name"]: np.array(f["v"], dtype=NP_DT[f["dt"]]).reshape([len(mio["points"])] + f["tail"]) for f in mio["pd"]}
    cd = {f["name"]: [np.array(v, dtype=NP_DT[f["dt"]]).reshape([len(b[1])] + f["tail"])
                      for v, b in zip(f["v"], mio["blocks"])] for f in mio["cd"]}
    with _quiet():
        return meshio.Mesh(pts, cells, point_data=pd, cell_data=cd)


def mio_spec_content(mio):
    """content of a meshio mesh: every cell of every block with the values of its own block"""
    lm = {"dim": mio["dim"], "points": mio["points"], "cells": [], "pf": mio["pd"], "cf": []}
    P, _ = content_strings(dict(lm, cells=[[FC_TYPE[t], rows] for t, rows in mio["blocks"]]))
    coords = [",".join(str(f2u(c)) for c in p) for p in mio["points"]]
    C = []
    for i, (t, rows) in enumerate(mio["blocks"]):
        for c, r in enumerate(rows):
            s = FC_TYPE[t] + "/" + ";".join(coords[k] for k in r)
            for f in mio["cd"]:
                rs = _rs(f["tail"])
                s += f"/{f['name']}={_vals(f['dt'], f['v'][i][c * rs:(c + 1) * rs])}"
            C.append(_canon_item(s, 2))
    return P, sorted(C)


# ------------------------------------------------------------------------------------------------ protocol encoding

def _enc_arr(dt, shape, vals):
    vs = _vals(dt, vals).replace(",", " ")
    return f"{dt} {len(shape)} {' '.join(map(str, shape))} {len(vals)} {vs}".replace("  ", " ").strip()


def enc_geom(grid, kind):
    u = lambda xs: " ".join(str(f2u(x)) for x in xs)
    if kind == "image":
        return f"image {_UNIT[0]} {u(grid['file_origin'] if 'file_origin' in grid else grid['origin'])} " \
               f"{u([x for row in grid['basis'] for x in row])} {u(grid['spacing'])}"
    if kind == "rect":
        ords = grid["ords"]
        if grid.get("empty_flat_ordinates") and grid.get("_file"):
            ords = [[] if grid["ext"][d] == 0 else ords[d] for d in range(3)]
        return "rect " + " ".join(f"{len(o)} {u(o)}".strip() for o in ords)
    pts = grid["pts"]
    return f"struct {len(pts)} " + u([c for p in pts for c in p])


def enc_read(grid, kind):
    ext = " ".join(f"{grid['lo'][d]} {grid['lo'][d] + grid['ext'][d]}" for d in range(3))
    g = dict(grid, _file=True)
    if kind == "image":
        g["file_origin"] = file_origin(grid)
    npnt = len(grid["pts"])
    ncell = 1
    for e in grid["ext"]:
        ncell *= max(e, 1)
    toks = ["c07read", ext, enc_geom(g, kind), str(len(grid["pf"]))]
    for f in grid["pf"]:
        toks += [f["name"], _enc_arr(f["dt"], [npnt] + f["tail"], f["v"])]
    toks.append(str(len(grid["cf"])))
    for f in grid["cf"]:
        toks += [f["name"], _enc_arr(f["dt"], [ncell] + f["tail"], f["v"])]
    return " ".join(toks)


def enc_mesh_op(grid, kind):
    return f"c07mesh {' '.join(map(str, grid['ext']))} {enc_geom(grid, kind)}"


def enc_fields_local(lm):
    """`fields` of Driver/ProtoMesh.lean in the unit of the current case"""
    toks = [str(lm["dim"]), str(len(lm["points"]))] + [str(f2u(c)) for p in lm["points"] for c in p]
    toks.append(str(len(lm["cells"])))
    ncells = {}
    for t, rows in lm["cells"]:
        ncells[t] = len(rows)
        toks += [t, str(len(rows)), str(len(rows[0]) if rows else 0)] + [str(i) for r in rows for i in r]
    toks.append(str(len(lm["pf"])))
    for f in lm["pf"]:
        toks += [f["name"], _enc_arr(f["dt"], [len(lm["points"])] + f["tail"], f["v"])]
    toks.append(str(len(lm["cf"])))
    for f in lm["cf"]:
        toks += [f["name"], f["ctype"], _enc_arr(f["dt"], [ncells[f["ctype"]]] + f["tail"], f["v"])]
    return " ".join(toks)


def enc_mio(mio):
    toks = ["c07mio", str(mio["dim"]), str(len(mio["points"]))]
    toks += [str(f2u(c)) for p in mio["points"] for c in p]
    toks.append(str(len(mio["blocks"])))
    for t, rows in mio["blocks"]:
        toks += [t, str(len(rows)), str(len(rows[0]) if rows else 0)] + [str(i) for r in rows for i in r]
    toks.append(str(len(mio["pd"])))
    for f in mio["pd"]:
        toks += [f["name"], _enc_arr(f["dt"], [len(mio["points"])] + f["tail"], f["v"])]
    toks.append(str(len(mio["cd"])))
    for f in mio["cd"]:
        toks.append(f["name"])
        for v, b in zip(f["v"], mio["blocks"]):
            toks.append(_enc_arr(f["dt"], [len(b[1])] + f["tail"], v))
    return " ".join(toks)


# ------------------------------------------------------------------------------------------------ implementation

@contextlib.contextmanager
def _quiet():
    with warnings.catch_warnings():
        warnings.simplefilter("ignore")
        with contextlib.redirect_stdout(io.StringIO()), contextlib.redirect_stderr(io.StringIO()):
            yield


def impl_read(path):
    """-> (fields object | None, logical mesh | 'raise:<Type>')"""
    from fieldcompare.io import read_field_data
    try:
        with _quiet():
            f = read_field_data(path)
            return f, meshgen.from_fc(f)
    except Exception as e:  # noqa: BLE001
        return None, f"raise:{type(e).__name__}"


def make_mesh_object(grid, kind):
    from fieldcompare.mesh import ImageMesh, RectilinearMesh, StructuredMesh
    ext = tuple(grid["ext"])
    if kind == "image":
        return ImageMesh(ext, tuple(grid["origin"]), tuple(grid["spacing"]), np.array(grid["basis"], dtype=float))
    if kind == "rect":
        return RectilinearMesh(ext, tuple(np.array(o, dtype=float) for o in grid["ords"]))
    return StructuredMesh(ext, np.array(grid["pts"], dtype=float).reshape(len(grid["pts"]), 3))


def impl_mesh(grid, kind):
    """ordered observable `TYPE@points@rows` of the in-memory class (text identical to the driver's)"""
    try:
        with _quiet():
            m = make_mesh_object(grid, kind)
            cts = list(m.cell_types)
            ct = cts[0]
            pts = np.asarray(m.points)
            conn = np.asarray(m.connectivity(ct))
        ps = ";".join(",".join(str(f2u(c)) for c in p) for p in pts)
        rs = ";".join(",".join(str(int(i)) for i in r) for r in conn)
        return f"{ct.name}@{ps}@{rs}"
    except Exception:  # noqa: BLE001
        return "raise"


def norm_mesh_obs(obs):
    """`TYPE@points@rows` with pixel / voxel cells rewritten as the compatible quad / hexahedron (corner order
    0,1,3,2 / 0,1,3,2,4,5,7,6): which of the two compatible types a class exposes is not part of the property"""
    if obs.count("@") != 2:
        return obs
    t, ps, rs = obs.split("@")
    rows = [[int(i) for i in r.split(",")] for r in rs.split(";")] if rs else []
    out = [_norm_row(t, r) for r in rows]
    tt = out[0][0] if out else _norm_row(t, [0] * 8)[0]
    return f"{tt}@{ps}@" + ";".join(",".join(str(i) for i in r) for _, r in out)


def spec_mesh(grid, kind):
    t, rows = lattice_cells(grid["ext"])
    if kind != "struct":
        t = {"QUAD": "PIXEL", "HEXAHEDRON": "VOXEL"}.get(t, t)
        inv4, inv8 = (0, 1, 3, 2), (0, 1, 3, 2, 4, 5, 7, 6)
        rows = [[r[i] for i in (inv4 if len(r) == 4 else inv8)] if len(r) > 2 else r for r in rows]
    ps = ";".join(",".join(str(f2u(c)) for c in p) for p in grid["pts"])
    rs = ";".join(",".join(str(i) for i in r) for r in rows)
    return f"{t}@{ps}@{rs}"


def compare_pair(fa, fb):
    """default comparison of two field-data objects -> (ok, detail)"""
    from fieldcompare.mesh import MeshFieldsComparator
    try:
        with _quiet():
            suite = MeshFieldsComparator(fa, fb)(fieldcomp_callback=lambda *_: None)
            dom = bool(suite.domain_equality_check)
            res = [(c.name, str(c.status).split('.')[-1].upper()) for c in suite]
            ok = bool(suite)
    except Exception as e:  # noqa: BLE001
        return False, f"raise:{type(e).__name__}:{e}"
    bad = [(n, s) for n, s in res if s in ("FAILED", "ERROR")]
    pnames = {f.name for f in fa.point_fields}
    p_not_passed = [(n, s) for n, s in res if n in pnames and s != "PASSED"]
    good = ok and dom and not bad and not p_not_passed
    return good, {"suite": ok, "domain_equal": dom, "statuses": res}


# ------------------------------------------------------------------------------------------------ checks

def grid_key(grid):
    return (tuple(grid["ext"]), grid["family"], tuple(map(tuple, grid["pts"][:4])), len(grid["pf"]), len(grid["cf"]))


def check_grid_files(ctx, grid, tmp, lean_lines, pending, with_meshio=False):
    """write `grid` in every format it admits, read back, compare with the oracle and pairwise"""
    grid_unit(grid)
    spec = spec_lm(grid)
    specP, specC = content_strings(spec)
    spec_dt = dtypes_of(spec)
    fmts = formats_of(grid)
    objs = []
    zero = tuple(int(e == 0) for e in grid["ext"])
    for fmt in fmts:
        case = {"op": "grid-file", "format": fmt, "grid": grid}
        base = os.path.join(tmp, f"g{ctx.evaluations}_{fmt}")
        if fmt == "vti":
            write_vti(base + ".vti", grid)
        elif fmt == "vtr":
            write_vtr(base + ".vtr", grid)
        elif fmt == "vts":
            write_vts(base + ".vts", grid)
        try:
            path = base + "." + fmt if fmt != "vtu" else write_vtu(base, grid)
        except Exception as e:  # noqa: BLE001   (fieldcompare.io.write refused the explicit description of the grid)
            ctx.case(("file", fmt, grid_key(grid), tuple(grid["lo"]), "write-raised"), nontrivial=True, tags=[f"fmt-{fmt}", "write-raised"])
            ctx.violation(case, f"raise:{type(e).__name__}:{e}"[:300], _short([specP, specC]), cls=None,
                          what=f".{fmt} file of the grid could not be written by fieldcompare.io.write")
            continue
        fobj, lm = impl_read(path)
        os.remove(path)
        if grid.get("inexact"):
            lm = snap_points(lm, grid)
        impl = lm if isinstance(lm, str) else list(content_strings(lm))
        ctx.case(("file", fmt, grid_key(grid), tuple(grid["lo"])), nontrivial=True,
                 tags=[f"fmt-{fmt}", f"family-{grid['family']}" + ("-inexact" if grid.get("inexact") else ""),
                       f"zero-{''.join(map(str, zero))}",
                       "offset-extent" if any(grid["lo"]) else "extent-from-0"],
                 sample={"format": fmt, "ext": grid["ext"], "lo": grid["lo"], "family": grid["family"],
                         "impl_cells": (impl if isinstance(impl, str) else len(impl[1]))})
        if impl != [specP, specC]:
            ctx.violation(case, _short(impl), _short([specP, specC]), cls=None,
                          what=f".{fmt} file does not read to the content of the grid it describes")
        elif dtypes_of(lm) != spec_dt:
            ctx.violation(case, dtypes_of(lm), spec_dt, what=f".{fmt}: numeric type of a field changed by reading")
        if fobj is not None:
            objs.append((fmt, fobj))
        if fmt != "vtu" and ctx.driver_ok and not grid.get("inexact"):
            lean_lines.append(enc_read(grid, {"vti": "image", "vtr": "rect", "vts": "struct"}[fmt]))
            pending.append(("read", case, impl))
    if with_meshio and spec["cells"]:
        for ext_, kw in ((".vtk", {"binary": False}), (".xdmf", {"data_format": "XML"})):
            repeat = ctx.rng.random() < 0.4
            mio = split_blocks(ctx.rng, spec, repeat)
            case = {"op": "grid-meshio-file", "format": ext_, "mio": mio}
            path = os.path.join(tmp, f"g{ctx.evaluations}{ext_}")
            try:
                with _quiet():
                    mio_to_meshio(mio).write(path, **kw)
            except Exception as e:  # noqa: BLE001   (meshio writer trouble is not our subject)
                ctx.notes.append(f"meshio could not write {ext_}: {type(e).__name__}")
                continue
            fobj, lm = impl_read(path)
            for p in os.listdir(tmp):
                if p.startswith(os.path.basename(path)[:-len(ext_)]) and not p.endswith((".vti", ".vtr", ".vts", ".vtu")):
                    os.remove(os.path.join(tmp, p))
            impl = lm if isinstance(lm, str) else list(content_strings(lm))
            rep = mio_repeated(mio)
            ctx.case(("miofile", ext_, grid_key(grid), len(mio["blocks"])), nontrivial=True,
                     tags=[f"fmt-meshio{ext_}", "blocks-repeated" if rep else "blocks-unique"])
            if impl != [specP, specC]:
                ctx.violation(case, _short(impl), _short([specP, specC]), cls="F9" if rep else None,
                              what=f"meshio-backed {ext_} file does not read to the content of the grid")
            elif fobj is not None:
                objs.append((ext_, fobj))
    # pairwise default comparison
    for (fa, a), (fb, b) in itertools.combinations(objs, 2):
        for x, y, nx, ny in ((a, b, fa, fb), (b, a, fb, fa)):
            ok, detail = compare_pair(x, y)
            ctx.case(("pair", nx, ny, grid_key(grid)), nontrivial=True, tags=[f"pair-{nx}-{ny}"])
            if not ok:
                ctx.violation({"op": "grid-pair", "formats": [nx, ny], "grid": grid}, detail, "equal domain, every point field PASSED",
                              what=f"default comparison of the {nx} and {ny} representations of one grid does not pass")


# ------------------------------------------------------------------------------------------------ compressed containers
# Directed batch (phase 5): the same grid written as zlib / lzma / lz4-compressed .vti/.vtr/.vts/.vtu (inline binary,
# harness writer above + fcv.vtkcomp_p5d) must read to the content of the grid and compare equal to the ascii
# containers.  The block size is a header field of every array; it is chosen relative to the byte lengths of the
# grid's own arrays so that arrays fill exactly 1, 2, 4 blocks or miss / exceed a block boundary by one byte / one
# item, in VTK's header convention (partial-size word 0 when the last block is full) and in meshio's (= block size).

def gen_comp_grid(rng, family, maxe=3):
    """a grid of `family` with an f64 scalar point field and an f64 scalar cell field first (block sizes are derived
    from their byte lengths), possibly further random fields"""
    g = gen_grid(rng, maxe=maxe, family=family)
    npnt = len(g["pts"])
    ncell = 1
    for e in g["ext"]:
        ncell *= max(e, 1)
    g["pf"] = [{"name": "pa", "dt": "f64", "tail": [], "v": meshgen._distinct_values(rng, "f64", npnt)}] + g["pf"][:1]
    g["cf"] = [{"name": "ca", "dt": "f64", "tail": [], "v": meshgen._distinct_values(rng, "f64", ncell)}] + g["cf"][:1]
    return g


def comp_block_sizes(grid):
    lp = 8 * len(grid["pts"])
    lc = 8 * len(lattice_cells(grid["ext"])[1])
    bs = {lp, lp // 2, lp // 4, lp - 1, lp + 1, lp - 8, lp + 8, lp // 2 + 1, lp // 2 - 1, lc, lc // 2, 3 * lp}
    return sorted(b for b in bs if b >= 1)


def comp_configs(ctx, grid, salt=0):
    """quick: every block size with zlib in both header conventions + one more (codec, convention) in rotation;
    thorough: the full product"""
    codecs = vtkcomp.codecs()
    others = [(c, v) for c in codecs if c != "zlib" for v in ("vtk", "meshio")]
    out = []
    for i, B in enumerate(comp_block_sizes(grid)):
        combos = [("zlib", "vtk"), ("zlib", "meshio")]
        combos += others if ctx.tier == "thorough" else [others[(i + salt) % len(others)]]
        for j, (c, v) in enumerate(combos):
            out.append({"comp": c, "B": B, "hs": (4, 8)[(i + j + salt) % 2], "conv": v})
    return out


def check_grid_compressed(ctx, grid, tmp, lean_lines, pending, salt=0, encs=None, fmts=None):
    grid_unit(grid)
    spec = spec_lm(grid)
    specP, specC = content_strings(spec)
    spec_dt = dtypes_of(spec)
    fmts = fmts or formats_of(grid)
    # reference: the ascii containers of the grid
    ascii_objs = []
    for fmt in fmts:
        path = os.path.join(tmp, f"ca_{fmt}.{fmt}")
        XML_WRITERS[fmt](path, grid)
        fobj, lm = impl_read(path)
        os.remove(path)
        impl = lm if isinstance(lm, str) else list(content_strings(lm))
        ctx.case(("cfile-ascii", fmt, grid_key(grid)), nontrivial=True, tags=[f"fmt-{fmt}", "compressed-batch-ascii-reference"])
        if impl != [specP, specC]:
            ctx.violation({"op": "grid-file", "format": fmt, "grid": grid, "writer": "xml"}, _short(impl), _short([specP, specC]),
                          what=f".{fmt} file (ascii, harness writer) does not read to the content of the grid it describes")
        elif fobj is not None:
            ascii_objs.append((fmt, fobj))
    check_lines, check_meta = [], []
    for ci, enc in enumerate(encs if encs is not None else comp_configs(ctx, grid, salt)):
        for fi, fmt in enumerate(fmts):
            lens = []
            path = os.path.join(tmp, f"cc_{fmt}.{fmt}")
            XML_WRITERS[fmt](path, grid, enc, lens)
            fobj, lm = impl_read(path)
            os.remove(path)
            impl = lm if isinstance(lm, str) else list(content_strings(lm))
            ks = sorted({min(vtkcomp.fills_exactly(n, enc["B"]), 3) for n in lens})
            tags = [f"fmt-{fmt}", f"family-{grid['family']}", "compressed", f"comp-{enc['comp']}", f"header-{enc['conv']}",
                    f"hs-{enc['hs']}"] + [("array-fills-%s-blocks-exactly" % ("3+" if k == 3 else k)) if k else "array-with-partial-last-block"
                                          for k in ks]
            if any(0 < n < enc["B"] for n in lens):
                tags.append("array-shorter-than-block")
            if any(n == 0 for n in lens):
                tags.append("array-empty")
            case = {"op": "grid-file", "format": fmt, "grid": grid, "enc": enc}
            ctx.case(("cfile", fmt, grid_key(grid), tuple(sorted(enc.items()))), nontrivial=True, tags=tags,
                     sample={"format": fmt, "ext": grid["ext"], "enc": enc, "array_bytes": lens,
                             "impl_cells": (impl if isinstance(impl, str) else len(impl[1]))})
            if impl != [specP, specC]:
                ctx.violation(case, _short(impl), _short([specP, specC]), cls=None,
                              what=f"compressed .{fmt} file ({enc['comp']}, block size {enc['B']}, {enc['conv']} header convention, array "
                                   f"bytes {lens}) does not read to the content of the grid it describes")
            elif dtypes_of(lm) != spec_dt:
                ctx.violation(case, dtypes_of(lm), spec_dt, what=f"compressed .{fmt}: numeric type of a field changed by reading")
            if fmt != "vtu" and ctx.driver_ok and not grid.get("inexact") and ci % 4 == 0:
                lean_lines.append(enc_read(grid, {"vti": "image", "vtr": "rect", "vts": "struct"}[fmt]))
                pending.append(("read", case, impl))
            # the same grid in another (ascii) container: default comparison, both orders
            if fobj is not None and ascii_objs:
                oth = [x for x in ascii_objs if x[0] != fmt] or ascii_objs
                ofmt, oobj = oth[(ci + fi) % len(oth)]
                for x, y, nx, ny, encs in ((fobj, oobj, fmt, ofmt, [enc, None]), (oobj, fobj, ofmt, fmt, [None, enc])):
                    ok, detail = compare_pair(x, y)
                    ctx.case(("cpair", nx, ny, grid_key(grid), tuple(sorted(enc.items()))), nontrivial=True,
                             tags=[f"pair-{nx}-{ny}", "pair-compressed-ascii"])
                    if not ok:
                        ctx.violation({"op": "grid-pair", "formats": [nx, ny], "grid": grid, "encs": encs, "writer": "xml"}, detail,
                                      "equal domain, every point field PASSED",
                                      what=f"default comparison of the {nx} and {ny} representations of one grid (one of them "
                                           f"compressed: {enc}) does not pass")
            # the harness' payload writer vs the Lean spec writer (Fc.Spec.encodeCompressed) — VTK convention only
            if ctx.driver_ok and enc["conv"] == "vtk" and fi == 0 and grid["pf"] and len(grid["pts"]) <= 256:
                raws = [np.array(f["v"], dtype=NP_DT[f["dt"]]).astype(np.dtype(NP_DT[f["dt"]]).newbyteorder("<")).tobytes()
                        for f in grid["pf"]]
                check_lines.append(vtkcomp.lean_enc_line(raws, enc))
                check_meta.append((enc, raws))
    if check_lines:
        for rep, (enc, raws) in zip(ctx.lean(check_lines), check_meta):
            texts = vtkcomp.lean_enc_texts(rep)
            mine = [vtkcomp.encode_inline(r, enc) for r in raws]
            ctx.dist["compressed-payload-vs-lean-spec-writer"] += 1
            if texts != mine:
                ctx.inconsistent({"op": "payload", "enc": enc, "lens": [len(r) for r in raws]}, str(mine)[:300], str(texts)[:300])


def _short(x, n=12):
    if isinstance(x, str):
        return x
    return [x[0][:n], x[1][:n]]


def _canon(x):
    """'raise' | (tuple P, tuple C)"""
    if isinstance(x, str):
        return "raise" if x.startswith("raise") else x
    return (tuple(x[0]), tuple(x[1]))


def settle(ctx, lean_lines, pending):
    """run the queued driver lines and compare"""
    if not lean_lines:
        return
    replies = ctx.lean(lean_lines)
    for rep, (kind, case, impl) in zip(replies, pending):
        if "hyp" not in rep:
            ctx.inconsistent(case, str(rep), "bad-op")
            continue
        if kind == "mesh":
            model, spec, impl_c = norm_mesh_obs(rep["model"]), norm_mesh_obs(rep["spec"]), norm_mesh_obs(impl)
        else:
            model, spec, impl_c = _canon(parse_content(rep["model"])), _canon(parse_content(rep["spec"])), _canon(impl)
        # the model follows the code outside hyp as well for meshio meshes with repeated blocks (class F9)
        faithful = rep["hyp"] == "1" or kind == "mio"
        if faithful and impl_c != model:
            ctx.mismatch(case, str(impl_c)[:600], str(model)[:600], what=f"{kind}: impl vs Lean model")
        if rep["hyp"] == "1" and model != spec:
            ctx.inconsistent(case, str(model)[:600], str(spec)[:600])
        ctx.dist["lean-hyp-" + rep["hyp"]] += 1
    lean_lines.clear()
    pending.clear()


def simple_grid(ext, kind_family="axis"):
    g = {"ext": list(ext), "family": "axis", "lo": [0, 0, 0], "origin": [0.5, -1.0, 2.0], "spacing": [1.0, 0.5, 2.0],
         "basis": [[1.0, 0.0, 0.0], [0.0, 1.0, 0.0], [0.0, 0.0, 1.0]], "basis_kind": "identity", "pf": [], "cf": []}
    g["pts"] = image_points(ext, g["origin"], g["spacing"], g["basis"])
    g["ords"] = [[g["origin"][d] + g["spacing"][d] * i for i in range(ext[d] + 1)] for d in range(3)]
    return g


def check_mesh_objects(ctx, grid, kinds, lean_lines, pending):
    grid_unit(grid)
    for kind in kinds:
        impl = impl_mesh(grid, kind)
        spec = spec_mesh(grid, kind)
        case = {"op": "grid-mem", "kind": kind, "grid": {k: v for k, v in grid.items() if k not in ("pf", "cf")}}
        zero = "".join(str(int(e == 0)) for e in grid["ext"])
        ctx.case(("mem", kind, grid_key(grid)), nontrivial=True, tags=[f"mem-{kind}", f"zero-{zero}"])
        if norm_mesh_obs(impl) != norm_mesh_obs(spec):
            ctx.violation(case, impl[:600], spec[:600],
                          what=f"{kind} mesh object: points / cell type / connectivity differ from the lattice they describe")
        if ctx.driver_ok:
            lean_lines.append(enc_mesh_op(grid, kind))
            pending.append(("mesh", case, impl))


def kinds_of(grid):
    return {"axis": KINDS, "affine": ("image", "struct"), "rect": ("rect", "struct"), "curvi": ("struct",)}[grid["family"]]


def gen_mio_case(rng):
    lm, tags = meshgen.gen_mesh(rng, max_cells_per_dir=3, allow_duplicates=False,
                                types=None, dtypes=("f64", "f64", "f32", "i32", "i64"))
    lm["cells"] = [[t, rows] for t, rows in lm["cells"] if t in ("LINE", "TRIANGLE", "QUAD", "TETRA", "HEXAHEDRON")]
    lm["cf"] = [f for f in lm["cf"] if any(f["ctype"] == t for t, _ in lm["cells"])]
    if not lm["cells"]:
        return None
    mode = rng.choice(["unique", "unique", "repeat", "repeat-equal"])
    mio = split_blocks(rng, lm, repeat=(mode != "unique"))
    if mode == "repeat-equal":
        # repeated blocks of EQUAL length: the length check cannot notice the mix-up (silent mis-association)
        t, rows = lm["cells"][0]
        if len(rows) >= 2 and len(rows) % 2 == 0:
            h = len(rows) // 2
            lm2 = dict(lm, cells=[[t, rows]], cf=[f for f in lm["cf"] if f["ctype"] == t])
            blocks = []
            for a, b in ((0, h), (h, 2 * h)):
                blocks.append((t, rows[a:b], {f["name"]: f["v"][a * _rs(f["tail"]):b * _rs(f["tail"])] for f in lm2["cf"]}))
            mio = {"dim": lm["dim"], "points": lm["points"], "blocks": [[MIO_TYPE[t], r] for t, r, _ in blocks],
                   "pd": [dict(f) for f in lm["pf"]],
                   "cd": [{"name": f["name"], "dt": f["dt"], "tail": f["tail"], "v": [b[2][f["name"]] for b in blocks]}
                          for f in lm2["cf"]]}
    return mio, mode


def impl_from_meshio(mio):
    from fieldcompare.mesh import meshio_utils
    try:
        mm = mio_to_meshio(mio)
        with _quiet():
            f = meshio_utils.from_meshio(mm)
            lm = meshgen.from_fc(f)
        return list(content_strings(lm, normalise=False))
    except Exception as e:  # noqa: BLE001
        return f"raise:{type(e).__name__}"


def check_mio(ctx, mio, mode, lean_lines, pending):
    lm_unit(mio)
    impl = impl_from_meshio(mio)
    P, C = mio_spec_content(mio)
    rep = mio_repeated(mio)
    case = {"op": "mio", "mio": mio}
    ctx.case(("mio", len(mio["points"]), tuple((t, len(r)) for t, r in mio["blocks"]), len(mio["cd"])),
             nontrivial=len(mio["blocks"]) > 1,
             tags=["mio-" + mode, "blocks-repeated" if rep else "blocks-unique", f"nblocks={min(len(mio['blocks']), 6)}"],
             sample={"blocks": [(t, len(r)) for t, r in mio["blocks"]], "impl": impl if isinstance(impl, str) else "content"})
    if impl != [P, C]:
        ctx.violation(case, _short(impl), _short([P, C]), cls="F9" if rep else None,
                      what="from_meshio loses cells / mis-associates cell values"
                           + (" (several blocks of one cell type)" if rep else ""))
    if ctx.driver_ok:
        lean_lines.append(enc_mio(mio))
        pending.append(("mio", case, impl))


def mio_object_content(mm):
    """content of a meshio.Mesh object (blocks as they are)"""
    pts = np.asarray(mm.points)
    mio = {"dim": int(pts.shape[1]), "points": [[float(c) for c in p] for p in pts],
           "blocks": [[b.type, [[int(i) for i in r] for r in np.asarray(b.data)]] for b in mm.cells], "pd": [], "cd": []}
    for n, a in mm.point_data.items():
        a = np.asarray(a)
        mio["pd"].append({"name": n, "dt": meshgen._np_dt_name(a), "tail": list(a.shape[1:]), "v": a.flatten().tolist()})
    for n, arrs in mm.cell_data.items():
        arrs = [np.asarray(a) for a in arrs]
        mio["cd"].append({"name": n, "dt": meshgen._np_dt_name(arrs[0]), "tail": list(arrs[0].shape[1:]),
                          "v": [a.flatten().tolist() for a in arrs]})
    return mio_spec_content(mio)


def check_tomio(ctx, lm, lean_lines, pending):
    from fieldcompare.mesh import meshio_utils
    case = {"op": "tomio", "lm": lm}
    lm_unit(lm)
    try:
        with _quiet():
            mm = meshio_utils.to_meshio(meshgen.to_fc(lm))
        impl = list(mio_object_content(mm))
    except Exception as e:  # noqa: BLE001
        impl = f"raise:{type(e).__name__}"
    spec = list(content_strings(lm))
    ctx.case(("tomio", len(lm["points"]), tuple((t, len(r)) for t, r in lm["cells"])), nontrivial=True,
             tags=["tomio"] + [f"tomio-{t}" for t, _ in lm["cells"]])
    if impl != spec:
        ctx.violation(case, _short(impl), _short(spec), what="to_meshio changes the content of the mesh fields")
    if ctx.driver_ok:
        lean_lines.append("c07tomio " + enc_fields_local(lm))
        pending.append(("tomio", case, impl))


def check_meshio_table(ctx):
    """the literal meshio type table of the model vs meshio's dictionaries and fieldcompare's names"""
    from meshio._vtk_common import meshio_to_vtk_type
    from fieldcompare.mesh import meshio_utils
    for mname, fcname in FC_TYPE.items():
        try:
            got = meshio_utils._from_meshio_cell_type(mname).name
        except Exception as e:  # noqa: BLE001
            got = f"raise:{type(e).__name__}"
        ctx.case(("miotable", mname), nontrivial=True, tags=["meshio-type-table"])
        if got != fcname:
            ctx.violation({"op": "miotable", "meshio_type": mname}, got, fcname,
                          what="meshio cell type name is mapped to a different fieldcompare cell type")
    assert meshio_to_vtk_type["quad"] == 9


# ------------------------------------------------------------------------------------------------ phase 6 (G1/io): directed batch
# Dimensions of the quantifier sampled at one point only by the generators above:
#   * numeric types / row shapes of the fields: f64 f32 i32 i64, scalar or 3-vector -> every VTK numeric type, 9-component and
#     3x3 rows, on points AND cells, in every XML container a grid admits (meshio-backed formats keep the old types: meshio's own
#     writers/readers reject narrow integers in .xdmf/XML and tensors in legacy .vtk, binary .vtk does not round-trip at all);
#   * spacings: positive, 1/4 .. 4 -> negative (a reflected lattice), 2^-20 / 2^-30 (tiny), 2^20 (huge), mixed per axis;
#   * size: <= 1000 points -> one lattice of > 65536 points per run (every coordinate plane, 1-d along every axis, 3-d), compared
#     with numpy against the lattice the case describes (points, cells after pixel/voxel normalisation, field values, dtypes)
#     and pairwise with the default comparison;
#   * repetition: a file read again after another file (of the same and of another format) was read.
# (a), (b) go through check_grid_files (oracle + Lean model where hyp holds); the large lattices and the repetition cases are
# search only.  FCV_P6G_OFF=1 switches the batch off (used to show that a mutant is seen by this batch only).
P6G_OFF = os.environ.get("FCV_P6G_OFF") == "1"
P6_DTS = ("u8", "i8", "i16", "u16", "u32", "u64", "f32", "i32", "i64", "f64")
P6_LARGE = [(300, 220, 0), (0, 260, 255), (255, 0, 260), (40, 40, 40), (70000, 0, 0), (0, 70000, 0), (0, 0, 70000)]
P6_SPACINGS = [([-1.0, 0.5, 2.0], [0.5, -1.0, 2.0]), ([0.5, -0.25, -2.0], [1.0, 2.0, 3.0]), ([2.0 ** -20] * 3, [0.0, 0.0, 0.0]),
               ([2.0 ** -20] * 3, [1.0, 1.0, 1.0]), ([2.0 ** 20, 2.0 ** 18, 2.0 ** 19], [-2.0 ** 22, 0.0, 2.0 ** 21]),
               ([2.0 ** -30, 1.0, 2.0 ** 20], [0.0, 0.0, 0.0]), ([-2.0 ** -10, -1.0, -2.0 ** 10], [3.0, -3.0, 0.5])]


def p6_fields(rng, grid, dts, tails):
    """one point and one cell field per (dtype, row shape); pairwise distinct values (8-bit types: wrapped into range)"""
    npnt = len(grid["pts"])
    ncell = 1
    for e in grid["ext"]:
        ncell *= max(e, 1)
    grid["pf"], grid["cf"] = [], []
    for k, (dt, tail) in enumerate(zip(dts, tails)):
        wrap = {"u8": 251, "i8": 127}.get(dt)

        def vals(n):
            v = meshgen._distinct_values(rng, dt, n * _rs(tail))
            return [x % wrap for x in v] if wrap else v
        grid["pf"].append({"name": f"p{k}", "dt": dt, "tail": list(tail), "v": vals(npnt)})
        grid["cf"].append({"name": f"c{k}", "dt": dt, "tail": list(tail), "v": vals(ncell)})
    return grid


def p6_spacing_grid(ext, spacing, origin):
    neg = min(spacing) < 0
    g = {"ext": list(ext), "family": "affine" if neg else "axis", "lo": [0, 0, 0], "origin": list(origin), "spacing": list(spacing),
         "basis": [[1.0, 0.0, 0.0], [0.0, 1.0, 0.0], [0.0, 0.0, 1.0]], "basis_kind": "identity", "direction_attr": False}
    g["pts"] = image_points(ext, origin, spacing, g["basis"])
    if not neg:
        g["ords"] = [[_exact(Fraction(origin[d]) + Fraction(spacing[d]) * i) for i in range(ext[d] + 1)] for d in range(3)]
    return g


def p6_large_arrays(ext, origin, spacing):
    n = [e + 1 for e in ext]
    npnt = n[0] * n[1] * n[2]
    ii = np.arange(npnt)
    ijk = np.stack([ii % n[0], (ii // n[0]) % n[1], ii // (n[0] * n[1])], axis=1)
    pts = np.array(origin, dtype=float)[None, :] + np.array(spacing, dtype=float)[None, :] * ijk
    ncell = max(ext[0], 1) * max(ext[1], 1) * max(ext[2], 1)
    return pts, 3.0 + 0.5 * ii, (7 + 3 * np.arange(ncell)).astype(np.int32)


def p6_large_case(ctx, case, tmp):
    """case = {"op": "large-grid", "ext", "origin", "spacing", "formats"}: dyadic origin / spacing (every coordinate exact)"""
    ext, fmts = case["ext"], case["formats"]
    pts, pv, cv = p6_large_arrays(ext, case["origin"], case["spacing"])
    grid = {"ext": list(ext), "family": "axis", "lo": [0, 0, 0], "origin": case["origin"], "spacing": case["spacing"],
            "basis": [[1.0, 0.0, 0.0], [0.0, 1.0, 0.0], [0.0, 0.0, 1.0]], "basis_kind": "identity", "direction_attr": False,
            "pts": pts.tolist(), "ords": [[case["origin"][d] + case["spacing"][d] * i for i in range(ext[d] + 1)] for d in range(3)],
            "pf": [{"name": "p", "dt": "f64", "tail": [], "v": pv.tolist()}], "cf": [{"name": "c", "dt": "i32", "tail": [], "v": cv.tolist()}]}
    t, rows = lattice_cells(ext)
    rows = np.array(rows, dtype=np.int64)
    objs, problems = [], {}
    for fmt in fmts:
        base = os.path.join(tmp, f"large_{fmt}")
        if fmt == "vtu":
            path = write_vtu(base, grid)
        else:
            path = base + "." + fmt
            XML_WRITERS[fmt](path, grid)
        bad = []
        try:
            from fieldcompare.io import read_field_data
            with _quiet():
                f = read_field_data(path)
                dom = f.domain
                p = np.asarray(dom.points)
                if p.shape != pts.shape or not np.array_equal(p, pts):
                    bad.append("points")
                cts = list(dom.cell_types)
                if len(cts) != 1:
                    bad.append(f"cell types {[c.name for c in cts]}")
                else:
                    conn = np.asarray(dom.connectivity(cts[0])).astype(np.int64)
                    if cts[0].name in ("PIXEL", "VOXEL"):
                        conn = conn[:, [0, 1, 3, 2] if cts[0].name == "PIXEL" else [0, 1, 3, 2, 4, 5, 7, 6]]
                    name = {"PIXEL": "QUAD", "VOXEL": "HEXAHEDRON"}.get(cts[0].name, cts[0].name)
                    if name != t or conn.shape != rows.shape or not np.array_equal(conn, rows):
                        bad.append("cells")
                pfs = {x.name: np.asarray(x.values) for x in f.point_fields}
                cfs = {x.name: np.asarray(x.values) for x in f.cell_fields}
                if sorted(pfs) != ["p"] or pfs["p"].dtype != np.float64 or not np.array_equal(pfs["p"], pv):
                    bad.append("point field")
                if len(cfs) != 1 or list(cfs.values())[0].dtype != np.int32 or not np.array_equal(list(cfs.values())[0], cv):
                    bad.append("cell field")
            objs.append((fmt, f))
        except Exception as e:  # noqa: BLE001
            bad.append(f"raise:{type(e).__name__}:{e}"[:200])
        finally:
            if os.path.exists(path):
                os.remove(path)
        if bad:
            problems[fmt] = bad
    for (fa, a), (fb, b) in itertools.combinations(objs, 2):
        for x, y, nx, ny in ((a, b, fa, fb), (b, a, fb, fa)):
            ok, detail = compare_pair(x, y)
            if not ok:
                problems[f"pair-{nx}-{ny}"] = detail if isinstance(detail, str) else {k: detail[k] for k in ("suite", "domain_equal")}
    return problems


def p6_state_case(ctx, case, tmp):
    """case = {"op": "read-sequence", "grids": [grid, ...], "sequence": [[grid index, format], ...]}: every read of the sequence
    must give the content of the grid its file describes (files are written before the first read)"""
    paths, specs = {}, []
    for gi, g in enumerate(case["grids"]):
        grid_unit(g)
        specs.append(list(content_strings(spec_lm(g))))
    set_unit(*[[c for p in g["pts"] for c in p] for g in case["grids"]])
    specs = [list(content_strings(spec_lm(g))) for g in case["grids"]]
    for gi, fmt in {(gi, fmt) for gi, fmt in case["sequence"]}:
        base = os.path.join(tmp, f"seq{gi}_{fmt}")
        if fmt == "vtu":
            paths[(gi, fmt)] = write_vtu(base, case["grids"][gi])
        else:
            paths[(gi, fmt)] = base + "." + fmt
            XML_WRITERS[fmt](paths[(gi, fmt)], case["grids"][gi])
    problems = {}
    for step, (gi, fmt) in enumerate(case["sequence"]):
        fobj, lm = impl_read(paths[(gi, fmt)])
        impl = lm if isinstance(lm, str) else list(content_strings(lm))
        if impl != specs[gi]:
            problems[f"read {step + 1} (grid {gi}, .{fmt})"] = _short(impl)
    for p in paths.values():
        os.remove(p)
    return problems


def check_p6g1i(ctx, tmp, lean_lines, pending):
    rng = ctx.rng
    # (a) every numeric type, scalar / 3-vector / 9-component / 3x3 rows, points and cells, every XML container
    fams = ["axis", "affine", "rect", "curvi"]
    tails = [[[], [3]], [[9], [3, 3]], [[3], [9]], [[3, 3], []]]
    for i in range(ctx.scale(20, 400)):
        dts = (P6_DTS[i % len(P6_DTS)], P6_DTS[(i * 3 + 1) % len(P6_DTS)])
        g = p6_fields(rng, gen_grid(rng, maxe=3, family=fams[i % 4], fields=False), dts, tails[(i // 4) % 4])
        for dt in dts:
            ctx.dist["p6-field-dt-" + dt] += 1
        for tl in tails[(i // 4) % 4]:
            ctx.dist["p6-field-row-" + ("x".join(map(str, tl)) or "scalar")] += 1
        ctx.dist["p6g1i"] += 1
        check_grid_files(ctx, g, tmp, lean_lines, pending)
    settle(ctx, lean_lines, pending)
    # (b) negative / tiny / huge spacings, every subset of flat directions over the runs
    exts = [e for e in itertools.product((0, 2, 3), repeat=3) if any(e)]
    s0 = rng.randrange(len(exts))
    for i in range(ctx.scale(14, 26 * len(P6_SPACINGS))):
        sp, org = P6_SPACINGS[i % len(P6_SPACINGS)]
        g = p6_fields(rng, p6_spacing_grid(exts[(s0 + 5 * i) % len(exts)], sp, org), ("f64", "i32"), [[], [3]])
        ctx.dist["p6g1i"] += 1
        ctx.dist["p6-spacing-" + ("negative" if min(sp) < 0 else "tiny" if min(sp) < 1e-5 else "huge")] += 1
        check_grid_files(ctx, g, tmp, lean_lines, pending)
    settle(ctx, lean_lines, pending)
    # (c) > 65536 points
    pairs = [["vti", "vts"], ["vtr", "vtu"], ["vti", "vtr"], ["vts", "vtu"]]
    s1 = rng.randrange(len(P6_LARGE))
    for i in range(ctx.scale(1, len(P6_LARGE) * 2)):
        ext = P6_LARGE[(s1 + i) % len(P6_LARGE)]
        case = {"op": "large-grid", "ext": list(ext), "origin": [0.5, -1.0, 2.0], "spacing": [0.25, 0.5, 2.0],
                "formats": pairs[(s1 + i) % 4] if ctx.tier == "quick" else ["vti", "vtr", "vts", "vtu"]}
        problems = p6_large_case(ctx, case, tmp)
        ctx.case(("p6large", tuple(ext), tuple(case["formats"])), nontrivial=True,
                 tags=["p6g1i", "p6-points>65536", "zero-" + "".join(str(int(e == 0)) for e in ext)] + ["fmt-" + f for f in case["formats"]])
        if problems:
            ctx.violation(case, problems, "the lattice the case describes, in every format, pairwise equal",
                          what=f"large lattice {ext}: {sorted(problems)}")
    # (d) a file read again after other files were read
    for i in range(ctx.scale(6, 100)):
        ga = p6_fields(rng, gen_grid(rng, maxe=3, family="axis", fields=False), ("f64", "i32"), [[], [3]])
        gb = p6_fields(rng, gen_grid(rng, maxe=3, family="axis", fields=False), ("f32", "i64"), [[3], []])
        fa, fb = ["vti", "vtr", "vts", "vtu"][i % 4], ["vti", "vtr", "vts", "vtu"][(i // 2 + 1) % 4]
        case = {"op": "read-sequence", "grids": [ga, gb], "sequence": [[0, fa], [1, fa], [0, fa], [1, fb], [0, fa], [1, fa]]}
        problems = p6_state_case(ctx, case, tmp)
        ctx.case(("p6seq", fa, fb, grid_key(ga), grid_key(gb)), nontrivial=True, tags=["p6g1i", "p6-read-sequence"])
        if problems:
            ctx.violation(case, problems, "every read gives the content of the grid its file describes",
                          what=f"read sequence over two grids (.{fa}, .{fb}): {sorted(problems)}")


def run(ctx):
    ctx.rule = ("cases = (grid, container format) reads, ordered (grid, class) in-memory observables, pairs of representations "
                "compared with MeshFieldsComparator, meshio meshes through from_meshio/to_meshio; all cases are non-trivial "
                "(>= 1 cell, pairwise distinct field values) except single-block meshio meshes; distinct = distinct "
                "(kind, format, extents, first coordinates, number of fields)")
    ctx.assumptions += [
        "IEEE binary64 operations return the exact result when it is representable (image-data point formula is "
        "compared on dyadic inputs whose intermediate results all fit in 53 bits: Fc.C07.smallDyadic)",
        "np.fromstring parses the shortest repr of a float back to the same float (ascii VTK files written by the harness)",
        "meshio's readers/writers and meshio_to_vtk_type table (only the bridge from_meshio/to_meshio is modelled)",
        "ElementTree parses the generated XML to the element tree the writer intended",
    ]
    rng = ctx.rng
    tmp = tempfile.mkdtemp(prefix="fcv_c07_")
    lean_lines, pending = [], []
    try:
        check_meshio_table(ctx)
        # (1) exhaustive small scope: all extents <= 3 per axis, the three classes, points + connectivity
        for ext in itertools.product(range(4), repeat=3):
            if not any(ext):
                continue
            check_mesh_objects(ctx, simple_grid(ext), KINDS, lean_lines, pending)
        ctx.exhaustive = True
        settle(ctx, lean_lines, pending)
        # (2) random grids, larger extents, in-memory classes
        for _ in range(ctx.scale(400, 6000)):
            g = gen_grid(rng, maxe=rng.choice([4, 6, 9]), fields=False)
            check_mesh_objects(ctx, g, kinds_of(g), lean_lines, pending)
        settle(ctx, lean_lines, pending)
        # (3) files: every format of a grid, content + pairwise comparison
        n_files = ctx.scale(700, 15000)
        for i in range(n_files):
            g = gen_grid(rng, maxe=rng.choice([2, 3, 4]))
            check_grid_files(ctx, g, tmp, lean_lines, pending, with_meshio=(i % ctx.scale(8, 8) == 0))
            if len(lean_lines) > 400:
                settle(ctx, lean_lines, pending)
        settle(ctx, lean_lines, pending)
        # (3b) decimal origins / spacings: representations agree up to rounding; content after snapping, comparator
        for _ in range(ctx.scale(80, 3000)):
            check_grid_files(ctx, gen_inexact_grid(rng), tmp, lean_lines, pending)
        # (3c) compressed containers, block boundaries (directed: one grid per family, fixed block-size list)
        for k, fam in enumerate(["axis", "axis", "affine", "rect", "curvi"] + ["axis", "affine", "rect", "curvi"] * ctx.scale(0, 5)):
            check_grid_compressed(ctx, gen_comp_grid(rng, fam, maxe=(2 if k == 0 else 3)), tmp, lean_lines, pending, salt=k)
            settle(ctx, lean_lines, pending)
        # ... and at the writers' default block size (32768 bytes = a Float64 field on 16 x 16 x 16 points)
        g = simple_grid((15, 15, 15))
        g["direction_attr"] = False
        g["pf"] = [{"name": "pa", "dt": "f64", "tail": [], "v": meshgen._distinct_values(rng, "f64", len(g["pts"]))}]
        g["cf"] = [{"name": "ca", "dt": "f64", "tail": [], "v": meshgen._distinct_values(rng, "f64", 15 ** 3)}]
        big = [{"comp": "zlib", "B": 32768, "hs": 4, "conv": "vtk"}, {"comp": "zlib", "B": 32768, "hs": 8, "conv": "meshio"}]
        if ctx.tier == "thorough":
            big += [{"comp": c, "B": 32768, "hs": 4, "conv": v} for c in vtkcomp.codecs() if c != "zlib" for v in ("vtk", "meshio")]
        check_grid_compressed(ctx, g, tmp, [], [], encs=big, fmts=["vti", "vtr"] + (["vts", "vtu"] if ctx.tier == "thorough" else []))
        # (4) meshio bridge
        for _ in range(ctx.scale(1500, 40000)):
            r = gen_mio_case(rng)
            if r is None:
                continue
            check_mio(ctx, r[0], r[1], lean_lines, pending)
        for _ in range(ctx.scale(500, 10000)):
            lm, _t = meshgen.gen_mesh(rng, max_cells_per_dir=3, allow_duplicates=False)
            if any(t == "POLYGON" for t, _ in lm["cells"]):
                continue
            check_tomio(ctx, lm, lean_lines, pending)
        settle(ctx, lean_lines, pending)
        # (5) phase 6 (G1/io): directed batch
        if not P6G_OFF:
            check_p6g1i(ctx, tmp, lean_lines, pending)
        observe_degenerate(ctx)
    finally:
        shutil.rmtree(tmp, ignore_errors=True)
    # keep the smallest witnesses first
    # smallest witnesses first; unclassified candidates are never crowded out by classified ones
    ctx.spec_viol.sort(key=lambda v: (v.get("class") is not None, len(str(v["case"]))))
    ctx.extra["candidates_total"] = len(ctx.spec_viol)
    unl = [v for v in ctx.spec_viol if v.get("class") is None][:40]
    ctx.spec_viol = unl + [v for v in ctx.spec_viol if v.get("class") is not None][:200]


def observe_degenerate(ctx):
    """outside the quantifier (no non-zero extent = a single point): record what the classes do"""
    obs = {}
    for kind in KINDS:
        obs[kind] = impl_mesh(simple_grid((0, 0, 0)), kind)[:60]
    ctx.extra["degenerate_0d_grid"] = obs
    ctx.notes.append("0-d grid (all extents zero) is outside the property (1-3 dimensions); observed: " + str(obs))


# ------------------------------------------------------------------------------------------------ replay

def _eval_case(case):
    op = case["op"]
    if "grid" in case:
        grid_unit(case["grid"])
    elif "mio" in case:
        lm_unit(case["mio"])
    elif "lm" in case:
        lm_unit(case["lm"])
    if op == "grid-file":
        tmp = tempfile.mkdtemp(prefix="fcv_c07_")
        try:
            grid, fmt = case["grid"], case["format"]
            base = os.path.join(tmp, "g")
            if case.get("enc") or case.get("writer") == "xml":
                XML_WRITERS[fmt](base + "." + fmt, grid, case.get("enc"))
                path = base + "." + fmt
            else:
                {"vti": write_vti, "vtr": write_vtr, "vts": write_vts}.get(fmt, lambda p, g: None)(base + "." + fmt, grid)
                path = base + "." + fmt if fmt != "vtu" else write_vtu(base, grid)
            _, lm = impl_read(path)
            if grid.get("inexact"):
                lm = snap_points(lm, grid)
            impl = lm if isinstance(lm, str) else list(content_strings(lm))
            return impl, list(content_strings(spec_lm(grid)))
        finally:
            shutil.rmtree(tmp, ignore_errors=True)
    if op == "grid-pair":
        tmp = tempfile.mkdtemp(prefix="fcv_c07_")
        try:
            objs = []
            for k, fmt in enumerate(case["formats"]):
                base = os.path.join(tmp, f"g{k}" + fmt.strip("."))
                if case.get("writer") == "xml":
                    path = base + "." + fmt
                    XML_WRITERS[fmt](path, case["grid"], case["encs"][k])
                elif fmt in ("vti", "vtr", "vts"):
                    {"vti": write_vti, "vtr": write_vtr, "vts": write_vts}[fmt](base + "." + fmt, case["grid"])
                    path = base + "." + fmt
                elif fmt == "vtu":
                    path = write_vtu(base, case["grid"])
                else:
                    return "cannot replay meshio pair", "-"
                objs.append(impl_read(path)[0])
            ok, detail = compare_pair(objs[0], objs[1])
            return ("pass" if ok else detail), "pass"
        finally:
            shutil.rmtree(tmp, ignore_errors=True)
    if op in ("large-grid", "read-sequence"):
        tmp = tempfile.mkdtemp(prefix="fcv_c07_")
        try:
            problems = p6_large_case(None, case, tmp) if op == "large-grid" else p6_state_case(None, case, tmp)
        finally:
            shutil.rmtree(tmp, ignore_errors=True)
        return (problems or "as described"), "as described"
    if op == "grid-mem":
        return norm_mesh_obs(impl_mesh(case["grid"], case["kind"])), norm_mesh_obs(spec_mesh(case["grid"], case["kind"]))
    if op == "mio":
        return impl_from_meshio(case["mio"]), list(mio_spec_content(case["mio"]))
    if op == "grid-meshio-file":
        tmp = tempfile.mkdtemp(prefix="fcv_c07_")
        try:
            path = os.path.join(tmp, "g" + case["format"])
            kw = {"binary": False} if case["format"] == ".vtk" else {"data_format": "XML"}
            with _quiet():
                mio_to_meshio(case["mio"]).write(path, **kw)
            _, lm = impl_read(path)
            return (lm if isinstance(lm, str) else list(content_strings(lm))), list(mio_spec_content(case["mio"]))
        finally:
            shutil.rmtree(tmp, ignore_errors=True)
    if op == "tomio":
        from fieldcompare.mesh import meshio_utils
        try:
            with _quiet():
                impl = list(mio_object_content(meshio_utils.to_meshio(meshgen.to_fc(case["lm"]))))
        except Exception as e:  # noqa: BLE001
            impl = f"raise:{type(e).__name__}"
        return impl, list(content_strings(case["lm"]))
    if op == "miotable":
        from fieldcompare.mesh import meshio_utils
        return meshio_utils._from_meshio_cell_type(case["meshio_type"]).name, FC_TYPE[case["meshio_type"]]
    raise ValueError(op)


def replay_witness(ctx, entry):
    w = entry["witness"]
    if isinstance(w, dict) and "fn" in w:
        return core.run_named_witness(entry)
    impl, spec = _eval_case(w)
    return impl != spec, {"impl": _short(impl), "spec": _short(spec)}


def replay(ctx, payload):
    impl, spec = _eval_case(payload["case"])
    print(f"replay (coordinates / float values are whole numbers of 2^-{_UNIT[0]}):\n"
          f"  impl={_short(impl)}\n  property demands={_short(spec)}")
    if impl != spec:
        print(f"VIOLATION property=C07 replay={payload.get('_path', '<replay>')}")
        return 1
    return 0
