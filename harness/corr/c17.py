"""C17 — space-dimension matching only adds zeros.

A data set of space dimension d in {1, 2} is compared with its zero-padded copy of dimension sd in {2, 3}
(points, vector and tensor point/cell fields padded by an oracle written here, independent of the library),
in either role, optionally relabeled, with `disable_space_dimension_matching` on/off, and with ONE extra
coordinate / field component set to zero, to a value below the tolerance, or to a value above it.

Search: `MeshFieldsComparator(a, b, disable_space_dimension_matching=...)()` against the property:
  dims differ and matching disabled -> FAIL;  otherwise PASS iff the extra entry is within tolerance.
Correspondence: with `disable_mesh_reordering=True` (no reordering rungs) the verdict, the first domain check
and the raise of `extend_space_dimension_to` on field shapes that fit neither dimension are compared with the
Lean model `Fc.compareDimMatch` (driver op `c17.cmp`); the scalar kernel `0 vs z` with op `c17.zero`.
CLI: `--disable-mesh-space-dimension-matching` on the shipped 2-d / 3-d pair (plumbing of the flag).
CLI batch (phase 5, `fcv/dimcli_p5c.py`): generated pairs (d-dimensional mesh, zero-padded copy; 2-d vs 3-d in .xdmf,
1-d vs 2-d/3-d and 2-d vs 3-d in .med — the formats whose writers keep the space dimension), scalar / vector / tensor
fields, both roles, optionally relabeled or with one extra entry beyond / below tolerance, are written to files and
compared by `fieldcompare file`, by `fieldcompare dir` (directory pair containing the file pair) and through the API,
each with and without `--disable-mesh-space-dimension-matching` (and `--disable-mesh-reordering`): the three must show
the verdict the property demands, and — with reordering disabled — the verdict of `Fc.compareDimMatch`.
"""
from __future__ import annotations
import copy
import os
import warnings

import numpy as np

from fcv import core, meshgen, predio
from fcv.meshgen import gen_mesh, relabel, to_fc, enc_fields, _rowsize
from fcv.num import f2u
from . import c08

FLOATS = ("f64", "f32", "f16")


# ---------------------------------------------------------------- generation

def make_fields(rng, lm, irregular=False):
    d = lm["dim"]
    n = len(lm["points"])
    lm["pf"], lm["cf"] = [], []
    for k in range(rng.randint(0, 3)):
        dt = rng.choice(["f64", "f64", "i64"])
        tail = rng.choice([[], [1], [d], [3], [d, d], [d, d]])
        if irregular and k == 0:
            tail = rng.choice([[2], [1, 2], [2, 1], [2, 2], [1, 1]]) if d == 1 else rng.choice([[1, 1], [1, 2], [2, 1]])
        lm["pf"].append({"name": f"p{k}", "dt": dt, "tail": tail,
                         "v": meshgen._distinct_values(rng, dt, n * _rowsize(tail))})
    for k in range(rng.randint(0, 2)):
        dt = rng.choice(["f64", "i64"])
        tail = rng.choice([[], [d], [d, d], [3]])
        for t, rows in lm["cells"]:
            lm["cf"].append({"name": f"c{k}", "ctype": t, "dt": dt, "tail": tail,
                             "v": meshgen._distinct_values(rng, dt, len(rows) * _rowsize(tail))})
    return lm


def mesh_abs_tol(lm):
    m = max(abs(c) for p in lm["points"] for c in p)
    return m * 1e-8


def extra_slots(lo, hi, d, sd):
    """positions of the padded copy `hi` that do not exist in `lo`: ('coord', point, column) on connected
    points, ('pf'|'cf', field index, flat index)"""
    slots = []
    ref = sorted(c08.referenced(hi))
    refset = set(ref)
    for p in ref:
        for c in range(d, sd):
            slots.append(("coord", p, c))
    for kind in ("pf", "cf"):
        for fi, (f0, f1) in enumerate(zip(lo[kind], hi[kind])):
            if f0["tail"] == f1["tail"]:
                continue
            tail = f1["tail"]
            rs = _rowsize(tail)
            nrows = len(f1["v"]) // rs if rs else 0
            for i in range(nrows):
                if kind == "pf" and i not in refset:
                    continue          # values on unconnected points are ignored once orphans are stripped
                for j in range(rs):
                    if len(tail) == 1:
                        new = j >= d
                    else:
                        new = (j // sd) >= d or (j % sd) >= d
                    if new:
                        slots.append((kind, fi, i * rs + j))
    return slots


def gen_case(rng, k):
    d = rng.choice([1, 2, 2])
    sd = rng.choice([2, 3, 3]) if d == 1 else 3
    control = (k % 11 == 0)
    if control:
        sd = d
    irregular = (k % 13 == 5)
    lm, gt = gen_mesh(rng, max_cells_per_dir=3, dims=(d,), allow_orphans=(rng.random() < 0.3),
                      allow_duplicates=False, fields=False, scale=rng.choice([1e-3, 1.0, 1.0, 250.0]))
    make_fields(rng, lm, irregular)
    hi, st = c08.pad_lm(lm, sd)
    tags = [f"{d}->{sd}", "style=" + str(gt["style"]), "pad-" + st]
    pred = rng.choice([["dflt"], ["dflt"], ["num", 1e-9, 1e-6]])
    extra, where, slot = "zero", None, None
    slots = extra_slots(lm, hi, d, sd) if st == "ok" else []
    if slots and rng.random() < 0.7:
        slot = rng.choice(slots)
        where = slot[0]
        if where == "coord":
            tol = mesh_abs_tol(lm)
            extra = rng.choice(["below", "above", "above"])
            z = (0.25 * tol if extra == "below" else rng.choice([4.0 * tol, 1e-3 * tol * 1e8, 1.5 * tol]))
            z *= rng.choice([1.0, -1.0])
            hi["points"][slot[1]][slot[2]] = z
        else:
            f = hi[where][slot[1]]
            if f["dt"] in FLOATS:
                if pred[0] == "num":
                    extra = rng.choice(["below", "above"])
                    z = (0.25 * pred[2] if extra == "below" else 4.0 * pred[2]) * rng.choice([1.0, -1.0])
                else:
                    extra = "above"
                    z = rng.choice([1e-3, -2.5, 1e-200])
            else:
                extra, z = "above", rng.choice([1, -3])
            f["v"][slot[2]] = z
    tags += ["extra-" + extra, "where-" + str(where)]
    do_relabel = rng.random() < 0.5
    noreorder = (not do_relabel) and rng.random() < 0.75
    a, b = lm, hi
    if do_relabel:
        which = rng.random() < 0.5
        if which:
            b = relabel(rng, b, extra_orphans=rng.choice([0, 0, 2]))
        else:
            a = relabel(rng, a, extra_orphans=rng.choice([0, 0, 2]))
        tags.append("relabeled")
    swap = rng.random() < 0.5
    if swap:
        a, b = b, a
        tags.append("padded-is-source")
    disable = rng.random() < 0.4
    tags.append("matching-" + ("off" if disable else "on"))
    tags.append("reorder-" + ("off" if noreorder else "on"))
    tags.append("pred-" + pred[0])
    case = {"source": a, "reference": b, "disable": disable, "noreorder": noreorder, "pred": pred}
    meta = {"d": d, "sd": sd, "pad": st, "extra": extra, "relabel": do_relabel}
    return case, meta, tags


def expected(case, meta):
    """verdict the property demands ('T'/'F'), or None where it does not speak"""
    if meta["pad"] != "ok":
        return None
    if meta["relabel"] and case["noreorder"]:
        return None
    if meta["d"] != meta["sd"] and case["disable"]:
        return "F"
    return "T" if meta["extra"] in ("zero", "below") else "F"


# ---------------------------------------------------------------- implementation

def build_pair(case):
    """the two fieldcompare objects of a case (phase-6 directed cases carry construction options under "p6g")"""
    if case.get("p6g"):
        from fcv import c17_batches_p6g as p6g
        return p6g.build(case)
    return to_fc(case["source"]), to_fc(case["reference"])


def run_impl(case):
    from fieldcompare.mesh import MeshFieldsComparator
    from fieldcompare.predicates import DefaultEquality
    with warnings.catch_warnings():
        warnings.simplefilter("ignore")
        with np.errstate(all="ignore"):
            try:
                opt = case.get("p6g") or {}
                s, r = build_pair(case)
                tol = (min(s.domain.relative_tolerance, r.domain.relative_tolerance),
                       min(s.domain.absolute_tolerance, r.domain.absolute_tolerance))
                dom0 = bool(s.domain.equals(r.domain))
                cmp = MeshFieldsComparator(s, r, disable_space_dimension_matching=case["disable"],
                                           disable_mesh_reordering=case["noreorder"],
                                           disable_orphan_point_removal=bool(opt.get("keep_orphans")))
                sel = None
                if case["pred"][0] == "num":
                    rt, at = case["pred"][1], case["pred"][2]
                    sel = lambda *_a, **_k: DefaultEquality(rel_tol=rt, abs_tol=at)  # noqa: E731
                suite = cmp(predicate_selector=sel, fieldcomp_callback=lambda c: None)
                verdict = "T" if suite else "F"
                if opt.get("rerun"):
                    # the SAME comparator object asked again (it replaces its operands by extended / sorted views during a
                    # call): the pair is still the pair the property speaks about
                    again = "T" if cmp(predicate_selector=sel, fieldcomp_callback=lambda c: None) else "F"
                    if again != verdict:
                        verdict = f"X:first-call={verdict},second-call={again}"
                return verdict, dom0, tol
            except Exception as e:  # noqa: BLE001
                return f"E:{type(e).__name__}", None, None


def model_applicable(case):
    if case.get("p6g"):
        from fcv import c17_batches_p6g as p6g
        return p6g.model_applicable(case)
    return True


def enc_case(case, tol):
    p = case["pred"]
    ft = "dflt num 0" if p[0] == "dflt" else f"num {f2u(p[1])} num {f2u(p[2])}"
    return (f"c17.cmp {1 if case['disable'] else 0} {f2u(tol[0])} {f2u(tol[1])} {ft} "
            f"{enc_fields(case['source'])} {enc_fields(case['reference'])}")


def evaluate(ctx, items):
    """items: (case, meta, tags)"""
    lines, idx = [], []
    impls = []
    for i, (case, meta, tags) in enumerate(items):
        impl, dom0, tol = run_impl(case)
        impls.append((impl, dom0, tol))
        if ctx.driver_ok and case["noreorder"] and model_applicable(case):
            if tol is None:     # raised: tolerances are still needed by the model
                try:
                    s, r = build_pair(case)
                    tol = (min(s.domain.relative_tolerance, r.domain.relative_tolerance),
                           min(s.domain.absolute_tolerance, r.domain.absolute_tolerance))
                except Exception:  # noqa: BLE001
                    tol = None
            if tol is not None:
                lines.append(enc_case(case, tol)); idx.append(i)
    reps = dict(zip(idx, ctx.lean(lines))) if lines else {}
    problems = 0
    for i, (case, meta, tags) in enumerate(items):
        impl, dom0, tol = impls[i]
        want = expected(case, meta)
        tags = list(tags) + ["verdict-" + impl[:1]]
        if impl.startswith("E"):
            tags.append("raise-" + ("limitation" if meta["pad"] != "ok" else "UNEXPECTED"))
        rep = reps.get(i)
        ctx.case((c08.units(case["source"]), c08.units(case["reference"]), case["disable"], case["noreorder"], case["pred"]),
                 nontrivial=(meta["d"] != meta["sd"]), tags=tags,
                 sample={"dims": [meta["d"], meta["sd"]], "extra": meta["extra"], "disable": case["disable"],
                         "relabel": meta["relabel"], "impl": impl, "expected": want,
                         "npoints": len(case["source"]["points"]), "lean": rep})
        # ---- search: implementation vs property
        if want is not None and impl != want:
            what = ("padded copy not accepted" if want == "T" else
                    ("accepted although dimension matching is disabled" if case["disable"] and meta["d"] != meta["sd"]
                     else "accepted although an additional coordinate/component is non-zero beyond tolerance"))
            if impl.startswith("E"):
                what = "comparison raised: " + impl
            ctx.violation(case, impl, want, cls=None, what=what)
            problems += 1
        if want is None and meta["pad"] != "ok" and impl == "T" and meta["d"] != meta["sd"]:
            # shapes that fit neither dimension: any outcome but a PASS is acceptable (limitation: raises)
            ctx.violation(case, impl, "F or exception", cls=None,
                          what="field whose component count fits neither dimension compared as passed")
            problems += 1
        # ---- correspondence
        if rep is not None:
            if "hyp" not in rep:
                ctx.inconsistent(case, str(rep), "reply"); problems += 1
                continue
            if rep["hyp"] == "1":
                m = rep["model"]
                if m != impl[:1]:
                    ctx.mismatch(case, impl, m, what="MeshFieldsComparator verdict (reordering disabled): impl vs model")
                    problems += 1
                if dom0 is not None and rep["dom0"] != ("1" if dom0 else "0"):
                    ctx.mismatch(case, dom0, rep["dom0"], what="first domain equality check: impl vs model")
                    problems += 1
                if rep["spec"] != "-" and m != rep["spec"]:
                    ctx.inconsistent(case, m, rep["spec"]); problems += 1     # theorems C17_pad_equal / C17_disabled
                if rep["spec"] != "-" and want is not None and rep["spec"] != want:
                    ctx.inconsistent(case, "lean-spec=" + rep["spec"], "python-expectation=" + want); problems += 1
    return problems


# ---------------------------------------------------------------- phase 6 (package G): directed batches

def p6g_batch(ctx):
    """dimensions of the quantifier that `gen_case` samples at one point only: user-set mesh tolerances, > 1000 points with
    the extra entry first / middle / last, narrow / unsigned / float32 dtypes, memory layouts, transformed views as inputs,
    the same comparator asked twice, orphan-point removal disabled, -0.0 / huge extras, odd field names, a pixel + quad +
    triangle mesh with orphans at the front (see fcv/c17_batches_p6g.py).  Evaluated by the same rules as the random cases."""
    from fcv import c17_batches_p6g as p6g
    import sys
    items = p6g.gen_batch(ctx.rng, sys.modules[__name__], c08, ctx.scale(1, 12))
    CH = 60
    for i in range(0, len(items), CH):
        evaluate(ctx, items[i:i + CH])
    ctx.extra["p6g_batch"] = {"cases": len(items)}


# ---------------------------------------------------------------- scalar kernel 0 vs z

def zero_cases(ctx):
    rng = ctx.rng
    n = ctx.scale(300, 20000)
    cases = []
    for _ in range(n):
        rel = rng.choice([0.0, 1e-8, 1e-8, 2.0 ** -52, 0.5, 0.75, 0.999, 1.0 - 2.0 ** -53])
        abs_ = rng.choice([0.0, 1e-12, 1e-8, 2.5e-6, 1e-290])
        r = rng.random()
        if r < 0.5 and abs_ > 0:
            z = abs_ * rng.choice([0.5, 1.0, 1.0 + 2.0 ** -52, 1.0000001, 2.0, 1.0 - 2.0 ** -53])
        elif r < 0.65:
            # no subnormal operands/products: numpy's handling of subnormals was observed to be transiently
            # non-IEEE on the build machine (see NOTES_C17) and is property C01's business anyway
            z = rng.choice([2.0 ** -900, 1e-280, 2.0 ** -1000 * 1.5])
        else:
            z = rng.choice([1e-3, 1.0, 1e5, 1e-9, 3.3e-7])
        z *= rng.choice([1.0, -1.0])
        cases.append((z, rel, abs_))
    if not ctx.driver_ok:
        return
    reps = ctx.lean([f"c17.zero {f2u(z)} {f2u(rel)} {f2u(a)}" for z, rel, a in cases])
    for (z, rel, a), rep in zip(cases, reps):
        impl = predio.run_impl("fuzzy", ["num", rel], ["num", a], {"dt": "f64", "shape": [1], "v": [0.0]},
                               {"dt": "f64", "shape": [1], "v": [z]})
        ctx.case(("zero", z, rel, a), nontrivial=True, tags=["zero-vs-z", "zero-" + impl])
        if rep.get("model") != ("1" if impl == "T" else "0"):
            ctx.mismatch({"zero_vs": z, "rel": rel, "abs": a}, impl, rep.get("model"), what="FuzzyEquality(0, z)")
        # the property: beyond tolerance (|z| > abs and |z| > rel*|z| by a factor 2) is never accepted
        if abs(z) > a and rel <= 0.5 and impl == "T":
            ctx.violation({"zero_vs": z, "rel": rel, "abs": a}, impl, "F", cls=None,
                          what="non-zero extra entry beyond tolerance accepted")


# ---------------------------------------------------------------- CLI flag

def cli_flag(ctx):
    data = os.path.join(core.REPO, "test", "data")
    a, b = os.path.join(data, "poisson_time_series_3d.pvd"), os.path.join(data, "poisson_time_series_2d.xdmf")
    if not (os.path.exists(a) and os.path.exists(b)):
        ctx.notes.append("CLI flag check skipped: shipped 2-d/3-d pair not found")
        return
    try:
        from fieldcompare._cli import main
        from fieldcompare._cli._logger import CLILogger
        import io
        import contextlib
        res = []
        for flag in ([], ["--disable-mesh-space-dimension-matching"]):
            with contextlib.redirect_stdout(io.StringIO()), contextlib.redirect_stderr(io.StringIO()):
                with warnings.catch_warnings():
                    warnings.simplefilter("ignore")
                    res.append(main(["file", a, b, "-rtol", "1e-7"] + flag, logger=CLILogger(output_stream=io.StringIO())))
    except Exception as e:  # noqa: BLE001 — optional reader dependencies (meshio/h5py) may be missing
        ctx.notes.append(f"CLI flag check skipped: {type(e).__name__}: {e}")
        return
    ctx.case(("cli", "3d-vs-2d"), nontrivial=True, tags=["cli-flag"])
    case = {"cli": ["file", "poisson_time_series_3d.pvd", "poisson_time_series_2d.xdmf", "-rtol", "1e-7"]}
    if res[0] != 0:
        ctx.violation(dict(case, flag=False), res[0], 0, what="CLI: 2-d vs 3-d file pair does not pass with matching enabled")
    if res[1] == 0:
        ctx.violation(dict(case, flag=True), res[1], 1, what="CLI: --disable-mesh-space-dimension-matching has no effect")


# ---------------------------------------------------------------- CLI batch: file mode, dir mode, API vs property / model

CLI_VARIANTS = ["zero", "zero", "coord-above", "field-above", "zero", "coord-below"]


def gen_cli_pair(rng, k, fam):
    """-> (lo, hi, meta, tags): a d-dimensional logical mesh and its (possibly perturbed / relabeled) padded copy"""
    from fcv import dimcli_p5c as dc
    ext, d, sd, ptails, ctails = fam
    if k % 7 == 6:
        sd = d                       # control: equal dimensions, the flag must not matter
    lm, gt = gen_mesh(rng, max_cells_per_dir=2, dims=(d,), allow_orphans=False, allow_duplicates=False, fields=False,
                      types=rng.choice(["quad", "tri", "mixed2"]), scale=rng.choice([1e-3, 1.0, 1.0, 250.0]))
    dc.make_fields(rng, lm, ptails(d), ctails(d), k)
    hi, st = c08.pad_lm(lm, sd)
    variant = CLI_VARIANTS[k % len(CLI_VARIANTS)]
    slots = extra_slots(lm, hi, d, sd) if (st == "ok" and sd != d) else []
    extra = "zero"
    if variant != "zero" and slots:
        fslots = [s_ for s_ in slots if s_[0] != "coord"]
        cslots = [s_ for s_ in slots if s_[0] == "coord"]
        if variant == "field-above" and fslots:
            slot = rng.choice(fslots)
            f = hi[slot[0]][slot[1]]
            f["v"][slot[2]] = rng.choice([1e-3, -2.5]) if f["dt"] in FLOATS else rng.choice([1, -3])
            extra = "above"
        elif cslots:
            slot = rng.choice(cslots)
            tol = mesh_abs_tol(lm)
            if variant == "coord-below":
                z, extra = 0.25 * tol, "below"
            else:
                z, extra = rng.choice([4.0 * tol, 1e5 * tol]), "above"
            hi["points"][slot[1]][slot[2]] = z * rng.choice([1.0, -1.0])
    do_relabel = (k % 3 == 2)
    if do_relabel:
        hi = relabel(rng, hi)
    meta = {"d": d, "sd": sd, "pad": st, "extra": extra, "relabel": do_relabel}
    tags = ["cli-batch", "cli-" + ext, f"cli-{d}->{sd}", "cli-extra-" + extra] + (["cli-relabeled"] if do_relabel else [])
    return lm, hi, meta, tags


def observe_cli(tree, case):
    """{"file": exit, "dir": exit, "api": verdict} for one configuration; files are written here"""
    from fcv import dimcli_p5c as dc
    base, res_dir, ref_dir, res_file, ref_file = tree.pair(case["source"], case["reference"], case["cli"]["ext"])
    try:
        obs = dc.cli_exits(res_dir, ref_dir, res_file, ref_file, case["disable"], case["noreorder"])
    finally:
        tree.drop(base)
    obs["api"] = run_impl(case)[0]
    return obs


def cli_problems(obs, want):
    """which of the three observables do not show the verdict `want` ('T' = exit 0 / PASS)"""
    bad = [m for m in ("file", "dir") if (obs[m] == 0) != (want == "T")]
    if obs["api"] != want:
        bad.append("api")
    return bad


def cli_batch(ctx):
    from fcv import dimcli_p5c as dc
    rng = ctx.rng
    if not dc.available(".xdmf"):
        ctx.notes.append("CLI batch skipped: meshio / h5py not importable")
        return
    tree = dc.Tree()
    runs, lines, idx, mimpls = [], [], [], {}
    discarded = 0
    try:
        per_family = ctx.scale(7, 60)
        for fam in dc.FAMILIES:
            for k in range(per_family):
                lo, hi, meta, tags = gen_cli_pair(rng, k, fam)
                if meta["pad"] != "ok":
                    continue
                ext = fam[0]
                base, res_dir, ref_dir, res_file, ref_file = tree.pair(lo, hi, ext)
                try:
                    if not (dc.reads_back(lo, res_file, c08.units) and dc.reads_back(hi, ref_file, c08.units)):
                        discarded += 1
                        ctx.case(("cli-discarded", ext, k, c08.units(lo)), nontrivial=False,
                                 tags=["cli-batch", "cli-discarded-roundtrip"])
                        continue
                    for swap in (False, True):
                        a, b = (hi, lo) if swap else (lo, hi)
                        dirs = (ref_dir, res_dir, ref_file, res_file) if swap else (res_dir, ref_dir, res_file, ref_file)
                        for disable in (False, True):
                            # the observables the property speaks about: the plain CLI (reordering left enabled, as in
                            # the property's "combined with arbitrary reordering") and the API in the same configuration
                            case = {"source": a, "reference": b, "disable": disable, "noreorder": False,
                                    "pred": ["dflt"], "cli": {"ext": ext}, "meta": meta}
                            obs = dc.cli_exits(*dirs, disable, False)
                            obs["api"] = run_impl(case)[0]
                            runs.append((case, meta, tags + (["padded-is-source"] if swap else []), obs))
                            if not meta["relabel"]:
                                # model: Fc.compareDimMatch describes the rungs before any reordering; on a pair stored
                                # in the same order a PASS there is a PASS of the whole ladder
                                mcase = dict(case, noreorder=True)
                                mimpl, _, tol = run_impl(mcase)
                                if ctx.driver_ok and tol is not None:
                                    lines.append(enc_case(mcase, tol)); idx.append(len(runs) - 1)
                                    mimpls[len(runs) - 1] = mimpl
                                if not disable and not swap and meta["d"] != meta["sd"] and meta["extra"] != "above":
                                    # informational (outside C17's quantifier): the CLI with --disable-mesh-reordering
                                    probe = dc.cli_exits(*dirs, False, True)
                                    ctx.dist["cli-noreorder-flag-padded-copy-file-exit-" + str(probe["file"])] += 1
                                    ctx.dist["cli-noreorder-flag-padded-copy-dir-exit-" + str(probe["dir"])] += 1
                finally:
                    tree.drop(base)
    finally:
        tree.close()
    reps = dict(zip(idx, ctx.lean(lines))) if lines else {}
    for i, (case, meta, tags, obs) in enumerate(runs):
        want = expected(case, meta)
        rep = reps.get(i)
        tags = list(tags) + ["matching-" + ("off" if case["disable"] else "on"),
                             "reorder-" + ("off" if case["noreorder"] else "on"),
                             "cli-file-exit-" + str(obs["file"]), "cli-dir-exit-" + str(obs["dir"])]
        ctx.case((c08.units(case["source"]), c08.units(case["reference"]), case["disable"], case["noreorder"], "cli",
                  case["cli"]["ext"]), nontrivial=(meta["d"] != meta["sd"]), tags=tags,
                 sample={"dims": [meta["d"], meta["sd"]], "format": case["cli"]["ext"], "extra": meta["extra"],
                         "disable": case["disable"], "noreorder": case["noreorder"], "relabel": meta["relabel"],
                         "observed": obs, "expected": want, "lean": rep})
        if want is not None:
            bad = cli_problems(obs, want)
            if bad:
                what = ("accepted although dimension matching is disabled" if want == "F" and case["disable"]
                        and meta["d"] != meta["sd"] else
                        ("padded copy not accepted" if want == "T" else
                         "accepted although an additional coordinate/component is non-zero beyond tolerance"))
                ctx.violation(case, obs, want, cls=None,
                              what=what + " by " + ", ".join({"file": "`fieldcompare file`", "dir": "`fieldcompare dir`",
                                                              "api": "MeshFieldsComparator"}[m] for m in bad)
                              + " (file mode, dir mode and the API must all show the verdict the property demands)")
        if rep is not None and rep.get("hyp") == "1":
            m = rep["model"]
            if m != mimpls[i][:1]:
                ctx.mismatch(dict(case, noreorder=True), mimpls[i], m,
                             what="MeshFieldsComparator verdict (reordering disabled): impl vs model")
            # same stored order: the model's PASS (no reordering needed) is the verdict of the full ladder, hence of
            # both CLI modes; the model's FAIL is compared through the property's expectation above
            badm = cli_problems(obs, "T") if m == "T" else []
            if badm:
                ctx.mismatch(case, obs, m, what="Fc.compareDimMatch accepts the pair before any reordering, but not: "
                             + "/".join(badm))
            if rep["spec"] != "-" and want is not None and rep["spec"] != want:
                ctx.inconsistent(case, "lean-spec=" + rep["spec"], "python-expectation=" + want)
    ctx.extra["cli_batch"] = {"configurations": len(runs), "pairs_discarded_roundtrip": discarded}
    if discarded:
        ctx.notes.append(f"CLI batch: {discarded} generated file pair(s) did not read back identically and were discarded")


# ---------------------------------------------------------------- run

def run(ctx):
    ctx.rule = ("case = (source, reference, flags, field predicate): a 1-/2-d lattice mesh (line/triangle/quad/pixel/polygon "
                "cells, one or two cell types, scalar/vector/tensor point and cell fields, float64 and int64) and its zero-padded "
                "copy of dimension 2/3 built by an independent oracle, either role, optionally relabeled (+ orphan points), "
                "dimension matching on/off, reordering on/off, one extra coordinate/component zero / below / above tolerance; "
                "non-trivial = the two space dimensions differ; distinct = distinct (source, reference, flags, predicate); "
                "CLI batch: the same pairs written to .xdmf (2->3) / .med (1->2, 1->3, 2->3) files, both roles, matching "
                "on/off x reordering on/off, through `fieldcompare file`, `fieldcompare dir` and the API")
    ctx.assumptions += [
        "mesh_equal's cell stage is modelled by a stand-in valid for equal cell-type sets (C03/C16 own the full model)",
        "the reordering rungs are not modelled here (C02): correspondence runs with disable_mesh_reordering=True, "
        "relabeled pairs are checked against the property only",
        "Fc.fuzzyCheck models FuzzyEquality (property C01's correspondence)",
        "CLI batch: meshio's .xdmf / .med writers and fieldcompare's reader round-trip the generated meshes (side-checked "
        "on every file: read back through fieldcompare.io.read and compared with the logical mesh; else discarded); "
        "the API observable is MeshFieldsComparator on the logical meshes, the CLI observables are exit codes"]
    n = ctx.scale(700, 30000)
    items = [gen_case(ctx.rng, k) for k in range(n)]
    CH = 400
    for i in range(0, len(items), CH):
        evaluate(ctx, items[i:i + CH])
    p6g_batch(ctx)
    zero_cases(ctx)
    cli_flag(ctx)
    cli_batch(ctx)
    ctx.spec_viol = ctx.spec_viol[:40]


def replay_witness(ctx, entry):
    w = entry["witness"]
    if isinstance(w, dict) and "fn" in w:
        return core.run_named_witness(entry)
    impl, _, _ = run_impl(w["case"])
    return impl != w["expected"], {"impl": impl, "expected": w["expected"]}


def replay(ctx, payload):
    case = payload["case"]
    if "cli" in case and "source" in case:
        from fcv import dimcli_p5c as dc
        tree = dc.Tree()
        try:
            obs = observe_cli(tree, case)
        finally:
            tree.close()
        want = payload.get("spec")
        if want not in ("T", "F"):
            want = expected(case, case["meta"])
        bad = cli_problems(obs, want)
        print(f"replay: file-mode exit={obs['file']} dir-mode exit={obs['dir']} API verdict={obs['api']}; "
              f"the property demands {want} ({'exit 0' if want == 'T' else 'non-zero exit'}); deviating: {bad}")
        if bad:
            print(f"VIOLATION property=C17 replay={payload.get('_path', '<replay>')}")
            return 1
        return 0
    if "source" not in case:
        print("replay: not a comparator case:", str(case)[:300])
        return 1 if payload.get("kind") == "no-failing-input-found" else 0
    impl, dom0, tol = run_impl(case)
    print(f"replay: impl verdict={impl} first-domain-check={dom0}; the property demands {payload.get('spec')}")
    if ctx.driver_ok and tol is not None and case["noreorder"]:
        print("replay: Lean model:", ctx.lean([enc_case(case, tol)])[0])
    if impl != payload.get("spec") and not (payload.get("spec") == "F or exception" and impl != "T"):
        print(f"VIOLATION property=C17 replay={payload.get('_path', '<replay>')}")
        return 1
    return 0
