"""C09 — integer and string data are compared exactly, whatever tolerances are set.

Correspondence: DefaultEquality / ExactEquality vs `Fc.defaultCheck` / `Fc.exactCheck`.
Search: implementation vs "shapes compatible ∧ every entry identical" for int/str data under every
tolerance setting; vs the fuzzy formula as soon as one side holds floats; CLI exit code with
-rtol/-atol on integer / string CSV columns."""
from __future__ import annotations
import io
import logging
import os
import shutil
import tempfile

import numpy as np

from fcv import predio
from corr import c01

INTS = {"i8": (-2 ** 7, 2 ** 7 - 1), "i16": (-2 ** 15, 2 ** 15 - 1), "i32": (-2 ** 31, 2 ** 31 - 1),
        "i64": (-2 ** 63, 2 ** 63 - 1), "u8": (0, 2 ** 8 - 1), "u16": (0, 2 ** 16 - 1), "u32": (0, 2 ** 32 - 1),
        "u64": (0, 2 ** 64 - 1)}
WORDS = ["", "a", "b", "rock", "Rock", "rock ", "1", "1.0", "01", "é", "x y", "nan"]

TOLS = [["dflt"], ["num", 0.0], ["num", 1e-3], ["num", 0.5], ["num", 1.0], ["num", 10.0], ["num", 1e300]]


def rand_int(rng, dt):
    lo, hi = INTS[dt]
    r = rng.random()
    if r < 0.15:
        return lo
    if r < 0.3:
        return hi
    if r < 0.4:
        return max(lo, min(hi, rng.choice([-1, 0, 1])))
    if r < 0.55:
        return max(lo, min(hi, 2 ** 53 + rng.choice([-1, 0, 1, 2])))
    if r < 0.65:
        return max(lo, min(hi, rng.choice([lo + 1, hi - 1])))
    return rng.randint(max(lo, -1000), min(hi, 1000))


def gen_case(rng):
    """returns (case, tags)"""
    n = rng.choice([1, 2, 3, 7, 20])
    k = rng.choice([1, 2])
    form = rng.choice(["n", "n", "nk", "n1"])
    shape = {"n": [n], "nk": [n, k], "n1": [n, 1]}[form]
    size = n * (k if form == "nk" else 1)
    family = rng.choice(["int-int", "int-int", "str-str", "int-f64", "f64-f64", "exact-f64", "exact-int"])
    tags = [family, "shape-" + form]
    if family in ("int-int", "exact-int"):
        da = rng.choice(list(INTS))
        db = da if rng.random() < 0.5 else rng.choice(list(INTS))
        lo = max(INTS[da][0], INTS[db][0]); hi = min(INTS[da][1], INTS[db][1])
        a = [max(lo, min(hi, rand_int(rng, da))) for _ in range(size)]
        b = list(a)
        tags.append(f"{da}/{db}" if da != db else "same-int-type")
    elif family == "str-str":
        da = db = "str"
        a = [rng.choice(WORDS) for _ in range(size)]
        b = list(a)
    elif family == "int-f64":
        # integer array next to a float64 array (theorems C09_mixed_*): every width incl. 64 bit, values at the type
        # limits and around +-2^53 (where the conversion starts to round); the type minimum of signed types is left out
        # (hypothesis `arrNoMin`: numpy's integer abs wraps on it — finding F13, property C10)
        da, db = rng.choice(["i8", "i16", "i32", "i64", "i64", "u8", "u16", "u32", "u64"]), "f64"
        lo, hi = INTS[da]
        a = [max(lo + 1, min(hi, rng.choice([rng.randint(-1000, 1000), 2 ** 53 + rng.randint(-2, 2),
                                             -(2 ** 53) + rng.randint(-2, 2), hi, hi - 1, lo + 1, lo + 2])))
             for _ in range(size)]
        b = [float(x) for x in a]
    else:
        da = db = "f64"
        a = [c01.rand_float(rng, [-20, 0, 3, 40]) for _ in range(size)]
        b = list(a)
    # one differing entry
    pos = rng.choice(["none", "first", "middle", "last"])
    tags.append("diff-" + pos)
    if pos != "none" and size:
        i = {"first": 0, "middle": size // 2, "last": size - 1}[pos]
        if db == "str":
            b[i] = rng.choice([w for w in WORDS if w != a[i]])
        elif db == "f64" and da == "f64":
            b[i] = float(np.nextafter(b[i], np.inf)) if rng.random() < 0.5 else b[i] + abs(b[i]) * rng.choice([1e-9, 0.01]) + 1e-300
        elif db == "f64":
            b[i] = b[i] + rng.choice([0.25, 1.0, -1.0, 1e-3 * abs(b[i]) + 0.5])
        else:
            lo, hi = INTS[db]
            delta = rng.choice([1, -1, 1, 2, 256, 2 ** 32])
            nb = b[i] + delta
            if not (lo <= nb <= hi):
                nb = b[i] - delta
            if not (lo <= nb <= hi):
                nb = b[i] + (1 if b[i] < hi else -1)
            b[i] = nb
    sb = list(shape)
    if form == "n" and rng.random() < 0.1:
        sb = [n, 1]; tags.append("mix-n-n1")
    elif rng.random() < 0.06 and size > 1 and form == "nk" and k > 1:
        sb = [size]; tags.append("shape-mismatch")
    kind = "exact" if family.startswith("exact") else "default"
    rel, abs_ = rng.choice(TOLS), rng.choice([t for t in TOLS if t[0] != "dflt"] + [["dflt"]])
    if rng.random() < 0.1 and kind == "default":
        abs_ = ["scaled", rng.choice([1e-3, 1.0])]; tags.append("abs-scaled")
    A = {"dt": da, "shape": shape, "v": a}
    B = {"dt": db, "shape": sb, "v": b}
    if rng.random() < 0.5:
        A, B = B, A
    tags.append("tol=" + str(rel[-1] if rel[0] == "num" else rel[0]))
    return {"kind": kind, "rel": rel, "abs": abs_, "a": A, "b": B}, tags


def spec_of(c):
    """what C09 demands: 'T'/'F' or None when the statement does not speak (error cases)"""
    a, b = c["a"], c["b"]
    fl = a["dt"] == "f64" or b["dt"] == "f64"
    if c["kind"] == "exact" or not fl:
        if not predio.shapes_compatible(a["shape"], b["shape"]):
            return "F"
        return "T" if list(a["v"]) == list(b["v"]) else "F"
    fa = dict(a, dt="f64", v=[float(x) for x in a["v"]])
    fb = dict(b, dt="f64", v=[float(x) for x in b["v"]])
    o = predio.oracle_fuzzy_f64(c["rel"], c["abs"], fa, fb)
    return o if o in ("T", "F") else None


def evaluate(ctx, cases, tagsl):
    lines = [predio.enc_pred(c["kind"], c["rel"], c["abs"], c["a"], c["b"]) for c in cases]
    replies = ctx.lean(lines) if ctx.driver_ok else [None] * len(cases)
    for c, tags, rep in zip(cases, tagsl, replies):
        impl = predio.run_impl(c["kind"], c["rel"], c["abs"], c["a"], c["b"])
        spec = spec_of(c)
        hk = ["hk-" + rep["hk"]] if rep is not None and rep.get("hyp") == "1" and "hk" in rep else []
        ctx.case((c["kind"], c["rel"], c["abs"], c["a"], c["b"]), nontrivial=(c["a"]["v"] != c["b"]["v"] or c["a"]["shape"] != c["b"]["shape"]),
                 tags=list(tags) + ["verdict-" + impl] + hk, sample={"case": c, "impl": impl, "spec": spec, "lean": rep})
        if rep is not None and rep.get("hyp") == "1":
            if rep["model"] != impl:
                ctx.mismatch(c, impl, rep["model"])
            if rep["spec"] != rep["model"]:
                ctx.inconsistent(c, rep["model"], rep["spec"])
        elif rep is not None and "hyp" not in rep:
            ctx.inconsistent(c, str(rep), "bad-op")
        if spec is not None and impl != spec:
            ctx.violation(c, impl, spec, what="DefaultEquality/ExactEquality verdict differs from C09's statement")


# ---------------------------------------------------------------- CLI level

def cli_cases(ctx, n):
    """integer/string CSV columns with -rtol/-atol: tolerances must not relax them"""
    from fcv.cli import run_cli
    rng = ctx.rng
    d = tempfile.mkdtemp(prefix="fcv_c09_")
    try:
        for k in range(n):
            rows = rng.randint(1, 6)
            ids = [rng.randint(-50, 50) for _ in range(rows)]
            names = [rng.choice(["a", "b", "rock", "sand"]) for _ in range(rows)]
            vals = [round(rng.uniform(-5, 5), 3) for _ in range(rows)]
            ids2, names2 = list(ids), list(names)
            what = rng.choice(["same", "int", "str"])
            i = rng.randrange(rows)
            if what == "int":
                ids2[i] += rng.choice([1, -1, 2])
            elif what == "str":
                names2[i] = names2[i] + "x"

            def write(path, I, N):
                with open(path, "w") as fh:
                    fh.write("id,name,val\n")
                    for r in range(rows):
                        fh.write(f"{I[r]},{N[r]},{vals[r]}\n")
            pa, pb = os.path.join(d, f"a{k}.csv"), os.path.join(d, f"b{k}.csv")
            write(pa, ids, names); write(pb, ids2, names2)
            tol = rng.choice([["-rtol", "1e300"], ["-atol", "1e300"], ["-rtol", "0.9", "-atol", "100"],
                              ["-atol", "id:1e10"], ["-rtol", "id:10", "-rtol", "name:10"], []])
            argv = ["file", pa, pb] + tol
            code, _log = run_cli(argv)
            expect_zero = what == "same"
            case = {"kind": "cli", "argv": tol, "ids": ids, "ids2": ids2, "names": names, "names2": names2, "vals": vals}
            ctx.case(("cli", tuple(tol), tuple(ids), tuple(ids2), tuple(names), tuple(names2)), nontrivial=(what != "same"),
                     tags=["cli", "cli-" + what], sample=None)
            if (code == 0) != expect_zero:
                ctx.violation(case, f"exit={code}", "exit 0" if expect_zero else "non-zero exit",
                              what="CLI exit code on integer/string columns under user tolerances")
    finally:
        shutil.rmtree(d, ignore_errors=True)


def float_collision_cases(rng):
    """directed: two DIFFERENT integers that convert to the same float64 (|v| >= 2^53, difference 1 or 2), stored in
    every pair of integer dtypes that can hold them — in particular int64 next to uint64, which numpy would promote to
    float64: they must compare unequal under every predicate and tolerance"""
    cases, tagsl = [], []
    wide = ["i64", "u64"]
    for da in wide:
        for db in wide:
            for v in (2 ** 53, 2 ** 53 + 1, 2 ** 60 + 1, 2 ** 62 + 3, 2 ** 63 - 2):
                for delta in (1, -1, 2):
                    w = v + delta
                    if not (INTS[da][0] <= v <= INTS[da][1] and INTS[db][0] <= w <= INTS[db][1]):
                        continue
                    if float(v) != float(w):
                        continue
                    n = rng.choice([1, 2, 3])
                    i = rng.randrange(n)
                    a = [rng.randint(0, 100) for _ in range(n)]
                    b = list(a)
                    a[i], b[i] = v, w
                    kind = rng.choice(["default", "default", "exact"])
                    rel = rng.choice(TOLS)
                    abs_ = rng.choice([t for t in TOLS if t[0] != "dflt"])
                    cases.append({"kind": kind, "rel": rel, "abs": abs_, "a": {"dt": da, "shape": [n], "v": a},
                                  "b": {"dt": db, "shape": [n], "v": b}})
                    tagsl.append(["int-int", "float64-collision", f"{da}/{db}"])
    return cases, tagsl


# ---------------------------------------------------------------- mesh route

MESH_WHAT = ("integer field on the mesh route (MeshFieldsComparator: sorting / space-dimension matching with zero padding): "
             "the reported verdict differs from 'equal iff every entry identical' under user tolerances")


def mesh_route(ctx, rounds):
    """integer scalar / vector / tensor point and cell fields of all eight dtypes on small meshes, compared by
    `MeshFieldsComparator` under EVERY combination of its three switches, source / reference in 2d or zero-padded 3d form
    (both roles; equal dimensions too), stored order permuted or not, large user tolerances, 0 / 1 / several fields
    differing in ONE integer entry.  Whenever the comparator compares the fields (its domain check passes) C09 demands:
    a field with a differing entry is not reported as passed, a field with identical entries is.  Expected verdicts
    come from the Lean model `Fc.defaultCheck` on the arrays in logical order, the lower-dimensional side zero-padded
    (documented space-dimension matching); hyp: theorem C09_int_str_exact (all tolerances)."""
    from fcv import meshint_p5a as mi
    items = mi.enumerate_cases(ctx.rng, rounds)
    lines, owner = [], []
    for i, (c, _) in enumerate(items):
        for ln in mi.model_lines(c):
            lines.append(ln); owner.append(i)
    reps = ctx.lean(lines) if ctx.driver_ok else [None] * len(lines)
    per = [[] for _ in items]
    for i, r in zip(owner, reps):
        per[i].append(r)
    for (c, tags), rs in zip(items, per):
        r = mi.run_api(c)
        spec = mi.spec_verdicts(c)
        key = ("mesh-int", c["dt"], str(c["dims"]), str(c["switches"]), str(c["rel"]), str(c["abs"]),
               repr(c["source"]), repr(c["reference"]))
        if "raised" in r:
            ctx.case(key, nontrivial=False, tags=list(tags) + ["mesh-raised"])
            ctx.violation(dict(c, result=r), r["raised"], "a comparison suite", what="MeshFieldsComparator raised on integer fields")
            continue
        ctx.case(key, nontrivial=bool(c["changed"]), tags=list(tags) + ["mesh-domain-" + ("equal" if r["domain"] else "unequal")],
                 sample={"dt": c["dt"], "dims": c["dims"], "switches": c["switches"], "rel": c["rel"], "abs": c["abs"],
                         "changed": c["changed"], "result": r})
        if not r["domain"]:
            # the comparator did not compare any field (differing space dimension with matching disabled, permuted
            # storage with reordering disabled): nothing was reported equal
            if any(st == "passed" for st in r["status"].values()):
                ctx.violation(dict(c, result=r), "fields passed", "no comparison", what="fields reported although the domains differ")
            continue
        for (name, v), rep in zip(spec.items(), rs):
            st = r["status"].get(name)
            impl = "T" if st == "passed" else ("F" if st == "failed" else "E:" + str(st))
            if rep is not None:
                if "model" not in rep:
                    ctx.inconsistent(dict(c, field=name), str(rep), "bad-op")
                elif rep.get("hyp") == "1":
                    if rep["model"] != impl:
                        ctx.mismatch(dict(c, field=name, status=st), impl, rep["model"],
                                     what="mesh route: reported field status vs model verdict on the (padded) integer arrays")
                    if rep["spec"] != rep["model"]:
                        ctx.inconsistent(dict(c, field=name), rep["model"], rep["spec"])
                    if rep["spec"] != v:
                        ctx.inconsistent(dict(c, field=name), "lean-spec=" + rep["spec"], "python-spec=" + v)
            if impl != v:
                ctx.violation(dict(c, field=name, status=st, result=r), f"{name}: {st}",
                              "passed" if v == "T" else "failed (exact comparison)", what=MESH_WHAT)


def mesh_cli_route(ctx, rounds):
    """the same through `fieldcompare file`: 2d `.xdmf` (meshio) next to zero-padded 3d `.vtu`, both roles, all integer
    dtypes, large general / per-field -rtol / -atol: exit 0 iff no integer entry differs"""
    from fcv import meshint_p5a as mi
    if not mi.have_xdmf():
        ctx.notes.append("mesh CLI route skipped: meshio / h5py not importable")
        return
    d = tempfile.mkdtemp(prefix="fcv_c09m_")
    try:
        for i, (c, tags) in enumerate(mi.enumerate_cli_cases(ctx.rng, rounds)):
            r = mi.run_cli_case(c, os.path.join(d, f"c{i}"))
            shutil.rmtree(os.path.join(d, f"c{i}"), ignore_errors=True)
            key = ("mesh-int-cli", c["dt"], str(c["dims"]), str(mi.cli_options(c)), repr(c["source"]), repr(c["reference"]))
            if not r["readok"]:
                ctx.case(key, nontrivial=False, tags=list(tags) + ["mesh-cli-discarded-reader-sidecheck"])
                continue
            ctx.case(key, nontrivial=bool(c["changed"]), tags=list(tags) + ["mesh-cli-exit-" + r["out"]], sample=None)
            payload = dict(c, argv_options=mi.cli_options(c), result=r)
            if c["changed"] and r["out"] == "0":
                ctx.violation(payload, "exit=0", "non-zero exit", what="CLI mesh route: a differing integer entry "
                              "compared equal under user tolerances")
            elif not c["changed"] and r["out"] != "0":
                if r["failed_fields"]:
                    ctx.violation(payload, "exit=" + r["out"], "exit 0", what="CLI mesh route: identical integer fields "
                                  "reported unequal: " + ", ".join(r["failed_fields"]))
                else:
                    ctx.dist["mesh-cli-nonzero-without-field-failure"] += 1
    finally:
        shutil.rmtree(d, ignore_errors=True)


# ---------------------------------------------------------------- phase 6 G1: dimensions of the quantifier sampled at one point only
P6G_OFF = os.environ.get("FCV_P6G_OFF") == "1"      # mutation experiments only: run the check WITHOUT the phase-6-G1 batches

LONG_QUICK = [0, 1001, 65537]
LONG_THOROUGH = LONG_QUICK + [1000, 100003, 4097, 16385, 65536, 131073, 262145, 1000003]
LONG_FAMILIES = [("i32", "i32"), ("u8", "u8"), ("i64", "i64"), ("u64", "u64"), ("i8", "i64"), ("u16", "i32"), ("str", "str"),
                 ("i32", "f64"), ("f64", "f64")]


def _long_pair(c):
    """literal description -> (A, B): a = the pattern repeated over n rows of k entries, b = a (converted to b's type) with
    at most ONE entry replaced"""
    n, k, pat = c["n"], c["k"], c["pattern"]
    size = n * k
    a = (pat * (size // len(pat) + 1))[:size]
    b = [float(x) for x in a] if c["dt_b"] == "f64" and c["dt_a"] != "f64" else list(a)
    if c["dev_index"] is not None:
        b[c["dev_index"]] = c["dev_value"]
    shape = [n] if k == 1 else [n, k]
    A, B = {"dt": c["dt_a"], "shape": shape, "v": a}, {"dt": c["dt_b"], "shape": list(shape), "v": b}
    return (B, A) if c["swap"] else (A, B)


def _long_spec(c):
    """what C09 demands for a long pair: identical entries everywhere except (possibly) one"""
    if c["dev_index"] is None:
        return "T"
    i, pat = c["dev_index"], c["pattern"]
    x, y = pat[i % len(pat)], c["dev_value"]
    if c["pred"] == "exact" or "f64" not in (c["dt_a"], c["dt_b"]):
        return "T" if x == y else "F"
    rel = 2.0 ** -52 if c["rel"][0] == "dflt" else float(c["rel"][1])
    abs_ = 0.0 if c["abs"][0] == "dflt" else float(c["abs"][1])
    return "T" if predio.float_formula(float(x), float(y), rel, abs_) else "F"


def long_and_empty(ctx, sizes):
    """'all positions of a differing entry' on fields of realistic length (and on EMPTY fields): 0, 1000, 1001, 65537,
    100003 rows [thorough: up to 1000003], (n,) and (n,3); same / mixed integer types, strings, int next to float64,
    float64 under ExactEquality [quick: 0, 1001, 65537 rows]; the single differing entry in the first row / the last row / right after the largest
    power of two / nowhere; huge user tolerances.  Expectation: C09's statement at the one differing entry (all others are
    identical).  The Lean model is asked for n <= 1001 (driver cost grows with the length)."""
    rng = ctx.rng
    todo = []
    for n in sizes:
        for da, db in LONG_FAMILIES:
            k = rng.choice([1, 1, 3])
            size = n * k
            if da == "str":
                pat = [rng.choice(WORDS) for _ in range(7)]
            elif da == "f64":
                pat = [c01.rand_float(rng, [0, 3]) for _ in range(7)]
            else:
                lo = max(INTS[da][0], INTS[db][0] if db in INTS else -2 ** 53)
                hi = min(INTS[da][1], INTS[db][1] if db in INTS else 2 ** 53)
                pat = [max(lo, min(hi, rng.choice([rng.randint(-100, 100), hi, lo, 2 ** 31 + 5]))) for _ in range(7)]
                if db == "f64":
                    pat = [max(-2 ** 31 + 1, min(2 ** 31 - 1, x)) for x in pat]      # exactly convertible, no type minimum
            p2 = 1 << max((n - 1).bit_length() - 1, 0)
            rows = [None] if n == 0 else ([None, 0, n - 1] + ([p2] if 0 < p2 < n - 1 else []))
            if n > 1001 and ctx.tier == "quick":
                # the implementation locates the first differing row with a Python loop (~3 us per row): one late position per
                # family in the quick tier
                rows = [None, 0, rng.choice(rows[2:])]
            for row in rows:
                if row is None:
                    idx = dev = None
                else:
                    idx = row * k + rng.randrange(k)
                    x = pat[idx % 7]
                    if da == "str":
                        dev = rng.choice([w for w in WORDS if w != x])
                    elif da == "f64":
                        dev = float(np.nextafter(x, np.inf))
                    elif db == "f64":
                        dev = float(x) + rng.choice([0.5, 1.0, -1.0])
                    else:
                        lo, hi = INTS[db]
                        dev = x + 1 if x + 1 <= hi else x - 1
                # ExactEquality on an integer array next to a float64 array is left out: the statement does not say whether
                # 5 and 5.0 are "identical" (numpy says yes, the Lean model's typed `exactCheck` says no while the driver
                # reports hyp=1 for every `exact` line — noted in notes/PHASE6_G1.md as a gap of the machinery)
                pred = "exact" if da == "f64" else "default" if db == "f64" else rng.choice(["default", "default", "exact"])
                rel = rng.choice([["num", 1e300], ["num", 0.5], ["dflt"]]) if db != "f64" else rng.choice([["num", 1e-3], ["dflt"]])
                abs_ = rng.choice([["num", 1e300], ["num", 10.0], ["dflt"]]) if db != "f64" else ["num", rng.choice([0.0, 0.75])]
                todo.append({"kind": "long", "pred": pred, "dt_a": da, "dt_b": db, "n": n, "k": k, "pattern": pat, "dev_index": idx,
                             "dev_row": row, "dev_value": dev, "rel": rel, "abs": abs_, "swap": rng.random() < 0.5})
    lines, lidx = [], []
    for j, c in enumerate(todo):
        if c["n"] <= 1001 and c["dev_row"] in (None, c["n"] - 1):
            A, B = _long_pair(c)
            lines.append(predio.enc_pred(c["pred"], c["rel"], c["abs"], A, B)); lidx.append(j)
    reps = [None] * len(todo)
    if ctx.driver_ok and lines:
        for j, r in zip(lidx, ctx.lean(lines)):
            reps[j] = r
    cache = {}
    for c, rep in zip(todo, reps):
        # the ndarrays of the unmodified pair are built once per (length, family); the replay rebuilds from the literals
        key = (c["n"], c["k"], c["dt_a"], c["dt_b"])
        if key not in cache:
            cache.clear()
            A0, B0 = _long_pair(dict(c, dev_index=None, swap=False))
            cache[key] = (predio.np_array(A0), predio.np_array(B0))
        xa, xb = cache[key]
        if c["dev_index"] is not None:
            xb = xb.copy()
            if xb.dtype.kind == "U":
                xb = xb.astype(f"<U{max(xb.dtype.itemsize // 4, len(c['dev_value']), 1)}")
            xb.reshape(-1)[c["dev_index"]] = c["dev_value"]
        x, y = (xb, xa) if c["swap"] else (xa, xb)
        p = predio.make_pred(c["pred"], c["rel"], c["abs"])
        try:
            with np.errstate(all="ignore"):
                impl = "T" if bool(p(x, y)) else "F"
        except Exception as e:  # noqa: BLE001
            impl = "E" if type(e).__name__ == "PredicateError" else "X:" + type(e).__name__
        spec = _long_spec(c)
        where = "none" if c["dev_row"] is None else "first" if c["dev_row"] == 0 else "last" if c["dev_row"] == c["n"] - 1 else "after-pow2"
        ctx.case(("long", c["pred"], c["dt_a"], c["dt_b"], c["n"], c["k"], c["dev_index"], str(c["dev_value"]), str(c["rel"]), str(c["abs"]), c["swap"]),
                 nontrivial=c["dev_index"] is not None,
                 tags=["p6-long", f"long-n={c['n']}", "long-diff-" + where, f"long-{c['dt_a']}/{c['dt_b']}", "long-" + c["pred"],
                       "verdict-" + impl], sample=None)
        if rep is not None and rep.get("hyp") == "1":
            if rep["model"] != impl:
                ctx.mismatch(c, impl, rep["model"], what="long / empty field: impl vs model")
            if rep["spec"] != rep["model"]:
                ctx.inconsistent(c, rep["model"], rep["spec"])
            if rep["spec"] != spec:
                ctx.inconsistent(c, "lean-spec=" + rep["spec"], "python-spec=" + spec)
        elif rep is not None and "hyp" not in rep:
            ctx.inconsistent(c, str(rep), "bad-op")
        if impl != spec:
            ctx.violation(c, impl, spec, what=f"DefaultEquality/ExactEquality verdict differs from C09's statement: fields of {c['n']} rows, "
                                              f"differing entry in row {c['dev_row']}")


def gen_tolkind_case(rng):
    """integer / string fields of shapes (n,k), (n,k,k) under the tolerance kinds the plain generator never combines with
    them: per-component ndarrays, per-component scaled, scaled relative (default base) — 'whatever tolerances are set'"""
    n = rng.choice([0, 1, 2, 5])
    k = rng.choice([2, 3])
    entry = [k] if rng.random() < 0.6 else [k, k]
    rs = k if len(entry) == 1 else k * k
    shape = [n] + entry
    size = n * rs
    fam = rng.choice(["int", "int", "str"])
    if fam == "int":
        da = rng.choice(list(INTS)); db = da if rng.random() < 0.6 else rng.choice(list(INTS))
        lo = max(INTS[da][0], INTS[db][0]); hi = min(INTS[da][1], INTS[db][1])
        a = [max(lo, min(hi, rand_int(rng, da))) for _ in range(size)]
    else:
        da = db = "str"
        a = [rng.choice(WORDS) for _ in range(size)]
    b = list(a)
    tags = ["p6-tolkinds", "tolkind-" + fam, "entry-" + "x".join(map(str, entry)), f"n={n}"]
    if size and rng.random() < 0.7:
        i = rng.choice([0, size - 1, rng.randrange(size)])
        if fam == "str":
            b[i] = rng.choice([w for w in WORDS if w != a[i]])
        else:
            b[i] = a[i] + 1 if a[i] + 1 <= hi else a[i] - 1
        tags.append("diff-one")
    else:
        tags.append("diff-none")
    big = [1.0, 10.0, 1e300, 1e18]
    tk = rng.choice(["arr/arr", "num/arr", "arr/scomp", "scaled-rel/num", "num/scomp", "num/scaled"])
    rel = {"arr": ["arr", entry, [rng.choice(big) for _ in range(rs)]], "num": ["num", rng.choice(big)],
           "scaled-rel": ["scaled", None]}[tk.split("/")[0]]
    abs_ = {"arr": ["arr", entry, [rng.choice(big) for _ in range(rs)]], "num": ["num", rng.choice(big)],
            "scomp": ["scomp", rng.choice([1.0, 1e3])], "scaled": ["scaled", rng.choice([1.0, 1e3])]}[tk.split("/")[1]]
    tags.append("tolkind-" + tk)
    A, B = {"dt": da, "shape": shape, "v": a}, {"dt": db, "shape": list(shape), "v": b}
    if rng.random() < 0.5:
        A, B = B, A
    return {"kind": "default", "rel": rel, "abs": abs_, "a": A, "b": B}, tags


def gen_representation_case(rng):
    """the plain generator's cases with the SAME values handed over in another layout / container: Fortran order, strided /
    reversed / offset views, big-endian storage, read-only arrays (np.frombuffer in the file readers), Python lists / tuples"""
    while True:
        c, tags = gen_case(rng)
        changed = False
        for side in ("a", "b"):
            if rng.random() < 0.8:
                reps = [r for r in predio.REPS_ARRAY + predio.REPS_PY if predio.rep_applicable(c[side], r)]
                if reps:
                    r = rng.choice(reps)
                    c[side] = dict(c[side], rep=r); tags.append(f"rep-{side}-{r}"); changed = True
        if changed:
            return c, tags + ["p6-representation"]


def gen_python_sequence_case(rng):
    """directed: integer / string data handed over as plain Python lists / tuples (on one or both sides; the other side an
    int64 / str ndarray or also a sequence), ONE differing entry, large user tolerances — must stay exact"""
    n = rng.choice([1, 2, 5]); k = rng.choice([1, 1, 3])
    shape = [n] if k == 1 else [n, k]
    size = n * k
    if rng.random() < 0.7:
        dt = "i64"
        a = [rng.choice([rng.randint(-1000, 1000), 2 ** 53 + 1, -(2 ** 62), 7]) for _ in range(size)]
        b = list(a)
        i = rng.randrange(size)
        b[i] = a[i] + rng.choice([1, -1, 2])
    else:
        dt = "str"
        a = [rng.choice(WORDS) for _ in range(size)]
        b = list(a)
        i = rng.randrange(size)
        b[i] = rng.choice([w for w in WORDS if w != a[i]])
    tags = ["p6-representation", "p6-python-sequences", "seq-" + dt]
    if rng.random() < 0.25:
        b = list(a); tags.append("diff-none")
    ra, rb = rng.choice([("list", "list"), ("list", None), (None, "tuple"), ("tuple", "list")])
    A, B = {"dt": dt, "shape": shape, "v": a}, {"dt": dt, "shape": list(shape), "v": b}
    if ra:
        A["rep"] = ra
    if rb:
        B["rep"] = rb
    rel = rng.choice([["num", 0.5], ["num", 1e300], ["dflt"]])
    abs_ = rng.choice([["num", 10.0], ["num", 1e300]])
    return {"kind": "default", "rel": rel, "abs": abs_, "a": A, "b": B}, tags + [f"rep-a-{ra}", f"rep-b-{rb}"]


def reused_default(ctx, n):
    """ONE DefaultEquality object (as the CLI holds one per run) asked about a sequence of fields of alternating kinds —
    float, integer, string, int next to float — under large tolerances: every verdict is C09's statement for THAT field"""
    rng = ctx.rng
    for _ in range(n):
        rel = rng.choice([t for t in TOLS if t[0] != "dflt"] + [["dflt"]])
        abs_ = rng.choice([t for t in TOLS if t[0] != "dflt"])
        pred = predio.make_pred("default", rel, abs_)
        hist = []
        for use in range(rng.randint(3, 5)):
            while True:
                c, tags = gen_case(rng)
                if c["kind"] == "default":
                    break
            c = dict(c, rel=rel, abs=abs_)
            impl = predio.run_impl("default", rel, abs_, c["a"], c["b"], pred=pred)
            spec = spec_of(c)
            hist.append({"a": c["a"], "b": c["b"]})
            ctx.case(("reuse", use, str(rel), str(abs_), c["a"], c["b"]), nontrivial=(c["a"]["v"] != c["b"]["v"]),
                     tags=["p6-reused-default", f"use-{use}", "reuse-" + tags[0], "verdict-" + impl], sample=None)
            if spec is not None and impl != spec:
                ctx.violation(dict(c, history=list(hist)), impl, spec,
                              what="verdict of a REUSED DefaultEquality object differs from C09's statement (field number %d "
                                   "asked of the same object)" % use)
                break


def int_vs_small_float(ctx, n):
    """integer field next to a float32 / float16 field ('at least one side holds floating-point values' -> fuzzy formula).
    Values are small integers and halves (|v| <= 100), exactly representable in every format involved, and tolerances are
    far from every threshold, so the documented formula has the same value in every arithmetic: identical values pass
    under zero tolerances, a difference of 0.5 / 1 fails under abs 0.25 and PASSES under abs 2 (fuzzy, not exact).
    Expectation computed in Python from the formula (search; the Lean model has no int x float32 case)."""
    rng = ctx.rng
    for _ in range(n):
        di = rng.choice(list(INTS)); df = rng.choice(["f32", "f32", "f16"])
        lo = max(INTS[di][0], -100)
        nrow = rng.choice([1, 2, 5]); k = rng.choice([1, 3])
        shape = [nrow] if k == 1 else [nrow, k]
        a = [rng.randint(lo, 100) for _ in range(nrow * k)]
        b = [float(x) for x in a]
        diff = rng.choice([0.0, 0.5, 1.0, -1.0])
        i = rng.randrange(len(a))
        b[i] += diff
        rel = rng.choice([["num", 0.0], ["dflt"]])
        abs_ = ["num", rng.choice([0.0, 0.25, 2.0])]
        want = "T" if abs(diff) <= abs_[1] else "F"          # rel * max|.| <= 2^-10 * 101 < 0.25: never decides
        A, B = {"dt": di, "shape": shape, "v": a}, {"dt": df, "shape": list(shape), "v": b}
        if rng.random() < 0.5:
            A, B = B, A
        c = {"kind": "default", "rel": rel, "abs": abs_, "a": A, "b": B, "int_vs_small_float": True}
        impl = predio.run_impl("default", rel, abs_, A, B)
        ctx.case(("int-smallfloat", str(rel), str(abs_), A, B), nontrivial=diff != 0.0,
                 tags=["p6-int-vs-small-float", f"{di}/{df}", "isf-diff-%g" % abs(diff), "isf-abs-%g" % abs_[1], "verdict-" + impl], sample=None)
        if impl != want:
            ctx.violation(c, impl, want, what="integer field next to a float32/float16 field: verdict differs from the fuzzy formula "
                                              "(values exactly representable, tolerance far from the threshold)")


def run(ctx):
    ctx.rule = ("cases = (predicate kind, tolerances, a, b) over int8..uint64 (same and mixed types, type extremes, "
                "±1 around 2^53), unicode strings, int×float64, float64; one differing entry at none/first/middle/last; "
                "tolerances default/0/1e-3/…/1e300/scaled; plus CLI runs on CSV files with integer and string columns under "
                "-rtol/-atol; plus the mesh route: integer scalar/vector/tensor point and cell fields (all 8 dtypes) through "
                "MeshFieldsComparator under every switch combination, 2d vs zero-padded 3d (both roles) and equal dimensions, "
                "permuted storage, large tolerances, single differing entries, and through the CLI (.xdmf 2d vs .vtu 3d); "
                "non-trivial = operands differ; distinct = distinct (kind, tolerances, a, b) resp. (options, meshes)")
    ctx.assumptions += ["numpy >= 2 compares mixed-width integers exactly (sampled)",
                        "CSV reader types integer / string columns as such (sampled by the CLI cases)",
                        "mesh route: the comparator aligns relabelled meshes (C02/C03) and zero-pads vector / tensor fields of "
                        "the lower-dimensional side (documented space-dimension matching) before the predicate sees them; "
                        ".xdmf / .vtu files read back to the integer data they were written from (side-check on every file)"]
    rng = ctx.rng
    n = ctx.scale(4000, 250000)
    cases, tagsl = [], []
    for _ in range(n):
        c, t = gen_case(rng)
        cases.append(c); tagsl.append(t)
    dc, dt = float_collision_cases(rng)
    cases += dc; tagsl += dt
    if not P6G_OFF:
        for gen, m in ((gen_tolkind_case, ctx.scale(400, 20000)), (gen_representation_case, ctx.scale(600, 30000)),
                       (gen_python_sequence_case, ctx.scale(120, 6000))):
            for _ in range(m):
                c, t = gen(rng)
                cases.append(c); tagsl.append(t)
    for i in range(0, len(cases), 5000):
        evaluate(ctx, cases[i:i + 5000], tagsl[i:i + 5000])
    if not P6G_OFF:
        long_and_empty(ctx, LONG_QUICK if ctx.tier == "quick" else LONG_THOROUGH)
        reused_default(ctx, ctx.scale(80, 4000))
        int_vs_small_float(ctx, ctx.scale(300, 15000))
    cli_cases(ctx, ctx.scale(60, 2000))
    mesh_route(ctx, ctx.scale(3, 60))
    mesh_cli_route(ctx, ctx.scale(3, 40))


def replay_witness(ctx, entry):
    from fcv import core
    return core.run_named_witness(entry)


def replay(ctx, payload):
    c = payload["case"]
    if c.get("kind") == "mesh-int":
        from fcv import meshint_p5a as mi
        r, spec = mi.run_api(c), mi.spec_verdicts(c)
        print(f"replay: MeshFieldsComparator {c['switches']} dims={c['dims']} rel={c['rel']} abs={c['abs']} -> {r}; "
              f"demanded (domain equal): {spec}")
        bad = "raised" in r or (r["domain"] and any((r["status"].get(n) == "passed") != (v == "T") for n, v in spec.items()))
        if bad:
            print("VIOLATION property=C09 replay=<replayed>")
            return 1
        return 0
    if c.get("kind") == "mesh-int-cli":
        from fcv import meshint_p5a as mi
        d = tempfile.mkdtemp(prefix="fcv_c09m_")
        try:
            r = mi.run_cli_case(c, d)
        finally:
            shutil.rmtree(d, ignore_errors=True)
        print(f"replay: fieldcompare file <source> <reference> {' '.join(mi.cli_options(c))} -> {r}; changed entries: {c['changed']}")
        if (c["changed"] and r["out"] == "0") or (not c["changed"] and r["out"] != "0" and r["failed_fields"]):
            print("VIOLATION property=C09 replay=<replayed>")
            return 1
        return 0
    if c.get("kind") == "long":
        A, B = _long_pair(c)
        impl, spec = predio.run_impl(c["pred"], c["rel"], c["abs"], A, B), _long_spec(c)
        print(f"replay long field n={c['n']} k={c['k']} {c['dt_a']}/{c['dt_b']} differing row {c['dev_row']}: impl={impl} demanded={spec}")
        if impl != spec:
            print("VIOLATION property=C09 replay=<replayed>")
            return 1
        return 0
    if c.get("int_vs_small_float"):
        impl = predio.run_impl("default", c["rel"], c["abs"], c["a"], c["b"])
        d = max(abs(float(x) - float(y)) for x, y in zip(c["a"]["v"], c["b"]["v"]))
        want = "T" if d <= c["abs"][1] else "F"
        print(f"replay int vs small float: impl={impl} demanded={want}")
        if impl != want:
            print("VIOLATION property=C09 replay=<replayed>")
            return 1
        return 0
    if "history" in c:
        pred = predio.make_pred("default", c["rel"], c["abs"])
        impl = None
        for h in c["history"]:
            impl = predio.run_impl("default", c["rel"], c["abs"], h["a"], h["b"], pred=pred)
        spec = spec_of(c)
        print(f"replay (reused DefaultEquality, {len(c['history'])} fields): impl={impl} demanded={spec}")
        if spec is not None and impl != spec:
            print("VIOLATION property=C09 replay=<replayed>")
            return 1
        return 0
    if c.get("kind") == "cli":
        print("replay of CLI cases: re-run the check (files are regenerated from the literal columns)")
        return 2
    impl = predio.run_impl(c["kind"], c["rel"], c["abs"], c["a"], c["b"])
    spec = spec_of(c)
    print(f"replay: impl={impl} spec={spec}")
    if spec is not None and impl != spec:
        print("VIOLATION property=C09 replay=<replayed>")
        return 1
    return 0
