"""C14 — diff output is reference minus source on matching entities.

Correspondence (implementation vs the Lean model `Fc.meshDiffTo`, `Fc.tableDiffTo`, `Fc.subArr`):
  * array level: `a - b` for every pair of numeric dtypes (promotion, rounding, wrap-around, overflow),
  * `src.diff_to(ref)` on MeshFields / TransformedMeshFields (meshgen meshes, overlapping field sets, one-sided
    fields, several cell types, integer / float32 / float64 mixes) and on TabularFields (different row counts),
  * the file written by `fieldcompare file a b --diff`, read back.
Search (implementation vs what the property demands, independent of the model):
  * a Python oracle (exact rationals, one rounding) for float64 results; key set = union; one-sided = all NaN float64
    of the field's shape; the diff lives on the reference's domain,
  * sign: swapping the roles negates every entry,
  * CLI: pairing by *geometric content* (coordinates / corner coordinates), independent of any ordering; for
    `b = relabel(a)` every common field of the written diff is exactly zero,
  * CSV diff files additionally through an independent minimal CSV decoder.
"""
from __future__ import annotations
import contextlib
import copy
import io
import math
import os
import shutil
import tempfile
import warnings
from fractions import Fraction

import numpy as np

from fcv import meshgen, predio
from fcv.num import f2u, u2f, rn64, next_up
from fcv.predio import NP_DT

FLOATS = ("f64", "f32", "f16")
INT_RANGE = {"i8": (-2 ** 7, 2 ** 7 - 1), "i16": (-2 ** 15, 2 ** 15 - 1), "i32": (-2 ** 31, 2 ** 31 - 1),
             "i64": (-2 ** 63, 2 ** 63 - 1), "u8": (0, 2 ** 8 - 1), "u16": (0, 2 ** 16 - 1), "u32": (0, 2 ** 32 - 1),
             "u64": (0, 2 ** 64 - 1)}
ALL_DT = ("f64", "f32", "f16", "i8", "i16", "i32", "i64", "u8", "u16", "u32", "u64")
MESH_DT = ("f64", "f64", "f64", "f32", "f32", "i32", "i64", "i16", "u8", "f16")


# ---------------------------------------------------------------- canonical observables

def cval(x, is_float: bool) -> str:
    if is_float:
        x = float(x)
        if math.isnan(x):
            return "n"
        if math.isinf(x):
            return "+i" if x > 0 else "-i"
        return str(f2u(x))
    return str(int(x))


def canon_arr(arr: np.ndarray) -> str:
    dt = meshgen._np_dt_name(arr)
    flt = dt in FLOATS
    vals = [cval(x, flt) for x in arr.flatten().tolist()] if dt != "f16" else \
        [cval(float(x), True) for x in arr.flatten()]
    return f"{dt}|{','.join(str(d) for d in arr.shape)}|{','.join(vals)}"


def canon_entries(entries) -> str:
    return ";".join(sorted(entries))


def show_val(v: str, is_float=True) -> str:
    """canonical value -> readable text for complaints"""
    if v in ("n", "+i", "-i"):
        return {"n": "nan", "+i": "inf", "-i": "-inf"}[v]
    try:
        return repr(u2f(int(v))) if is_float else v
    except (ValueError, OverflowError):
        return v


def show_arr(canon: str, limit=6) -> str:
    dt, shape, vals = canon.split("|")
    vs = [show_val(v, dt in FLOATS) for v in vals.split(",")[:limit] if v != ""]
    return f"{dt}[{shape}]({', '.join(vs)}{', …' if vals.count(',') >= limit else ''})"


def has_nonzero(out: str) -> bool:
    """does a canonical entry list hold at least one finite non-zero value?"""
    return any(v not in ("0", "n", "") for e in out.split(";") if "|" in e for v in e.rsplit("|", 1)[1].split(","))


def well_separated(lm, margin=1e-5) -> bool:
    """every coordinate column: distinct values are further apart than margin*max|coordinate| (far outside the
    mesh tolerance 1e-8*max|coordinate|), so that fuzzy sorting is canonical (hypothesis of C02)"""
    maxc = max([abs(c) for p in lm["points"] for c in p] + [0.0])
    for k in range(lm["dim"]):
        col = sorted({p[k] for p in lm["points"]})
        if any(b - a <= margin * maxc for a, b in zip(col, col[1:])):
            return False
    return True


def _quiet():
    stack = contextlib.ExitStack()
    w = warnings.catch_warnings()
    stack.enter_context(w)
    warnings.simplefilter("ignore")
    stack.enter_context(np.errstate(all="ignore"))
    return stack


# ---------------------------------------------------------------- value generators

def rand_vals(rng, dt, n, flavour="plain"):
    """python floats / ints representable in dtype `dt`"""
    if dt in INT_RANGE:
        lo, hi = INT_RANGE[dt]
        out = []
        for _ in range(n):
            r = rng.random()
            if flavour == "extreme" and r < 0.4:
                out.append(rng.choice([lo, hi, lo + 1, hi - 1, 0]))
            elif r < 0.7:
                out.append(rng.randint(max(lo, -100), min(hi, 100)))
            else:
                out.append(rng.randint(lo, hi))
        return out
    npdt = NP_DT[dt]
    fmax = float(np.finfo(npdt).max)
    tiny = float(np.finfo(npdt).smallest_subnormal)
    out = []
    base = rng.choice([1.0, 1.0, 1e-3, 250.0]) if dt != "f16" else 1.0
    for i in range(n):
        r = rng.random()
        if flavour == "extreme" and r < 0.35:
            x = rng.choice([fmax, -fmax, fmax / 2, tiny, -tiny, 0.0, -0.0, tiny * 3])
        elif r < 0.5:
            x = base * (1 + 0.25 * i)
        else:
            x = base * rng.uniform(-4, 4)
        with np.errstate(all="ignore"):
            x = float(npdt(x))
        if not math.isfinite(x):
            x = fmax
        out.append(x)
    return out


def cast_vals(vals, dt_from, dt_to):
    """values of one dtype carried over to another one (clipped / rounded), finite"""
    out = []
    for x in vals:
        if dt_to in INT_RANGE:
            lo, hi = INT_RANGE[dt_to]
            xi = int(round(x)) if dt_from in FLOATS and abs(x) < 1e18 else (0 if dt_from in FLOATS else int(x))
            out.append(max(lo, min(hi, xi)))
        else:
            npdt = NP_DT[dt_to]
            with np.errstate(all="ignore"):
                y = float(npdt(float(x)))
            if not math.isfinite(y):
                y = float(np.finfo(npdt).max) * (1 if x > 0 else -1)
            out.append(y)
    return out


def perturb(rng, vals, dt):
    vals = list(vals)
    if not vals:
        return vals
    mode = rng.choice(["none", "one", "some", "all", "ulp"])
    idxs = {"none": [], "one": [rng.randrange(len(vals))], "some": [i for i in range(len(vals)) if rng.random() < 0.4],
            "all": list(range(len(vals))), "ulp": [i for i in range(len(vals)) if rng.random() < 0.5]}[mode]
    for i in idxs:
        if dt in INT_RANGE:
            lo, hi = INT_RANGE[dt]
            vals[i] = max(lo, min(hi, vals[i] + rng.choice([-3, -1, 1, 2, 1000, -70000])))
        elif mode == "ulp" and dt == "f64":
            y = next_up(vals[i], rng.randint(1, 3))
            vals[i] = y if math.isfinite(y) else vals[i]
        else:
            with np.errstate(all="ignore"):
                y = float(NP_DT[dt](vals[i] * rng.choice([1.0 + 1e-3, 0.5, -1.0, 1.0 + 2.0 ** -20]) + rng.choice([0.0, 0.125, -7.0])))
            vals[i] = y if math.isfinite(y) else vals[i]
    return vals


# ---------------------------------------------------------------- (1) array level

def gen_sub_case(rng):
    d1, d2 = rng.choice(ALL_DT), rng.choice(ALL_DT)
    shape = rng.choice([[0], [1], [3], [5], [2, 2], [2, 3], [1, 3, 3]])
    n = int(np.prod(shape))
    fl = rng.choice(["plain", "extreme"])
    v1 = rand_vals(rng, d1, n, fl)
    r = rng.random()
    if r < 0.3:
        v2 = cast_vals(v1, d1, d2)          # (nearly) the same values: differences 0 / tiny
    else:
        v2 = rand_vals(rng, d2, n, fl)
    return {"kind": "sub", "a": {"dt": d1, "shape": shape, "v": v1}, "b": {"dt": d2, "shape": shape, "v": v2}}


def impl_sub(c):
    with _quiet():
        r = predio.np_array(c["a"]) - predio.np_array(c["b"])
    return canon_arr(r)


# ---------------------------------------------------------------- (2) mesh diff

def _mk_field_vals(rng, dt, count, flavour):
    return rand_vals(rng, dt, count, flavour)


def regen_fields(rng, lm, dtypes=MESH_DT):
    """replace meshgen's fields by fields over the wider dtype list (values inside each dtype's range)"""
    npnt = len(lm["points"])
    d = lm["dim"]
    lm["pf"], lm["cf"] = [], []
    for k in range(rng.randint(0, 3)):
        dt = rng.choice(dtypes)
        tail = rng.choice([[], [], [d], [3], [d, d], [1]])
        fl = "extreme" if rng.random() < 0.15 else "plain"
        lm["pf"].append({"name": rng.choice([f"p{k}", f"p {k}", f"c{k}"]), "dt": dt, "tail": tail,
                         "v": rand_vals(rng, dt, npnt * meshgen._rowsize(tail), fl)})
    for k in range(rng.randint(0, 2)):
        dt = rng.choice(dtypes)
        tail = rng.choice([[], [], [d], [d, d]])
        fl = "extreme" if rng.random() < 0.15 else "plain"
        name = rng.choice([f"c{k}", f"c{k} @ x", f"p{k}"])
        for t, rows in lm["cells"]:
            lm["cf"].append({"name": name, "ctype": t, "dt": dt, "tail": tail,
                             "v": rand_vals(rng, dt, len(rows) * meshgen._rowsize(tail), fl)})
    return lm


def vary_fields(rng, ref, src, dtypes=MESH_DT, allow_shape_change=False):
    """src := ref with perturbed values / changed dtypes / dropped and extra fields (in place on src);
    returns tags"""
    tags = set()
    npnt = len(src["points"])
    ncell = {t: len(rows) for t, rows in src["cells"]}

    def vary(f, count):
        r = rng.random()
        if r < 0.55:
            f["v"] = perturb(rng, f["v"], f["dt"]); tags.add("values-perturbed")
        elif r < 0.75:
            new = rng.choice(dtypes)
            f["v"] = perturb(rng, cast_vals(f["v"], f["dt"], new), new)
            if new != f["dt"]:
                tags.add("dtype-mix")
            f["dt"] = new
        else:
            tags.add("values-identical")

    # point fields
    keep = []
    for f in src["pf"]:
        r = rng.random()
        if r < 0.2:
            tags.add("ref-only-point"); continue
        vary(f, npnt)
        if allow_shape_change and rng.random() < 0.5 and f["tail"] in ([], [1]):
            f["tail"] = [1] if f["tail"] == [] else []
            tags.add("shape-change")
        keep.append(f)
    src["pf"] = keep
    if rng.random() < 0.35:
        dt = rng.choice(dtypes)
        tail = rng.choice([[], [2]])
        src["pf"].append({"name": "s_only", "dt": dt, "tail": tail, "v": rand_vals(rng, dt, npnt * meshgen._rowsize(tail))})
        tags.add("src-only-point")
    if rng.random() < 0.3:
        rng.shuffle(src["pf"]); tags.add("field-order-shuffled")
    # cell fields: per name (MeshFields needs a field on every type)
    names = []
    for f in src["cf"]:
        if f["name"] not in names:
            names.append(f["name"])
    keepc = []
    for name in names:
        fs = [f for f in src["cf"] if f["name"] == name]
        r = rng.random()
        if r < 0.2:
            tags.add("ref-only-cell"); continue
        if r < 0.4:
            new = rng.choice(dtypes)
            for f in fs:
                f["v"] = cast_vals(f["v"], f["dt"], new)
                if new != f["dt"]:
                    tags.add("dtype-mix")
                f["dt"] = new
        for f in fs:
            if rng.random() < 0.7:
                f["v"] = perturb(rng, f["v"], f["dt"])
        keepc += fs
    src["cf"] = keepc
    if rng.random() < 0.3 and src["cells"]:
        dt = rng.choice(dtypes)
        for t, rows in src["cells"]:
            src["cf"].append({"name": "s_cell", "ctype": t, "dt": dt, "tail": [], "v": rand_vals(rng, dt, ncell[t])})
        tags.add("src-only-cell")
    return sorted(tags)


def gen_base_mesh(rng, max_points=48, **kw):
    """meshgen mesh with the topological dimension / style drawn first (lines would dominate otherwise)"""
    want_topo = rng.choice([1, 2, 2, 2, 3, 3])
    want_mixed = rng.random() < 0.35
    best = None
    for _ in range(60):
        lm, mt = meshgen.gen_mesh(rng, max_cells_per_dir=rng.choice([1, 2, 2, 3]), fields=False, **kw)
        if len(lm["points"]) > max_points:
            continue
        best = (lm, mt)
        if mt["topo"] == want_topo and (not want_mixed or mt["style"].startswith("mixed") or want_topo == 1):
            break
    return best


def gen_mesh_case(rng, allow_outside=True):
    ref, mt = gen_base_mesh(rng)
    regen_fields(rng, ref)
    src = copy.deepcopy(ref)
    tags = [f"style-{mt['style']}", f"dim-{mt['dim']}", f"types-{len(ref['cells'])}"]
    r = rng.random()
    if r < 0.25:
        # the same geometry up to rounding noise: the meshes still compare equal, but are different arrays
        maxc = max([abs(c) for p in src["points"] for c in p] + [0.0])
        src["points"] = [[c + rng.uniform(-1, 1) * 1e-11 * maxc for c in p] for p in src["points"]]
        tags.append("mesh-noise")
    elif r < 0.5 and len(src["cells"]) > 1:
        order = list(range(len(src["cells"])))
        rng.shuffle(order)
        src["cells"] = [src["cells"][i] for i in order]
        tags.append("blocks-shuffled")
    elif r > 0.94 and allow_outside and len(src["points"]) > 1:
        src["points"][0] = [c + 1.0 + abs(c) for c in src["points"][0]]
        tags.append("mesh-different")
    else:
        tags.append("mesh-identical")
    tags += vary_fields(rng, ref, src, allow_shape_change=(allow_outside and rng.random() < 0.05))
    wrap = rng.choice(["plain", "plain", "sort", "sort_cells"])
    return {"kind": "mesh", "ref": ref, "src": src, "wrap": wrap}, tags + [f"wrap-{wrap}"]


def _wrap(fields, how):
    """plain | sort | sort_cells | sort_points | strip_orphan_points: the TransformedMeshFields view;
    m:<how>: the same view materialised as plain MeshFields (p6g: a plain data set stored in that order)"""
    from fieldcompare import mesh as fcmesh
    if how == "plain":
        return fields
    if how.startswith("m:"):
        return meshgen.to_fc(meshgen.from_fc(getattr(fcmesh, how[2:])(fields)))
    return getattr(fcmesh, how)(fields)


def diff_entries(d):
    """canonical entries of a MeshFields-like difference data set"""
    from fieldcompare.mesh._mesh_fields import remove_cell_type_suffix
    out = []
    for f in d.point_fields:
        out.append(f"P|{meshgen._tok(f.name)}|{canon_arr(np.asarray(f.values))}")
    for f, ct in d.cell_fields_types:
        out.append(f"C|{meshgen._tok(remove_cell_type_suffix(ct, f.name))}|{ct.name}|{canon_arr(np.asarray(f.values))}")
    return out


def same_domain(d, ref) -> bool:
    """exact equality of the domain's arrays with those of `ref`'s domain"""
    a, b = d.domain, ref.domain
    if not np.array_equal(np.asarray(a.points), np.asarray(b.points)):
        return False
    ta, tb = [t.name for t in a.cell_types], [t.name for t in b.cell_types]
    if ta != tb:
        return False
    return all(np.array_equal(np.asarray(a.connectivity(t)), np.asarray(b.connectivity(t))) for t in a.cell_types)


def run_mesh_impl(c):
    """-> dict(dom_eq, out='E:<type>'|canon, domref, lms fed to the model); None if the inputs cannot be built"""
    with _quiet():
        try:
            ref = _wrap(meshgen.to_fc(c["ref"]), c.get("wrap_r", c["wrap"]))
            src = _wrap(meshgen.to_fc(c["src"]), c.get("wrap_s", c["wrap"]))
            # what the model sees: the data sets as exposed by the public accessors
            lref, lsrc = meshgen.from_fc(ref), meshgen.from_fc(src)
            dig0 = (_fields_digest(ref), _fields_digest(src))
        except Exception:  # noqa: BLE001  (e.g. sorting a degenerate mesh): not a C14 case
            return None
        try:
            dom_eq = bool(ref.domain.equals(src.domain))
        except Exception as e:  # noqa: BLE001
            dom_eq = False
        try:
            d = src.diff_to(ref)
            out = canon_entries(diff_entries(d))
            domref = "1" if (d.domain is ref.domain or same_domain(d, ref)) else "0"
            # p6g: the same call once more on the same objects, and the operands as exposed afterwards
            try:
                again = canon_entries(diff_entries(src.diff_to(ref)))
            except Exception as e:  # noqa: BLE001
                again = f"E:{type(e).__name__}"
            changed = [side for side, obj, before in (("reference", ref, dig0[0]), ("source", src, dig0[1]))
                       if _fields_digest(obj) != before]
            rev = None
            try:
                rev = canon_entries(diff_entries(ref.diff_to(src)))
            except Exception as e:  # noqa: BLE001
                rev = f"E:{type(e).__name__}"
        except Exception as e:  # noqa: BLE001
            out, domref, rev, again, changed = f"E:{type(e).__name__}", "-", None, None, []
    return {"dom_eq": dom_eq, "out": out, "domref": domref, "lref": lref, "lsrc": lsrc, "rev": rev, "again": again,
            "changed": changed}


def _fields_digest(obj):
    """everything a mesh data set exposes through its public accessors (bytes of the arrays: NaN-safe)"""
    def b(a):
        a = np.ascontiguousarray(np.asarray(a))
        return (a.dtype.str, a.shape, a.tobytes())
    dom = obj.domain
    return (b(dom.points), [(ct.name, b(dom.connectivity(ct))) for ct in dom.cell_types],
            [(f.name, b(f.values)) for f in obj.point_fields], [(f.name, ct.name, b(f.values)) for f, ct in obj.cell_fields_types])


# ---- independent oracle for what the property demands

PROMO_F64 = None  # result type is float64 iff one side is f64, or (32/64-bit int with any float), or u64 with signed


def result_is_f64(d1, d2):
    if "f64" in (d1, d2):
        return True
    fl = [d for d in (d1, d2) if d in FLOATS]
    it = [d for d in (d1, d2) if d in INT_RANGE]
    if fl and it:
        return it[0] in ("i32", "i64", "u32", "u64")
    if len(it) == 2:
        return ("u64" in it) and any(d.startswith("i") for d in it)
    return False


def oracle_f64(x, y) -> str:
    """rn64(ref − src) with operands first converted to binary64; canonical value"""
    fx = rn64(Fraction(x)) if isinstance(x, int) else float(x)
    fy = rn64(Fraction(y)) if isinstance(y, int) else float(y)
    if math.isinf(fx) or math.isinf(fy):
        return "?"
    r = rn64(Fraction(fx) - Fraction(fy))
    return cval(r, True)


def parse_entries(s):
    """canonical string -> {key: (dtype, shape, [vals])}"""
    out = {}
    if s == "":
        return out
    for e in s.split(";"):
        parts = e.split("|")
        if parts[0] == "P":
            key = ("P", parts[1]); rest = parts[2:]
        elif parts[0] == "C":
            key = ("C", parts[1], parts[2]); rest = parts[3:]
        else:
            key = ("T", parts[1]); rest = parts[2:]
        out[key] = (rest[0], rest[1], rest[2].split(",") if rest[2] != "" else [])
    return out


def neg_val(v):
    if v == "n":
        return "n"
    if v == "+i":
        return "-i"
    if v == "-i":
        return "+i"
    return str(-int(v))


def spec_check_mesh(lref, lsrc, out, rev):
    """property-level demands on the implementation's result; returns list of complaints"""
    bad = []
    got = parse_entries(out)
    npnt = len(lref["points"])
    ncell = {t: len(rows) for t, rows in lref["cells"]}
    want = {}
    for side, lm in (("ref", lref), ("src", lsrc)):
        for f in lm["pf"]:
            want.setdefault(("P", meshgen._tok(f["name"])), {})[side] = (f, [npnt] + list(f["tail"]))
        for f in lm["cf"]:
            want.setdefault(("C", meshgen._tok(f["name"]), f["ctype"]), {})[side] = (f, [ncell.get(f["ctype"], 0)] + list(f["tail"]))
    if set(got) != set(want):
        bad.append(f"field set differs: got {sorted(got)} want {sorted(want)}")
        return bad
    for key, sides in want.items():
        dt, shape, vals = got[key]
        if len(sides) == 1:
            f, shp = list(sides.values())[0]
            if dt != "f64" or shape != ",".join(map(str, shp)) or any(v != "n" for v in vals) or \
                    len(vals) != int(np.prod(shp)):
                bad.append(f"one-sided field {key} is not an all-NaN float64 array of shape {shp}: {dt} {shape} {vals[:4]}")
        else:
            (fr, shp), (fs, _) = sides["ref"], sides["src"]
            if shape != ",".join(map(str, shp)) or len(vals) != len(fr["v"]):
                bad.append(f"common field {key}: shape {shape} instead of {shp}")
                continue
            if result_is_f64(fr["dt"], fs["dt"]):
                if dt != "f64":
                    bad.append(f"common field {key}: dtype {dt}, expected f64")
                for i, (x, y) in enumerate(zip(fr["v"], fs["v"])):
                    o = oracle_f64(x, y)
                    if o != "?" and o != vals[i]:
                        bad.append(f"common field {key} entry {i}: {show_val(vals[i])} but ref-src = {show_val(o)} (ref={x!r}, src={y!r})")
                        break
            elif fr["dt"] == fs["dt"] and fr["v"] == fs["v"]:
                if any(v != "0" for v in vals):
                    bad.append(f"common field {key}: identical arrays but non-zero difference")
    # sign: swapping the roles negates every entry (floats) / negates modulo 2^bits (ints)
    if rev is not None and not rev.startswith("E:"):
        g2 = parse_entries(rev)
        for key, (dt, shape, vals) in got.items():
            if key not in g2:
                # cell types that only the other mesh exposes: not comparable
                continue
            dt2, shape2, vals2 = g2[key]
            if dt in FLOATS:
                if dt2 != dt or [neg_val(v) for v in vals2] != vals:
                    bad.append(f"sign: {key} of ref.diff_to(src) is not the negation of src.diff_to(ref)")
            elif dt in INT_RANGE:
                lo, hi = INT_RANGE[dt]
                m = hi - lo + 1
                if dt2 != dt or any((int(a) + int(b)) % m != 0 for a, b in zip(vals, vals2)):
                    bad.append(f"sign: integer field {key} not negated modulo 2^bits")
    return bad


def eval_mesh_cases(ctx, cases, tagsl):
    impls = [run_mesh_impl(c) for c in cases]
    keep = [i for i, im in enumerate(impls) if im is not None]
    cases, tagsl, impls = [cases[i] for i in keep], [tagsl[i] for i in keep], [impls[i] for i in keep]
    lines = [f"c14mesh {1 if im['dom_eq'] else 0} {meshgen.enc_fields(im['lref'])} {meshgen.enc_fields(im['lsrc'])}"
             for im in impls]
    replies = ctx.lean(lines) if ctx.driver_ok else [None] * len(cases)
    for c, tags, im, rep, line in zip(cases, tagsl, impls, replies, lines):
        out = im["out"]
        raised = out.startswith("E:")
        tags = list(tags) + ["raised" if raised else "diff-ok"]
        nontriv = (not raised) and has_nonzero(out)
        inside = rep is not None and rep.get("hyp") == "1"
        tags.append("hyp" if inside else "outside-hyp")
        ctx.case(("mesh", out, line), nontrivial=nontriv, tags=tags,
                 sample={"case": {"wrap": c["wrap"], "ref_fields": [(f["name"], f["dt"]) for f in c["ref"]["pf"] + c["ref"]["cf"]],
                                  "src_fields": [(f["name"], f["dt"]) for f in c["src"]["pf"] + c["src"]["cf"]]},
                         "impl": out[:300], "lean": {k: v[:300] for k, v in (rep or {}).items()}})
        if rep is not None:
            if "hyp" not in rep:
                ctx.inconsistent(c, str(rep), "bad-op")
            elif inside:
                model = rep["model"]
                if (model == "E") != raised or (not raised and (model != out or rep.get("domref") != im["domref"])):
                    ctx.mismatch(c, {"out": out, "domref": im["domref"]}, {"out": model, "domref": rep.get("domref")},
                                 what="src.diff_to(ref) vs Fc.meshDiffTo")
                if rep["spec"] != model:
                    ctx.inconsistent(c, model, rep["spec"])
            elif not im["dom_eq"]:
                # different meshes: the model raises; so must the implementation (no diff on a non-common domain)
                if not raised:
                    ctx.violation(c, out[:500], "raise", what="diff_to produced a data set for two different meshes")
        # search: the property's demands, independent of the model
        if inside:
            if raised:
                ctx.violation(c, out, "a difference data set", what="diff_to raised on comparable data sets")
            else:
                bad = spec_check_mesh(im["lref"], im["lsrc"], out, im["rev"])
                if im["domref"] != "1":
                    bad.append("the difference does not live on the reference's domain")
                if im.get("again") is not None and im["again"] != out:
                    bad.append("a second src.diff_to(ref) on the same two objects does not give the same difference data again")
                if im.get("changed"):
                    bad.append(f"diff_to changed the field values / mesh exposed by its operand(s) {im['changed']}: what a repeated "
                               "diff (or the comparison that follows) sees is no longer the data the user passed")
                if bad:
                    ctx.violation(c, {"out": out[:2000], "complaints": bad[:5]}, "reference minus source / NaN / reference domain",
                                  what=bad[0])


# ---------------------------------------------------------------- (3) tables

TAB_DT = ("f64", "f64", "i64", "f32", "i32", "u8", "str")


def gen_table_case(rng, allow_str_common=True):
    def table(n, names):
        cols = []
        for k in names:
            dt = rng.choice(TAB_DT)
            v = [rng.choice(["a", "b", "xy"]) for _ in range(n)] if dt == "str" else \
                rand_vals(rng, dt, n, "extreme" if rng.random() < 0.15 else "plain")
            cols.append({"name": k, "dt": dt, "v": v})
        return {"n": n, "cols": cols, "idx": None}
    n1 = rng.choice([0, 1, 2, 3, 5, 8])
    n2 = n1 if rng.random() < 0.45 else rng.choice([0, 1, 2, 4, 9])
    pool = ["x", "y", "z", "t", "u v", "w"]
    k1 = rng.sample(pool, rng.randint(0, 4))
    ref = table(n1, k1)
    src = {"n": n2, "cols": [], "idx": None}
    for col in ref["cols"]:
        r = rng.random()
        if r < 0.25:
            continue
        dt = col["dt"] if rng.random() < 0.6 else rng.choice(TAB_DT)
        if dt == "str" and col["dt"] != "str" and not allow_str_common:
            dt = "f64"
        if dt == "str":
            v = [rng.choice(["a", "b"]) for _ in range(n2)]
        elif col["dt"] == "str":
            v = rand_vals(rng, dt, n2)
        else:
            base = (col["v"] * (n2 // max(n1, 1) + 1))[:n2] if n1 else rand_vals(rng, dt, n2)
            v = perturb(rng, cast_vals(base, col["dt"], dt), dt)
        src["cols"].append({"name": col["name"], "dt": dt, "v": v})
    for k in pool:
        if k not in k1 and rng.random() < 0.25:
            dt = rng.choice(TAB_DT)
            v = [rng.choice(["a", "b"]) for _ in range(n2)] if dt == "str" else rand_vals(rng, dt, n2)
            src["cols"].append({"name": k, "dt": dt, "v": v})
    rng.shuffle(src["cols"])
    for t in (ref, src):
        if t["n"] and rng.random() < 0.25:
            idx = list(range(t["n"]))
            rng.shuffle(idx)
            t["idx"] = idx
    tags = [f"rows-{'equal' if n1 == n2 else 'differ'}", f"ncols-{len(ref['cols'])}-{len(src['cols'])}"]
    if ref["idx"] or src["idx"]:
        tags.append("index-map")
    return {"kind": "table", "ref": ref, "src": src}, tags


def to_table(t):
    from fieldcompare.tabular import Table, TabularFields
    dom = Table(num_rows=t["n"]) if t["idx"] is None else Table(idx_map=np.array(t["idx"], dtype=np.int64))
    return TabularFields(dom, {c["name"]: predio.np_array({"dt": c["dt"], "shape": [t["n"]], "v": c["v"]}) for c in t["cols"]})


def logical_table(t):
    """the table as exposed by iteration (values mapped through the index map)"""
    cols = []
    for c in t["cols"]:
        v = c["v"] if t["idx"] is None else [c["v"][i] for i in t["idx"]]
        cols.append({"name": c["name"], "dt": c["dt"], "v": v})
    return {"n": t["n"], "cols": cols}


def enc_table(t) -> str:
    st = {}
    toks = [str(t["n"]), str(len(t["cols"]))]
    for c in t["cols"]:
        toks += [meshgen._tok(c["name"]), predio.enc_arr({"dt": c["dt"], "shape": [t["n"]], "v": c["v"]}, st)]
    return " ".join(toks)


def table_entries(d):
    return f"{d.domain.number_of_rows};" + canon_entries(
        f"T|{meshgen._tok(f.name)}|{canon_arr(np.asarray(f.values))}" for f in d)


def _table_digest(t):
    return repr([(f.name, np.asarray(f.values).dtype.str, np.asarray(f.values).tolist()) for f in t])


def run_table_impl(c, extra=None):
    """extra (p6g): list that receives complaints about a repeated call / changed operands"""
    with _quiet():
        try:
            src, ref = to_table(c["src"]), to_table(c["ref"])
            before = (_table_digest(src), _table_digest(ref)) if extra is not None else None
            out = table_entries(src.diff_to(ref))
            if extra is not None:
                try:
                    if table_entries(src.diff_to(ref)) != out:
                        extra.append("a second src.diff_to(ref) on the same two tables does not give the same difference table again")
                except Exception as e:  # noqa: BLE001
                    extra.append(f"a second src.diff_to(ref) on the same two tables raised {type(e).__name__}")
                if (_table_digest(src), _table_digest(ref)) != before:
                    extra.append("diff_to changed the columns exposed by its operands")
            return out
        except Exception as e:  # noqa: BLE001
            return f"E:{type(e).__name__}"


def spec_check_table(lref, lsrc, out):
    bad = []
    n = max(lref["n"], lsrc["n"])
    head, _, body = out.partition(";")
    if head != str(n):
        return [f"diff table has {head} rows, expected max(rows) = {n}"]
    got = parse_entries(body)
    r = {c["name"]: c for c in lref["cols"]}
    s = {c["name"]: c for c in lsrc["cols"]}
    names = set(r) | set(s)
    if {k[1] for k in got} != {meshgen._tok(k) for k in names}:
        return [f"column set differs: {sorted(got)} vs {sorted(names)}"]
    for name in names:
        dt, shape, vals = got[("T", meshgen._tok(name))]
        if dt != "f64" or shape != str(n) or len(vals) != n:
            bad.append(f"column {name}: not a float64 column of {n} rows")
            continue
        common = min(len(r[name]["v"]), len(s[name]["v"])) if name in r and name in s else 0
        if any(v != "n" for v in vals[common:]):
            bad.append(f"column {name}: entries beyond the common rows / of a one-sided column are not NaN")
        if name in r and name in s and result_is_f64(r[name]["dt"], s[name]["dt"]):
            for i in range(common):
                o = oracle_f64(r[name]["v"][i], s[name]["v"][i])
                if o != "?" and o != vals[i]:
                    bad.append(f"column {name} row {i}: {show_val(vals[i])} but ref-src = {show_val(o)} "
                               f"(ref={r[name]['v'][i]!r}, src={s[name]['v'][i]!r})")
                    break
    return bad


def eval_table_cases(ctx, cases, tagsl):
    extras = [[] for _ in cases]
    outs = [run_table_impl(c, x) for c, x in zip(cases, extras)]
    logical = [(logical_table(c["ref"]), logical_table(c["src"])) for c in cases]
    lines = [f"c14tab {enc_table(lr)} {enc_table(ls)}" for lr, ls in logical]
    replies = ctx.lean(lines) if ctx.driver_ok else [None] * len(cases)
    for c, tags, out, (lr, ls), rep, extra in zip(cases, tagsl, outs, logical, replies, extras):
        raised = out.startswith("E:")
        inside = rep is not None and rep.get("hyp") == "1"
        ctx.case(("table", out, enc_table(lr), enc_table(ls)),
                 nontrivial=(not raised) and (lr["n"] != ls["n"] or has_nonzero(out.partition(";")[2])),
                 tags=["table"] + list(tags) + ["raised" if raised else "diff-ok", "hyp" if inside else "outside-hyp"],
                 sample={"case": c, "impl": out[:300], "lean": {k: v[:300] for k, v in (rep or {}).items()}})
        if rep is not None:
            if "hyp" not in rep:
                ctx.inconsistent(c, str(rep), "bad-op")
            elif inside:
                if (rep["model"] == "E") != raised or (not raised and rep["model"] != out):
                    ctx.mismatch(c, out, rep["model"], what="TabularFields.diff_to vs Fc.tableDiffTo")
                if rep["spec"] != rep["model"]:
                    ctx.inconsistent(c, rep["model"], rep["spec"])
        if inside:
            if raised:
                ctx.violation(c, out, "a difference table", what="TabularFields.diff_to raised on numeric tables")
            else:
                bad = spec_check_table(lr, ls, out) + extra
                if bad:
                    ctx.violation(c, {"out": out[:2000], "complaints": bad[:5]}, "reference minus source / NaN tail", what=bad[0])


# ---------------------------------------------------------------- (4) the file written by `--diff`

def run_cli(args):
    from fieldcompare._cli import main
    from fieldcompare._cli._logger import CLILogger
    buf = io.StringIO()
    with _quiet(), contextlib.redirect_stdout(buf), contextlib.redirect_stderr(buf):
        try:
            rc = main(args, CLILogger(output_stream=buf))
        except SystemExit as e:
            rc = f"exit:{e.code}"
        except Exception as e:  # noqa: BLE001
            rc = f"X:{type(e).__name__}"
    return rc, buf.getvalue()


def lm_nan(fields):
    """like meshgen.from_fc, but keeps numpy arrays (NaN-safe)"""
    from fieldcompare.mesh._mesh_fields import remove_cell_type_suffix
    dom = fields.domain
    pts = np.asarray(dom.points)
    out = {"points": [tuple(f2u(float(c)) for c in p) for p in pts], "cells": [], "pf": [], "cf": []}
    for ct in dom.cell_types:
        out["cells"].append((ct.name, [[int(i) for i in row] for row in np.asarray(dom.connectivity(ct))]))
    for f in fields.point_fields:
        out["pf"].append((f.name, np.asarray(f.values)))
    for f, ct in fields.cell_fields_types:
        out["cf"].append((remove_cell_type_suffix(ct, f.name), ct.name, np.asarray(f.values)))
    return out


def content_maps(l):
    """(points: coords -> point index, cells: (type, corner coords) -> cell index); None if a key repeats"""
    connected = sorted({i for _, rows in l["cells"] for r in rows for i in r})
    pmap = {}
    for p in connected:
        if l["points"][p] in pmap:
            return None
        pmap[l["points"][p]] = p
    cmap = {}
    for t, rows in l["cells"]:
        for c, r in enumerate(rows):
            key = (t, tuple(l["points"][i] for i in r))
            if key in cmap:
                return None
            cmap[key] = c
    return pmap, cmap


def _arr_case(arr):
    dt = meshgen._np_dt_name(arr)
    return {"dt": dt, "shape": list(arr.shape), "v": [float(x) if dt in FLOATS else int(x) for x in arr.flatten().tolist()]}


def check_cli_mesh(ctx, c, workdir):
    """returns (tags, complaints, sub_lines, expected_entries) — the arithmetic is checked through `c14sub`"""
    from fieldcompare.io import write, read_field_data
    tags, bad = [], []
    lay = c.get("layout") or {}
    sdir, rdir = os.path.join(workdir, lay.get("sdir", "")), os.path.join(workdir, lay.get("rdir", ""))
    os.makedirs(sdir, exist_ok=True)
    os.makedirs(rdir, exist_ok=True)
    with _quiet():
        fa = write(meshgen.to_fc(c["a"]), os.path.join(sdir, lay.get("sname", "res")))
        fb = write(meshgen.to_fc(c["b"]), os.path.join(rdir, lay.get("rname", "ref")))

    def listing():
        return sorted(os.path.relpath(os.path.join(root, f), workdir) for root, _, files in os.walk(workdir) for f in files)
    before = listing()
    cwd = os.getcwd()
    try:
        if lay.get("rel"):      # p6g: relative paths, the working directory is the case's directory
            os.chdir(workdir)
            rc, log = run_cli(["file", os.path.relpath(fa, workdir), os.path.relpath(fb, workdir), "--diff"] + c.get("opts", []))
        else:
            rc, log = run_cli(["file", fa, fb, "--diff"] + c.get("opts", []))
    finally:
        os.chdir(cwd)
    new = [f for f in listing() if f not in before]
    expected_name = os.path.relpath(os.path.join(os.path.dirname(fa), "diff_" + os.path.basename(fa) + ".vtu"), workdir)
    if new != [expected_name]:
        return tags, [f"files created by --diff: {new}, expected [{expected_name}] next to the source file (rc={rc}; log tail: {log[-300:]})"], [], []
    expected_name = os.path.join(workdir, expected_name)
    with _quiet():
        a_in, b_in = lm_nan(read_field_data(fa)), lm_nan(read_field_data(fb))
        d = lm_nan(read_field_data(expected_name))
    ma, mb, md = content_maps(a_in), content_maps(b_in), content_maps(d)
    if ma is None or mb is None or md is None:
        return ["cli-skipped-coincident"], [], [], []
    # domain = the reference's geometric content
    if set(md[0]) != set(mb[0]) or set(md[1]) != set(mb[1]):
        bad.append("the diff file does not live on the reference's mesh (connected points / cells differ)")
        return tags, bad, [], []
    if set(ma[0]) != set(mb[0]) or set(ma[1]) != set(mb[1]):
        return ["cli-skipped-different-meshes"], [], [], []
    tags.append("cli-sorted" if "Sorting mesh fields for diff output" in log else "cli-unsorted")
    sub_lines, expected = [], []
    pa = {n: v for n, v in a_in["pf"]}
    pb = {n: v for n, v in b_in["pf"]}
    pd = {n: v for n, v in d["pf"]}
    if set(pd) != set(pa) | set(pb):
        bad.append(f"point fields of the diff file {sorted(pd)} != union {sorted(set(pa) | set(pb))}")
    order = sorted(md[0], key=lambda k: md[0][k])       # connected points of the diff, in file order
    for name, dv in pd.items():
        rows = [md[0][k] for k in order]
        got = dv[rows]
        if name in pa and name in pb:
            R = pb[name][[mb[0][k] for k in order]]
            S = pa[name][[ma[0][k] for k in order]]
            sub_lines.append(f"c14sub {predio.enc_arr(_arr_case(R))} {predio.enc_arr(_arr_case(S))}")
            expected.append((f"point field {name}", canon_arr(got), c.get("relabel_only", False)))
        elif name in pa or name in pb:
            if got.dtype != np.float64 or not np.all(np.isnan(got)):
                bad.append(f"one-sided point field {name} is not all-NaN float64 in the diff file")
    ca = {(n, t): v for n, t, v in a_in["cf"]}
    cb = {(n, t): v for n, t, v in b_in["cf"]}
    cd = {(n, t): v for n, t, v in d["cf"]}
    if set(cd) != set(ca) | set(cb):
        bad.append(f"cell fields of the diff file {sorted(cd)} != union {sorted(set(ca) | set(cb))}")
    for (name, t), dv in cd.items():
        keys = sorted([k for k in md[1] if k[0] == t], key=lambda k: md[1][k])
        got = dv[[md[1][k] for k in keys]]
        if (name, t) in ca and (name, t) in cb:
            R = cb[(name, t)][[mb[1][k] for k in keys]]
            S = ca[(name, t)][[ma[1][k] for k in keys]]
            sub_lines.append(f"c14sub {predio.enc_arr(_arr_case(R))} {predio.enc_arr(_arr_case(S))}")
            expected.append((f"cell field {name} on {t}", canon_arr(got), c.get("relabel_only", False)))
        elif (name, t) in ca or (name, t) in cb:
            if got.dtype != np.float64 or not np.all(np.isnan(got)):
                bad.append(f"one-sided cell field {name}/{t} is not all-NaN float64 in the diff file")
    return tags, bad, sub_lines, expected


def gen_cli_mesh_case(rng):
    for _ in range(50):
        a, mt = gen_base_mesh(rng, max_points=40, allow_duplicates=False)
        if mt["style"] != "poly" and well_separated(a):
            break
    regen_fields(rng, a, dtypes=("f64", "f64", "f32", "i32", "i64"))
    for f in a["pf"] + a["cf"]:
        f["name"] = f["name"].replace(" @ x", "_x")     # VTU cell data carry plain names
    r = rng.random()
    tags = [f"cli-style-{mt['style']}"]
    if r < 0.3:
        b = meshgen.relabel(rng, a, extra_orphans=rng.choice([0, 0, 2]))
        tags.append("cli-relabel-only")
        return {"kind": "cli-mesh", "a": a, "b": b, "relabel_only": True, "opts": []}, tags
    if r < 0.8:
        b = meshgen.relabel(rng, a)
        tags.append("cli-relabel+vary")
    else:
        b = copy.deepcopy(a)
        tags.append("cli-same-order")
    # a is the source (result file), b the reference: vary b's fields
    a2 = copy.deepcopy(b)
    tags += vary_fields(rng, a2, b, dtypes=("f64", "f64", "f32", "i32", "i64"))
    return {"kind": "cli-mesh", "a": a, "b": b, "opts": []}, tags


def eval_cli_mesh_cases(ctx, cases, tagsl, workroot):
    pend = []
    for i, (c, tags) in enumerate(zip(cases, tagsl)):
        wd = os.path.join(workroot, f"m{i}")
        os.makedirs(wd)
        t2, bad, sub_lines, expected = check_cli_mesh(ctx, c, wd)
        shutil.rmtree(wd, ignore_errors=True)
        pend.append((c, list(tags) + t2, bad, sub_lines, expected))
    all_lines = [l for p in pend for l in p[3]]
    replies = ctx.lean(all_lines) if (ctx.driver_ok and all_lines) else [None] * len(all_lines)
    k = 0
    for c, tags, bad, sub_lines, expected in pend:
        nz = False
        for (what, got, relabel_only) in expected:
            rep = replies[k]; k += 1
            vals = got.rsplit("|", 1)[1]
            if any(v not in ("0", "n", "") for v in vals.split(",")):
                nz = True
            if relabel_only and any(v != "0" for v in vals.split(",") if v != ""):
                bad.append(f"{what}: b = relabel(a), but the written difference is not exactly zero")
            if rep is not None and rep.get("model") != got:
                bad.append(f"{what}: file holds {show_arr(got)}, reference minus source on the same entities is "
                           f"{show_arr(rep['model']) if rep.get('model', 'E').count('|') == 2 else rep.get('model')}")
        ctx.case(("cli-mesh", repr(c)[:400], tuple(e[1] for e in expected)), nontrivial=nz or c.get("relabel_only", False),
                 tags=["cli-mesh"] + tags)
        if bad:
            ctx.violation(c, {"complaints": bad[:5]}, "diff file = reference minus source on matching entities", what=bad[0])


# ---- CSV

def gen_cli_csv_case(rng):
    names = rng.sample(["alpha", "beta", "gamma", "delta", "eps"], rng.randint(2, 4))
    n1 = rng.choice([2, 3, 5, 7])
    n2 = n1 if rng.random() < 0.5 else rng.choice([2, 4, 6])

    def col(kind, n):
        if kind == "i":
            return [rng.randint(-50, 50) for _ in range(n)]
        return [round(rng.uniform(-5, 5), rng.choice([1, 3, 6])) + (0.5 if rng.random() < 0.3 else 0.0) for _ in range(n)]
    kinds = {k: rng.choice("if") for k in names}
    a = {k: col(kinds[k], n1) for k in names}
    b = {}
    for k in names:
        if rng.random() < 0.2:
            continue
        kind = kinds[k] if rng.random() < 0.8 else rng.choice("if")
        base = (a[k] * 4)[:n2]
        if kind == "i":
            b[k] = [int(round(x)) + rng.choice([0, 0, 1, -2]) for x in base]
        else:
            b[k] = [float(x) + rng.choice([0.0, 0.0, 0.25, -1e-9]) for x in base]
    if rng.random() < 0.3:
        b["omega"] = col("f", n2)
    if len(b) < 2:
        b["omega"], b["zeta"] = col("f", n2), col("i", n2)

    def text(cols, n):
        ks = list(cols)
        lines = [",".join(ks)]
        for i in range(n):
            lines.append(",".join(repr(cols[k][i]) for k in ks))
        return "\n".join(lines) + "\n"
    return {"kind": "cli-csv", "a": text(a, n1), "b": text(b, n2), "cols_a": a, "cols_b": b}, \
        [f"csv-rows-{'equal' if n1 == n2 else 'differ'}"]


def mini_csv(text):
    """independent minimal decoder of the diff CSV: header + rows of floats / nan"""
    lines = [l for l in text.split("\n") if l != ""]
    names = lines[0].split(",")
    cols = {k: [] for k in names}
    for l in lines[1:]:
        cells = l.split(",")
        if len(cells) != len(names):
            raise ValueError("ragged row")
        for k, cell in zip(names, cells):
            cols[k].append(float(cell))
    return names, cols


def check_cli_csv(ctx, c, wd):
    from fieldcompare.io import read_field_data
    fa, fb = os.path.join(wd, "res.csv"), os.path.join(wd, "ref.csv")
    with open(fa, "w") as fh:
        fh.write(c["a"])
    with open(fb, "w") as fh:
        fh.write(c["b"])
    with _quiet():
        try:
            ta, tb = read_field_data(fa), read_field_data(fb)
        except Exception:  # noqa: BLE001  (delimiter / header sniffing is owned by C04's assumptions)
            return "csv-reader-differs", [], None

    def as_logical(t):
        return {"n": t.domain.number_of_rows,
                "cols": [{"name": f.name, "dt": meshgen._np_dt_name(np.asarray(f.values)),
                          "v": [x for x in np.asarray(f.values).tolist()]} for f in t]}
    la, lb = as_logical(ta), as_logical(tb)
    # the reader must have seen what was written (otherwise the case says nothing about the diff)
    for l, cols in ((la, c["cols_a"]), (lb, c["cols_b"])):
        if [x["name"] for x in l["cols"]] != list(cols) or any(x["v"] != cols[x["name"]] for x in l["cols"]):
            return "csv-reader-differs", [], None
    before = sorted(os.listdir(wd))
    rc, log = run_cli(["file", fa, fb, "--diff"])
    new = [f for f in sorted(os.listdir(wd)) if f not in before]
    if new != ["diff_res.csv.csv"]:
        return None, [f"files created by --diff: {new} (rc={rc}; log tail {log[-200:]})"], None
    with open(os.path.join(wd, "diff_res.csv.csv")) as fh:
        text = fh.read()
    bad = []
    names, cols = mini_csv(text)
    mini = f"{len(text.strip().splitlines()) - 1};" + canon_entries(
        f"T|{meshgen._tok(k)}|{canon_arr(np.array(cols[k], dtype=np.float64))}" for k in names)
    with _quiet():
        try:
            via_reader = table_entries(read_field_data(os.path.join(wd, "diff_res.csv.csv")))
        except Exception as e:  # noqa: BLE001
            via_reader = f"E:{type(e).__name__}"
    # reading the diff back with fieldcompare's own reader: header/delimiter sniffing of an (often mostly NaN) table
    # is not part of C14; agreement is recorded, the literal content is what is judged
    ctx.dist["csv-readback-" + ("agrees" if via_reader == mini else ("error" if via_reader.startswith("E:") else "differs"))] += 1
    line = f"c14tab {enc_table(lb)} {enc_table(la)}"
    return (line, mini, la, lb), bad, None


def eval_cli_csv_cases(ctx, cases, tagsl, workroot):
    pend = []
    for i, (c, tags) in enumerate(zip(cases, tagsl)):
        wd = os.path.join(workroot, f"c{i}")
        os.makedirs(wd)
        res, bad, _ = check_cli_csv(ctx, c, wd)
        shutil.rmtree(wd, ignore_errors=True)
        pend.append((c, tags, res, bad))
    lines = [p[2][0] for p in pend if isinstance(p[2], tuple)]
    replies = ctx.lean(lines) if (ctx.driver_ok and lines) else [None] * len(lines)
    k = 0
    for c, tags, res, bad in pend:
        tags = ["cli-csv"] + list(tags)
        if isinstance(res, str):
            ctx.case(("cli-csv-skip", c["a"], c["b"]), nontrivial=False, tags=tags + [res])
            continue
        if isinstance(res, tuple):
            line, mini, la, lb = res
            rep = replies[k]; k += 1
            if rep is not None and rep.get("hyp") == "1" and rep.get("model") != mini:
                bad.append(f"diff CSV holds {mini[:300]}, model of reference minus source: {rep.get('model', '')[:300]} (values in units of 2^-1074)")
            bad += spec_check_table(lb, la, mini)
        ctx.case(("cli-csv", c["a"], c["b"]), nontrivial=True, tags=tags)
        if bad:
            ctx.violation({k: c[k] for k in ("kind", "a", "b", "cols_a", "cols_b")}, {"complaints": bad[:5]},
                          "diff CSV = reference minus source, NaN tail", what=bad[0])


# ---------------------------------------------------------------- phase 6 (G2): directed batches (notes/PHASE6_G2_C14.md)

NAMES_P6 = ["", " ", "a", "ab", "abc", "A", "p", "p ", " p", "0", "1e5", "nan", "é", "e\u0301", "Δp", "温度", "a/b", "a:b", "a.b", "a=b", "'a'", "a @ b", "a @ b @ c", " @ ", "@", "a@b", "a @", "@ a", "a @ QUAD", "a @ PIXEL", "QUAD",
            "x @ VOXEL", "*", "?", "[a]", "a*", "{a}", "%s", "velocity", "velocity_x", "Velocity", "x" * 200]


def many_type_meshes():
    """hand-made meshes with 5-6 cell types in ONE mesh incl. pixel+quad resp. voxel+hexahedron; distinct, well separated points"""
    m2 = {"dim": 2,
          "points": [[0.0, 0.0], [1.0, 0.0], [2.0, 0.0], [3.0, 0.0], [0.0, 1.0], [1.0, 1.0], [2.0, 1.0], [3.0, 1.0], [4.0, 0.5],
                     [5.0, 2.5]],
          "cells": [["PIXEL", [[0, 1, 4, 5]]], ["QUAD", [[1, 2, 6, 5]]], ["TRIANGLE", [[2, 3, 7], [2, 7, 6]]],
                    ["LINE", [[3, 8], [7, 8]]], ["VERTEX", [[8], [9]]]], "pf": [], "cf": []}
    p3 = [[float(x), float(y), float(z)] for z in (0, 1) for y in (0, 1) for x in (0, 1, 2, 3)]
    m3 = {"dim": 3, "points": p3 + [[1.5, 0.5, 2.0], [5.0, 5.0, 5.0], [6.0, 5.5, 5.25]],
          "cells": [["VOXEL", [[0, 1, 4, 5, 8, 9, 12, 13]]], ["HEXAHEDRON", [[1, 2, 6, 5, 9, 10, 14, 13]]],
                    ["TETRA", [[2, 3, 7, 11], [3, 7, 11, 15]]], ["PYRAMID", [[9, 10, 14, 13, 16]]],
                    ["QUAD", [[8, 9, 13, 12]]], ["LINE", [[17, 18]]]], "pf": [], "cf": []}
    return [m2, m3]


def big_mesh(rng, nx, ny, dim):
    """nx x ny lattice (> 1000 points) of quads with the last column split into triangles; irregular, well separated
    coordinates; dim 2, or 3 = embedded in the y-z plane"""
    xs = [1.0 * i + 0.25 * rng.random() for i in range(nx + 1)]
    ys = [1.0 * j + 0.25 * rng.random() for j in range(ny + 1)]
    pts = [([x, y] if dim == 2 else [-2.0, x, y]) for y in ys for x in xs]
    idx = lambda i, j: j * (nx + 1) + i          # noqa: E731
    quads, tris = [], []
    for j in range(ny):
        for i in range(nx):
            c = [idx(i, j), idx(i + 1, j), idx(i + 1, j + 1), idx(i, j + 1)]
            if i == nx - 1:
                tris += [[c[0], c[1], c[2]], [c[0], c[2], c[3]]]
            else:
                quads.append(c)
    return {"dim": dim, "points": pts, "cells": [["QUAD", quads], ["TRIANGLE", tris]], "pf": [], "cf": []}


def insert_orphans(rng, lm, where, k):
    """k unconnected points inserted at the front / in the middle / at the end / scattered (the indices of all later points
    shift); every point field gets (arbitrary) values there"""
    lm = copy.deepcopy(lm)
    n = len(lm["points"])
    maxc = max([abs(c) for p in lm["points"] for c in p] + [0.0]) or 1.0     # inside the mesh's own coordinate scale: the
    # mesh tolerance is relative to max |coordinate|, a far-away orphan would change which points count as distinct
    pos = {"first": [0] * k, "middle": [n // 2] * k, "last": [n] * k,
           "scattered": sorted(rng.randint(0, n) for _ in range(k))}[where]
    new_pts, new_of_old, slots = [], {}, []
    q = 0
    for old in range(n + 1):
        while q < k and pos[q] == old:
            slots.append(len(new_pts))
            new_pts.append([rng.uniform(-1, 1) * maxc for _ in range(lm["dim"])])
            q += 1
        if old < n:
            new_of_old[old] = len(new_pts)
            new_pts.append(lm["points"][old])
    lm["cells"] = [[t, [[new_of_old[i] for i in row] for row in rows]] for t, rows in lm["cells"]]
    for f in lm["pf"]:
        rs = meshgen._rowsize(f["tail"])
        fill = rand_vals(rng, f["dt"], rs * k)
        v, old = [], 0
        for newi in range(len(new_pts)):
            if newi in slots:
                j = slots.index(newi)
                v += fill[j * rs:(j + 1) * rs]
            else:
                v += f["v"][old * rs:(old + 1) * rs]
                old += 1
        f["v"] = v
    lm["points"] = new_pts
    return lm


def _p6_fields(rng, lm, names, dtypes=MESH_DT):
    """point and cell fields under the given names (a name may be used for both kinds)"""
    npnt, d = len(lm["points"]), lm["dim"]
    lm["pf"], lm["cf"] = [], []
    for name in names:
        dt = rng.choice(dtypes)
        if rng.random() < 0.7:
            tail = rng.choice([[], [], [d], [1]])
            lm["pf"].append({"name": name, "dt": dt, "tail": tail, "v": rand_vals(rng, dt, npnt * meshgen._rowsize(tail))})
        if rng.random() < 0.45:
            tail = rng.choice([[], [], [d]])
            for t, rows in lm["cells"]:
                lm["cf"].append({"name": name, "ctype": t, "dt": dt, "tail": tail,
                                 "v": rand_vals(rng, dt, len(rows) * meshgen._rowsize(tail))})
    return lm


def gen_p6_mesh_case(rng, i, manyt, variant=None):
    """directed, by turns:
    permuted   - src = relabel(ref) (points, cells, type blocks permuted) + unconnected points inserted at the front / middle /
                 end / scattered on either or both sides + value differences, dtype mixes, one-sided fields; both sides through
                 sort (the CLI's path) - in process, all dtypes
    mixed-view - one side a TransformedMeshFields view, the other one plain MeshFields stored in the very same order
                 (either role), incl. sort_points / strip_orphan_points views
    big        - > 1000 points / cells; differences only at a few positions incl. first / last / 1000 / 1023 / 1024
    many       - 60-130 fields under adversarial names on meshes with 5-6 cell types incl. pixel+quad / voxel+hexahedron"""
    variant = variant or ["permuted", "mixed-view", "permuted"][i % 3]
    tags = ["p6-" + variant]
    if variant in ("permuted", "mixed-view"):
        for _ in range(40):
            ref, mt = gen_base_mesh(rng, max_points=40, allow_duplicates=False, allow_orphans=False)
            if well_separated(ref):
                break
        regen_fields(rng, ref)
        src = meshgen.relabel(rng, ref) if (variant == "permuted" or rng.random() < 0.6) else copy.deepcopy(ref)
        tags += [f"style-{mt['style']}", f"dim-{mt['dim']}", f"types-{len(ref['cells'])}"]
        tags += vary_fields(rng, ref, src)
        if variant == "permuted":
            side = ["src", "ref", "both", "none"][(i // 3) % 4]
            where = ["first", "middle", "last", "scattered"][(i // 12) % 4]
            if side in ("src", "both"):
                src = insert_orphans(rng, src, where, rng.randint(1, 3))
            if side in ("ref", "both"):
                ref = insert_orphans(rng, ref, rng.choice(["first", "middle", "last", "scattered"]), rng.randint(1, 3))
            tags += ["p6-orphans-" + side] + (["p6-orphans-at-" + where] if side in ("src", "both") else [])
            c = {"kind": "mesh", "ref": ref, "src": src, "wrap": "sort"}
        else:
            how = rng.choice(["sort", "sort", "sort_cells", "sort_points", "strip_orphan_points"])
            if how == "strip_orphan_points":
                src = insert_orphans(rng, src, rng.choice(["first", "middle", "scattered"]), 2)
            view_is_src = rng.random() < 0.5
            c = {"kind": "mesh", "ref": ref, "src": src, "wrap": how,
                 "wrap_s": how if view_is_src else "m:" + how, "wrap_r": "m:" + how if view_is_src else how}
            tags += ["p6-view-is-" + ("source" if view_is_src else "reference"), "p6-view-" + how]
        return c, tags + ["wrap-" + c["wrap"]]
    if variant == "big":
        dim = rng.choice([2, 3])
        ref = big_mesh(rng, rng.randint(34, 40), rng.randint(28, 32), dim)
        npnt = len(ref["points"])
        ncell = {t: len(rows) for t, rows in ref["cells"]}
        for name, dt, tail in (("u", "f64", []), ("v", "f32", [dim]), ("id", "i32", []), ("m", "u8", [])):
            ref["pf"].append({"name": name, "dt": dt, "tail": tail, "v": rand_vals(rng, dt, npnt * meshgen._rowsize(tail))})
        for name, dt in (("c", "f64"), ("k", "i64")):
            for t, rows in ref["cells"]:
                ref["cf"].append({"name": name, "ctype": t, "dt": dt, "tail": [], "v": rand_vals(rng, dt, len(rows))})
        src = copy.deepcopy(ref)
        for f in src["pf"] + src["cf"]:
            n = len(f["v"])
            for pos in {0, n - 1, min(n - 1, 999), min(n - 1, 1000), min(n - 1, 1023), min(n - 1, 1024), rng.randrange(n)}:
                if rng.random() < 0.6:
                    f["v"][pos] = perturb(rng, [f["v"][pos]] * 3, f["dt"])[0]
        if rng.random() < 0.5:
            src["pf"].append({"name": "s_only", "dt": "i32", "tail": [], "v": rand_vals(rng, "i32", npnt)})
        wrap = "plain"
        if rng.random() < 0.5:
            src, wrap = meshgen.relabel(rng, src), "sort"
        return {"kind": "mesh", "ref": ref, "src": src, "wrap": wrap}, tags + [f"dim-{dim}", "p6-points>1000", "wrap-" + wrap]
    # many
    ref = copy.deepcopy(manyt[i % len(manyt)])
    names = rng.sample(NAMES_P6, rng.randint(20, len(NAMES_P6))) + [f"f{k}" for k in range(rng.randint(40, 90))]
    _p6_fields(rng, ref, names)
    src = copy.deepcopy(ref)
    tags += vary_fields(rng, ref, src)
    wrap = "plain"
    if rng.random() < 0.4:
        src, wrap = meshgen.relabel(rng, src), "sort"
    tags += [f"types-{len(ref['cells'])}", "p6-compatible-pair-in-one-mesh", f"p6-nfields>={10 * ((len(ref['pf']) + len(ref['cf'])) // 10)}"]
    return {"kind": "mesh", "ref": ref, "src": src, "wrap": wrap}, tags + ["wrap-" + wrap]


def gen_p6_table_case(rng, i):
    """directed: > 1000 rows (equal / different row counts, differences at a few positions incl. the last common row), and
    60-120 columns under adversarial names"""
    if i % 2 == 0:
        n1 = rng.randint(1001, 1100)
        n2 = n1 if rng.random() < 0.5 else rng.choice([n1 - 1, n1 + 1, 1000, 1024, n1 - 300, 7])
        names = ["x", "y", "u v"][:rng.randint(1, 3)]
        dts = ["f64", "f32", "i64"]
        tag = "p6-rows>1000"
    else:
        n1 = rng.choice([1, 2, 5])
        n2 = rng.choice([n1, n1, 3])
        names = rng.sample(NAMES_P6, rng.randint(20, len(NAMES_P6))) + [f"f{k}" for k in range(rng.randint(40, 80))]
        dts = ["f64", "f32", "i64", "i32", "u8"]
        tag = "p6-ncols>=60"
    ref = {"n": n1, "idx": None, "cols": []}
    src = {"n": n2, "idx": None, "cols": []}
    for name in names:
        dt = rng.choice(dts)
        v = rand_vals(rng, dt, n1)
        ref["cols"].append({"name": name, "dt": dt, "v": v})
        r = rng.random()
        if r < 0.1 and len(names) > 3:
            continue
        w = (v * (n2 // max(n1, 1) + 1))[:n2] if n1 else rand_vals(rng, dt, n2)
        m = min(n1, n2)
        for pos in {0, m - 1, min(m - 1, 999), min(m - 1, 1000), rng.randrange(max(m, 1))}:
            if 0 <= pos < n2 and rng.random() < 0.6:
                w[pos] = perturb(rng, [w[pos]] * 3, dt)[0]
        src["cols"].append({"name": name, "dt": dt, "v": w})
    if rng.random() < 0.5:
        src["cols"].append({"name": "s only", "dt": "i64", "v": rand_vals(rng, "i64", n2)})
    rng.shuffle(src["cols"])
    if n2 and rng.random() < 0.3:
        idx = list(range(n2))
        rng.shuffle(idx)
        src["idx"] = idx
    return {"kind": "table", "ref": ref, "src": src}, [tag, f"rows-{'equal' if n1 == n2 else 'differ'}"]


P6_LAYOUTS = [
    {"sdir": "results", "rdir": "reference", "sname": "out", "rname": "out"},                 # same base name, two directories
    {"sdir": "run 1/res ults", "rdir": "", "sname": "my result.v2", "rname": "ref.v2"},       # blanks, several dots
    {"sdir": "", "rdir": "deep/er/ref", "sname": "res", "rname": "res", "rel": True},         # relative paths, cwd = work dir
    {"sdir": "a/b", "rdir": "a", "sname": "diff_x", "rname": "x", "rel": True},               # source name starts with diff_
    {"sdir": "émile", "rdir": "émile", "sname": "Δt=0.1", "rname": "reference-Δt=0.1"},       # unicode
    {"sdir": "s", "rdir": "r", "sname": ".hidden", "rname": "UPPER.VTU"},
]
P6_OPTS = [[], ["--exclude-fields", "*"], ["--include-fields", "p0"], ["-rtol", "1e-7", "-atol", "1e-12"],
           ["--ignore-missing-source-fields", "--ignore-missing-reference-fields"], ["--disable-mesh-orphan-point-removal"],
           ["--verbosity", "0"], ["--exclude-fields", "p*", "--exclude-fields", "c*"]]


def gen_p6_cli_case(rng, i):
    """directed: the CLI's --diff with odd file names / directories (the diff must appear next to the SOURCE file), option
    combinations that must not influence the diff (filters, ignore-missing, verbosity, tolerances far below the point
    distances - the tolerances also steer mesh equality / sorting, so large ones leave "identical or permuted meshes"), and unconnected points
    anywhere (not only appended) on either side together with value differences"""
    c, tags = gen_cli_mesh_case(rng)
    c["layout"] = P6_LAYOUTS[i % len(P6_LAYOUTS)]
    c["opts"] = P6_OPTS[(i // len(P6_LAYOUTS) + i) % len(P6_OPTS)]
    where = ["first", "middle", "scattered", "last", "none"][i % 5]
    if where != "none":
        key = "a" if (i // 5) % 2 == 0 else "b"
        c[key] = insert_orphans(rng, c[key], where, rng.randint(1, 2))
        tags.append(f"p6-cli-orphans-{'source' if key == 'a' else 'reference'}-{where}")
    return c, tags + ["p6-cli", f"p6-cli-layout-{i % len(P6_LAYOUTS)}", "p6-cli-opts-" + ("+".join(o for o in c["opts"] if o.startswith("-")) or "none")]


# ---------------------------------------------------------------- driver of the check

def run(ctx):
    ctx.rule = ("cases: (i) one array subtraction per dtype pair (11x11 numeric dtypes, plain/extreme values); (ii) src.diff_to(ref) on "
                "generated meshes (1-3 d, 1-2 cell types, point/cell fields of 10 dtypes, scalar/vector/tensor) with perturbed values, "
                "dtype mixes, one-sided fields on either side, shuffled field order, plain / sort / sort_cells views; (iii) tables with "
                "different row counts, index maps, string columns; (iv) files written by `fieldcompare file a b --diff` for relabeled and "
                "varied meshes and CSV tables. non-trivial = at least one finite non-zero difference (mesh/cli), rows differ or non-zero "
                "(table); distinct = distinct (inputs, output)")
    ctx.assumptions += [
        "numpy elementwise subtraction = one correctly rounded operation in the promoted type (NEP 50 table modelled in Fc.promote; compared per dtype pair on every run)",
        "input arrays hold finite numbers (NaN/inf inputs are outside the model)",
        "mesh equality (`domain.equals`) and `sort` enter the C14 model as parameters (owned by C16/C03 and C02/C08)",
        "reading the written files back uses fieldcompare's own readers (owned by C05/C07/C13); CSV diff files additionally an independent decoder",
    ]
    rng = ctx.rng
    # (1) arrays
    subs = [gen_sub_case(rng) for _ in range(ctx.scale(1500, 60000))]
    # every dtype pair at least once
    for d1 in ALL_DT:
        for d2 in ALL_DT:
            c = gen_sub_case(rng)
            n = len(c["a"]["v"])
            c["a"] = {"dt": d1, "shape": c["a"]["shape"], "v": rand_vals(rng, d1, n, "extreme")}
            c["b"] = {"dt": d2, "shape": c["b"]["shape"], "v": rand_vals(rng, d2, n, "extreme")}
            subs.append(c)
    lines = [f"c14sub {predio.enc_arr(c['a'])} {predio.enc_arr(c['b'])}" for c in subs]
    replies = ctx.lean(lines) if ctx.driver_ok else [None] * len(subs)
    for c, rep in zip(subs, replies):
        out = impl_sub(c)
        ctx.case(("sub", out, c["a"]["dt"], c["b"]["dt"], tuple(c["a"]["v"]), tuple(c["b"]["v"])),
                 nontrivial=len(c["a"]["v"]) > 0, tags=["sub", f"sub-{c['a']['dt']}-{c['b']['dt']}"],
                 sample={"case": c, "impl": out, "lean": rep})
        if rep is not None and rep.get("model") != out:
            ctx.mismatch(c, out, rep.get("model"), what="numpy a-b vs Fc.subArr")
        if result_is_f64(c["a"]["dt"], c["b"]["dt"]):
            vals = out.rsplit("|", 1)[1].split(",") if c["a"]["v"] else []
            for i, (x, y) in enumerate(zip(c["a"]["v"], c["b"]["v"])):
                o = oracle_f64(x, y)
                if o != "?" and o != vals[i]:
                    ctx.inconsistent(c, f"numpy {vals[i]}", f"python-oracle {o}")
                    break
    # (2) meshes
    n_mesh = ctx.scale(450, 25000)
    CH = 150
    for i in range(0, n_mesh, CH):
        cs, ts = [], []
        for _ in range(min(CH, n_mesh - i)):
            c, t = gen_mesh_case(rng)
            cs.append(c); ts.append(t)
        eval_mesh_cases(ctx, cs, ts)
    # (2b) phase 6 directed mesh batch
    manyt = many_type_meshes()
    n_p6 = ctx.scale(96, 2400)
    plan = [(i, None) for i in range(n_p6)] + [(i, "many") for i in range(ctx.scale(2, 80))] + \
           [(i, "big") for i in range(ctx.scale(1, 20))]
    for i0 in range(0, len(plan), 48):
        cs, ts = [], []
        for i, var in plan[i0:i0 + 48]:
            c, t = gen_p6_mesh_case(rng, i, manyt, var)
            cs.append(c); ts.append(t)
        eval_mesh_cases(ctx, cs, ts)
    cs, ts = [], []
    for i in range(ctx.scale(2, 100)):
        c, t = gen_p6_table_case(rng, i)
        cs.append(c); ts.append(t)
    eval_table_cases(ctx, cs, ts)
    ctx.notes.append("phase-6 directed parts: in-process sort(src).diff_to(sort(ref)) for src = relabel(ref) with unconnected points "
                     "anywhere on either side; a transformed view against a plain data set stored in the same order (either role); "
                     "> 1000 points / rows; 60-130 fields under adversarial names on meshes with 5-6 cell types; every diff_to is "
                     "called twice and the operands are inspected afterwards; --diff with odd file names / directories / relative "
                     "paths / option combinations / unconnected points anywhere")
    # (3) tables
    cs, ts = [], []
    for _ in range(ctx.scale(500, 20000)):
        c, t = gen_table_case(rng)
        cs.append(c); ts.append(t)
    eval_table_cases(ctx, cs, ts)
    # (4) CLI
    workroot = tempfile.mkdtemp(prefix="fcv_c14_")
    try:
        cs, ts = [], []
        for _ in range(ctx.scale(60, 2500)):
            c, t = gen_cli_mesh_case(rng)
            cs.append(c); ts.append(t)
        eval_cli_mesh_cases(ctx, cs, ts, workroot)
        cs, ts = [], []
        for i in range(ctx.scale(36, 480)):
            c, t = gen_p6_cli_case(rng, i)
            cs.append(c); ts.append(t)
        eval_cli_mesh_cases(ctx, cs, ts, workroot)
        cs, ts = [], []
        for _ in range(ctx.scale(40, 1500)):
            c, t = gen_cli_csv_case(rng)
            cs.append(c); ts.append(t)
        eval_cli_csv_cases(ctx, cs, ts, workroot)
    finally:
        shutil.rmtree(workroot, ignore_errors=True)
    ctx.spec_viol = ctx.spec_viol[:40]
    ctx.corr_mismatch = ctx.corr_mismatch[:40]


# ---------------------------------------------------------------- replay

def _replay_case(ctx, c):
    """-> list of complaints"""
    n0 = (len(ctx.spec_viol), len(ctx.corr_mismatch), len(ctx.internal))
    kind = c.get("kind")
    if kind == "mesh":
        eval_mesh_cases(ctx, [c], [[]])
    elif kind == "table":
        eval_table_cases(ctx, [c], [[]])
    elif kind in ("cli-mesh", "cli-csv"):
        root = tempfile.mkdtemp(prefix="fcv_c14_")
        try:
            (eval_cli_mesh_cases if kind == "cli-mesh" else eval_cli_csv_cases)(ctx, [c], [[]], root)
        finally:
            shutil.rmtree(root, ignore_errors=True)
    elif kind == "sub":
        out = impl_sub(c)
        rep = ctx.lean([f"c14sub {predio.enc_arr(c['a'])} {predio.enc_arr(c['b'])}"])[0] if ctx.driver_ok else None
        if rep is not None and rep.get("model") != out:
            ctx.mismatch(c, out, rep.get("model"))
    else:
        raise ValueError(f"unknown case kind {kind!r}")
    return ctx.spec_viol[n0[0]:] + ctx.corr_mismatch[n0[1]:] + ctx.internal[n0[2]:]


def replay_witness(ctx, entry):
    w = entry["witness"]
    if isinstance(w, dict) and "fn" in w:
        from fcv import core
        return core.run_named_witness(entry)
    found = _replay_case(ctx, w)
    return bool(found), found[:1]


def replay(ctx, payload):
    c = payload.get("case") or (payload.get("first_mismatch") or {}).get("case")
    if c is None:
        print("replay: no case in the payload (broken proof / driver build): re-run the check")
        return 2
    found = _replay_case(ctx, c)
    if found:
        print(f"replay: still failing: {str(found[0])[:600]}")
        print(f"VIOLATION property=C14 replay={payload.get('_path', '<replay>')}")
        return 1
    print("replay: the case passes now")
    return 0
