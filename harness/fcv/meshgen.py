"""Logical meshes: generation, relabeling, conversion to/from fieldcompare objects, protocol encoding
and an implementation-independent computation of the geometric content.

A *logical mesh* (lm) is a plain dict, never a fieldcompare object:

  {"dim": d,                                   # coordinate columns
   "points": [[x, ...], ...],                  # python floats
   "cells": [[type_name, [[i, ...], ...]], …], # cell-type blocks in mesh order
   "pf": [{"name", "dt", "tail": [..], "v": flat list}],           # point fields, shape = [npoints] + tail
   "cf": [{"name", "ctype", "dt", "tail": [..], "v": flat list}]}  # cell fields on the cells of `ctype`
"""
from __future__ import annotations
import copy
import math

import numpy as np

from .num import f2u
from .predio import NP_DT

NCORNERS = {"VERTEX": 1, "LINE": 2, "TRIANGLE": 3, "QUAD": 4, "PIXEL": 4, "TETRA": 4, "HEXAHEDRON": 8,
            "VOXEL": 8, "PYRAMID": 5, "POLYGON": None}


# ---------------------------------------------------------------- conversion

def celltype(name: str):
    from fieldcompare.mesh import CellType
    return CellType.from_name(name)


def _values_array(f, n):
    return np.array(f["v"], dtype=NP_DT[f["dt"]]).reshape([n] + list(f["tail"]))


def to_fc(lm):
    """logical mesh -> fieldcompare.mesh.MeshFields (fresh arrays)"""
    from fieldcompare.mesh import Mesh, MeshFields
    pts = np.array(lm["points"], dtype=np.float64).reshape(len(lm["points"]), lm["dim"])
    # "conn_dtype" (optional): the integer type the connectivity arrays are stored with (default int64); a narrow type is
    # legitimate as long as it can hold every index that occurs in a cell
    cdt = NP_DT[lm["conn_dtype"]] if lm.get("conn_dtype") else np.int64
    conn = [(celltype(t), np.array(rows, dtype=cdt).reshape(len(rows), -1 if rows else (NCORNERS[t] or 0)))
            for t, rows in lm["cells"]]
    mesh = Mesh(pts, conn)
    pd = {f["name"]: _values_array(f, len(lm["points"])) for f in lm["pf"]}
    names = []
    for f in lm["cf"]:
        if f["name"] not in names:
            names.append(f["name"])
    cd = {}
    for name in names:
        per_type = []
        for t, rows in lm["cells"]:
            fs = [f for f in lm["cf"] if f["name"] == name and f["ctype"] == t]
            if not fs:
                raise ValueError(f"cell field {name} missing on {t}: MeshFields needs every field on every type")
            per_type.append(_values_array(fs[0], len(rows)))
        cd[name] = per_type
    return MeshFields(mesh, pd, cd)


def _np_dt_name(arr) -> str:
    for k, v in NP_DT.items():
        if arr.dtype == np.dtype(v):
            return k
    raise ValueError(f"unsupported dtype {arr.dtype}")


def from_fc(fields):
    """fieldcompare MeshFields-like -> logical mesh, through the public accessors only"""
    from fieldcompare.mesh._mesh_fields import remove_cell_type_suffix
    dom = fields.domain
    pts = np.asarray(dom.points)
    lm = {"dim": int(pts.shape[1]) if pts.ndim == 2 else 1, "points": [[float(c) for c in np.atleast_1d(p)] for p in pts],
          "cells": [], "pf": [], "cf": []}
    for ct in dom.cell_types:
        conn = np.asarray(dom.connectivity(ct))
        lm["cells"].append([ct.name, [[int(i) for i in row] for row in conn]])
    for f in fields.point_fields:
        v = np.asarray(f.values)
        lm["pf"].append({"name": f.name, "dt": _np_dt_name(v), "tail": list(v.shape[1:]), "v": v.flatten().tolist()})
    for f, ct in fields.cell_fields_types:
        v = np.asarray(f.values)
        lm["cf"].append({"name": remove_cell_type_suffix(ct, f.name), "ctype": ct.name, "dt": _np_dt_name(v),
                         "tail": list(v.shape[1:]), "v": v.flatten().tolist()})
    return lm


# ---------------------------------------------------------------- protocol encoding

def _tok(name: str) -> str:
    return name.replace("%", "%25").replace(" ", "%20") or "%00"


def _enc_vals(dt, vals):
    if dt in ("f64", "f32", "f16"):
        return [str(f2u(float(x))) for x in vals]
    return [str(int(x)) for x in vals]


def enc_mesh(lm) -> str:
    toks = [str(lm["dim"]), str(len(lm["points"]))]
    for p in lm["points"]:
        toks += [str(f2u(c)) for c in p]
    toks.append(str(len(lm["cells"])))
    for t, rows in lm["cells"]:
        k = len(rows[0]) if rows else (NCORNERS[t] or 0)
        toks += [t, str(len(rows)), str(k)]
        for r in rows:
            toks += [str(i) for i in r]
    return " ".join(toks)


def _enc_field_arr(f, n):
    shape = [n] + list(f["tail"])
    vals = _enc_vals(f["dt"], f["v"])
    return f"{f['dt']} {len(shape)} {' '.join(map(str, shape))} {len(vals)} {' '.join(vals)}".replace("  ", " ").strip()


def enc_fields(lm) -> str:
    toks = [enc_mesh(lm), str(len(lm["pf"]))]
    for f in lm["pf"]:
        toks += [_tok(f["name"]), _enc_field_arr(f, len(lm["points"]))]
    toks.append(str(len(lm["cf"])))
    ncells = {t: len(rows) for t, rows in lm["cells"]}
    for f in lm["cf"]:
        toks += [_tok(f["name"]), f["ctype"], _enc_field_arr(f, ncells[f["ctype"]])]
    return " ".join(toks)


# ---------------------------------------------------------------- geometric content (independent oracle)

def _rowsize(tail):
    r = 1
    for d in tail:
        r *= d
    return r


def _canon(dt, x):
    # floats as exact unit counts (so that 0.0 == -0.0, like the model), ints as ints
    return f2u(float(x)) if dt in ("f64", "f32", "f16") else int(x)


def content(lm):
    """(sorted list of point items over connected points, sorted list of cell items):
    the data set as a geometric object, independent of numbering.  Items are nested tuples."""
    connected = set()
    for _, rows in lm["cells"]:
        for r in rows:
            connected.update(r)
    coords = [tuple(f2u(c) for c in p) for p in lm["points"]]
    pitems = []
    for p in sorted(connected):
        vals = []
        for f in lm["pf"]:
            rs = _rowsize(f["tail"])
            vals.append((f["name"], f["dt"], tuple(_canon(f["dt"], x) for x in f["v"][p * rs:(p + 1) * rs])))
        pitems.append((coords[p], tuple(vals)))
    citems = []
    for t, rows in lm["cells"]:
        for c, r in enumerate(rows):
            vals = []
            for f in lm["cf"]:
                if f["ctype"] != t:
                    continue
                rs = _rowsize(f["tail"])
                vals.append((f["name"], f["dt"], tuple(_canon(f["dt"], x) for x in f["v"][c * rs:(c + 1) * rs])))
            citems.append((t, tuple(coords[i] for i in r), tuple(vals)))
    return sorted(pitems), sorted(citems)


# ---------------------------------------------------------------- generation

def _embed(rng, topo_dim, dim):
    """choose which coordinate axes carry the lattice directions"""
    axes = list(range(dim))
    rng.shuffle(axes)
    return sorted(axes[:topo_dim])


def gen_mesh(rng, max_cells_per_dir=4, dims=(1, 2, 3), allow_orphans=True, allow_duplicates=True,
             fields=True, types=None, scale=None, dtypes=("f64", "f64", "f32", "i32", "i64")):
    """lattice-based logical mesh; returns lm and a dict of generation tags"""
    dim = rng.choice(dims)
    topo = rng.randint(1, dim)
    n = [rng.randint(1, max_cells_per_dir) for _ in range(topo)]
    axes = _embed(rng, topo, dim)
    sc = scale if scale is not None else rng.choice([1e-6, 1e-3, 1.0, 1.0, 2.5, 1e3, 1e6])
    off = rng.choice([0.0, 0.0, 1.0, -3.0, 1e3]) * (sc if rng.random() < 0.7 else 1.0)
    const = [rng.choice([0.0, 0.0, 1.0, -2.0]) * sc for _ in range(dim)]
    jitter = rng.choice([0.0, 0.0, 0.3])
    # lattice points
    shape = [k + 1 for k in n]
    idx = {}
    points = []

    def lattice_points():
        import itertools
        for t in itertools.product(*[range(s) for s in reversed(shape)]):
            yield tuple(reversed(t))
    for t in lattice_points():
        p = list(const)
        for a, i in zip(axes, t):
            p[a] = off + sc * (i + (rng.uniform(-jitter, jitter) if jitter else 0.0))
        idx[t] = len(points)
        points.append(p)
    # cells
    blocks = {}

    def add(tname, row):
        blocks.setdefault(tname, []).append(row)
    style = types or rng.choice({1: ["line"], 2: ["quad", "pixel", "tri", "mixed2", "poly"],
                                 3: ["hex", "voxel", "tet", "mixed3"]}[topo])
    import itertools
    for c in itertools.product(*[range(k) for k in n]):
        if topo == 1:
            add("LINE", [idx[(c[0],)], idx[(c[0] + 1,)]])
        elif topo == 2:
            i, j = c
            p00, p10, p11, p01 = idx[(i, j)], idx[(i + 1, j)], idx[(i + 1, j + 1)], idx[(i, j + 1)]
            s = style if style != "mixed2" else rng.choice(["quad", "tri"])
            if s == "quad":
                add("QUAD", [p00, p10, p11, p01])
            elif s == "pixel":
                add("PIXEL", [p00, p10, p01, p11])
            elif s == "poly":
                add("POLYGON", [p00, p10, p11, p01])
            else:
                add("TRIANGLE", [p00, p10, p11]); add("TRIANGLE", [p00, p11, p01])
        else:
            i, j, k = c
            v = [idx[(i + a, j + b, k + d)] for d in (0, 1) for b in (0, 1) for a in (0, 1)]  # voxel order
            s = style if style != "mixed3" else rng.choice(["hex", "tet"])
            if s == "voxel":
                add("VOXEL", v)
            elif s == "hex":
                add("HEXAHEDRON", [v[0], v[1], v[3], v[2], v[4], v[5], v[7], v[6]])
            else:
                for tet in ([0, 1, 3, 7], [0, 1, 5, 7], [0, 2, 3, 7], [0, 2, 6, 7], [0, 4, 5, 7], [0, 4, 6, 7]):
                    add("TETRA", [v[q] for q in tet])
    order = list(blocks)
    rng.shuffle(order)
    cells = [[t, blocks[t]] for t in order]
    tags = {"dim": dim, "topo": topo, "style": style, "jitter": jitter, "scale": sc}
    # coincident duplicate points owned by different cells (discontinuous / non-conforming meshes)
    if allow_duplicates and rng.random() < 0.3:
        frac = rng.choice([0.3, 1.0])
        seen = set()
        for t, rows in cells:
            for r in rows:
                for q, p in enumerate(r):
                    if p in seen and rng.random() < frac:
                        points.append(list(points[p]))
                        r[q] = len(points) - 1
                    seen.add(p)
        tags["duplicates"] = frac
    # orphan points
    if allow_orphans and rng.random() < 0.3:
        k = rng.randint(1, 3)
        for _ in range(k):
            points.append([off + sc * rng.uniform(-1, max(n) + 1) for _ in range(dim)])
        tags["orphans"] = k
    lm = {"dim": dim, "points": points, "cells": cells, "pf": [], "cf": []}
    if fields:
        add_fields(rng, lm, dtypes)
    return lm, tags


_counter = [0]


def _distinct_values(rng, dt, count):
    """pairwise distinct values so that a mis-association can never cancel"""
    base = rng.randint(1, 1000)
    if dt in ("i32", "i64", "i8", "i16", "u8", "u16", "u32", "u64"):
        return [base + 3 * i for i in range(count)]
    if dt == "f32":
        return [float(np.float32(base + 0.5 * i)) for i in range(count)]
    return [base + 0.25 * i + (rng.random() * 0.001) for i in range(count)]


def add_fields(rng, lm, dtypes=("f64", "f64", "f32", "i32", "i64")):
    npnt = len(lm["points"])
    d = lm["dim"]
    for k in range(rng.randint(0, 3)):
        dt = rng.choice(dtypes)
        tail = rng.choice([[], [], [d], [3], [d, d]])
        lm["pf"].append({"name": f"p{k}", "dt": dt, "tail": tail,
                         "v": _distinct_values(rng, dt, npnt * _rowsize(tail))})
    for k in range(rng.randint(0, 2)):
        dt = rng.choice(dtypes)
        tail = rng.choice([[], [], [d], [d, d]])
        for t, rows in lm["cells"]:
            lm["cf"].append({"name": f"c{k}", "ctype": t, "dt": dt, "tail": tail,
                             "v": _distinct_values(rng, dt, len(rows) * _rowsize(tail))})
    return lm


# ---------------------------------------------------------------- relabeling (same mesh, different storage order)

def relabel(rng, lm, noise_rel=0.0, extra_orphans=0, shuffle_blocks=True, point_perm=None):
    """same geometric object, stored differently: permuted points, permuted cells within each type,
    permuted type blocks, optional coordinate noise (relative to max |coordinate|), extra orphan points"""
    lm = copy.deepcopy(lm)
    npnt = len(lm["points"])
    perm = list(range(npnt))            # new index -> old index
    if point_perm is None:
        rng.shuffle(perm)
    else:
        perm = list(point_perm)
    inv = [0] * npnt
    for new, old in enumerate(perm):
        inv[old] = new
    maxc = max([abs(c) for p in lm["points"] for c in p] + [0.0])
    pts = []
    for new in range(npnt):
        p = list(lm["points"][perm[new]])
        if noise_rel:
            p = [c + rng.uniform(-1, 1) * noise_rel * maxc for c in p]
        pts.append(p)
    out = {"dim": lm["dim"], "points": pts, "cells": [], "pf": [], "cf": []}
    for f in lm["pf"]:
        rs = _rowsize(f["tail"])
        v = []
        for new in range(npnt):
            v += f["v"][perm[new] * rs:(perm[new] + 1) * rs]
        out["pf"].append(dict(f, v=v))
    cperms = {}
    for t, rows in lm["cells"]:
        cp = list(range(len(rows)))
        rng.shuffle(cp)
        cperms[t] = cp
        out["cells"].append([t, [[inv[i] for i in rows[c]] for c in cp]])
    for f in lm["cf"]:
        rs = _rowsize(f["tail"])
        v = []
        for c in cperms[f["ctype"]]:
            v += f["v"][c * rs:(c + 1) * rs]
        out["cf"].append(dict(f, v=v))
    if shuffle_blocks:
        order = list(range(len(out["cells"])))
        rng.shuffle(order)
        out["cells"] = [out["cells"][i] for i in order]
    for _ in range(extra_orphans):
        out["points"].append([rng.uniform(-1, 1) * (maxc or 1.0) for _ in range(lm["dim"])])
        for f in out["pf"]:
            f["v"] = f["v"] + [0 if f["dt"][0] in "iu" else 0.0] * _rowsize(f["tail"])
    return out
