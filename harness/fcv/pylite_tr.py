"""Translator library: small pure functions of fieldcompare, from the source TEXT (ast, never imported) into the
Lean AST `Fc.PyLite` (lean/FcModel/PyLite.lean).

Used by the extractor modules `harness/fcv/tables/pylite_cXX.py` (one per property, `PROPERTIES = ["Cxx"]`): every
entry of a module's FUNCS becomes `def cxx<Name>Src : Fc.PyLite.Fn` in FcGen/Tables.lean (namespace Fc.Gen),
regenerated on every run.  The theorems `Fc.Cxx_source_<fn>` (lean/FcProofs/Props/Cxx_Source.lean) prove that
interpreting the translated body is the model function of the owning package for ALL inputs; a source change of the
function changes the AST and the theorem is re-checked by `lake build`.

What is translated (everything else raises TranslationError; the frozen rendering of the module is then used and the
owning property counts as "proof obligation broken", see fcv/tables_extract.py):
  * statements: docstrings (dropped), `pass`, assignment to a name / to a tuple of names / to `name[i]`, annotated and
    augmented assignment (`+= -= *= //= %=`), `if/elif/else`, `for <name> in <expr>`, `return`, `yield` (as statement),
    `raise Exc(...)` (class name only: the message is not part of the modelled result), nested `def`s (only as
    inlinable helpers, see below);
  * expressions: int / bool / str / None literals, f-strings (an opaque `str` constant: report texts are not part of
    the modelled result), names, `Enum.member` (enum classes are collected from the source files), attribute access,
    `+ - * // %`, unary `-`/`not`, `and/or`, comparisons incl. chains, `is (not) None`, `(not) in`, conditional
    expressions, tuple/list literals, indexing, `len int bool min max abs range list tuple`, `any(...)`/`all(...)`
    over a generator or an iterable, list comprehensions / generator expressions with one `for`, `reduce(mul, it, init)`;
  * calls of a nested single-`return` helper with simple arguments are inlined;
  * any other call `f(a, …)`, `obj.m(a, …)`, `C()(a, …)` WITHOUT keywords becomes an EXTERNAL call `.ext "f" [a, …]`,
    `.ext ".m" [obj, a, …]`, `.ext "C()" [a, …]`; starred arguments are packed: `obj.m(*s, 1)` is
    `.ext ".m*" [obj, s + (1,)]`.  The interpreter takes the meaning of external functions as a parameter, so the
    theorem that uses the translation states (and thereby documents) what is assumed about them; an unexpected new
    call has no meaning there and the theorem breaks.

Additions of phase 4 (see notes/PHASE4_pylite2.md):
  * `d.get(k[, default])` is the builtin `dictGet` (the receiver must be a PyLite dict, anything else is stuck);
    `sum(it)`; `k in d`, `d[k]`, `len(d)` work on dicts;
  * a name that is bound nowhere in the function (module-level constant / table) is the zero-argument external
    `.ext "global <name>" []`; a call of a parameter / local variable `f(a, …)` is `.ext "call" [f, a, …]` (the callee
    is a value, so renaming it does not change the translation);
  * `xs.append(v)` / `xs.remove(v)` as statements on a local list are `xs = xs + [v]` / `xs = remove(xs, v)`.  PyLite has
    value semantics, so the translator only accepts them where Python's shared mutable lists cannot be told apart:
    `xs` is a local (not a parameter) that is only ever bound to fresh lists (`[…]`, comprehension, `list(…)`), is never
    aliased (`y = xs`), and inside `for t in xs:` a mutation of `xs` must be followed by a `return`/`raise` at the end
    of its block (the loop is left before the next item would be fetched);
  * a nested helper that is not a single `return <expr>` is INLINED where it is called as a statement-level condition
    or right-hand side: `if [not] h(a): …`, `x = h(a)`, `x = [e for v in it if [not] h(v)]` (the comprehension is
    written as the loop it abbreviates: `x = []; for v in it: if …: x = x + [e]`).  The helper's parameters and locals
    are renamed apart, its parameters are assigned first, its body becomes `.inlineCall tmp body` (a `return` ends the
    block and binds `tmp`).  Reads of enclosing variables see the current values, as a closure does;
  * `for a, b in it:` is `for t in it: a, b = t`;
  * `[v for v in it]` / `list(v for v in it)` / `list(list(it))` are `list(it)`;
  * `not (a in b)`, `not (a not in b)`, `not (a is b)`, `not (a is not b)` are written as the complementary operator.

Additions of phase 5 (CLI plumbing, see notes/PHASE5_plumbing.md; the first four only with `extract_funcs(..., plumbing=True)`,
so that the renderings of the earlier modules stay byte-identical):
  * a call WITH keyword arguments of something that is not inlined is the external `f(k1=,k2=)` whose arguments are the
    positional ones followed by the keyword values, keywords sorted by name when that cannot change which exception
    is raised first (at most one value is not a plain name / constant / attribute chain), so that reordering the
    keywords does not change the translation;
  * a nested helper that cannot be inlined (its body is outside the subset, e.g. string parsing) and that reads no
    variable of the enclosing function is the OPAQUE external `helper#<k>` (k = its position among the nested defs:
    renaming it changes nothing); the theorem states what it assumes about it;
  * `any(v == y for v in xs)` is `y in xs`; a call `C(x, k=y)` of a class / function defined at module level of the same
    file is written with every argument as a keyword (`C(a=,k=)`), whichever way the source passes them;
  * a constructor `C.__init__` made of `self.<attr> = <expr>` statements is translated as the function returning the dict
    `{"<attr>": value, …}` (attributes in alphabetical order) of what it stores;
  * `if c: return a` directly followed by `return b` (and `if c: return a else: return b`) is `return a if c else b`;
  * `for x in it: if c: return True` directly followed by `return False` is `return any(c for x in it)`;
  * the empty dict literal `{}`; `xs.index(v)`, `zip(xs, ys)`, `d.items()` (builtins of the interpreter);
    `d.setdefault(k, v)` as a statement on a local dict is `t = v; if k not in d: d[k] = t`;
  * `<name>[i].append(v)` is `<name>[i] = <name>[i] + [v]` under the side conditions of `append` on `<name>` and when
    every element ever put into `<name>` is a fresh list (a list display), so that the inner lists are unshared;
  * a comprehension with a tuple target over `zip(a, b, …)` with as many arguments as targets:
    `[e for x, y in zip(a, b)]` is `[e[x := t[0], y := t[1]] for t in zip(a, b)]`;
  * `a, b = h(…)` and `d[k] = h(…)` for a nested multi-statement helper `h` are inlined like `x = h(…)`.

Additions of phase 6 (orchestration code, see notes/PHASE6_A.md; only with `extract_funcs(..., orch=True)`, which implies
`plumbing=True`; earlier renderings stay byte-identical):
  * EFFECTS: a call as a statement (result discarded) that is not a logger call / list mutation is `.yield <call>`: the
    value the external returns is appended to the function's output list = its effect trace;
  * BOUND-METHOD CALLS: `self.m(a, k=b)` for a method `m` of the same class that is translated EARLIER in the same
    module is hoisted out of the expression as the statement `.callFn tmp <m>Src.params <m>Src.body [a, b]` (arguments in the
    order of `m`'s signature, constant defaults filled in).  Hoisting is only done from positions that are evaluated
    unconditionally and exactly once, and only when everything Python evaluates BEFORE the call in that expression is
    a name / constant / attribute chain or an earlier hoisted call (so the order of evaluation is preserved);
    otherwise TranslationError;
  * `try: <one statement> except Exception [as e]: …` is `.tryExcept`; the body must be one statement without effects
    (no `.yield`, only effect-free callees), `e` must not be used outside the handler; no `else` / `finally`, exactly
    one handler, class `Exception` only;
  * `x.attr = e`: `.setAttr`.  For `self` of a method the function is flagged `mutates_self` (such a method cannot be a
    `callFn` callee); for another parameter it is flagged `mutates_params` and every call site must pass a local
    variable that the calling statement rebinds (`q, f = self.m(q)`), so that the caller cannot observe that PyLite
    updated a copy; for a local variable it must only ever be bound by calls and never aliased;
  * `xs.extend(e)` on a local list (conditions of `append`) is `xs = xs + list(e)`;
  * `for _, T in enumerate(it)` with an index variable that is used nowhere is `for T in it`;
  * `f(a)(b)` is `.ext "call" [f(a), b]`; a closed nested def used as a VALUE is the external constant `closure#<k>`;
  * calls of same-file classes/functions: constant defaults of omitted parameters are filled in, keywords are sorted
    when at most one value is not PURE (names, constants, attribute chains, `not`, `and/or`, conditional expressions
    of those);
  * a constructor may also read / `append` to the attributes it has stored (`self._xs.append(v)` on a `self._xs = []`).

Additions of phase 6, second list (refactor round 3, notes/PHASE6_neutral_refactors_round3.md; all of them leave the renderings of the
unchanged source byte-identical, none depends on `plumbing`):
  * `x is E.m` / `x is not E.m` with a member of an Enum class that defines no `__eq__`/`__ne__`/`__hash__` is `==` / `!=`
    (equality of such members IS identity); PyLite's own `is` stays reserved for `None`;
  * `x in {A, B}` / `x not in {A, B}` with a set display of enum members / int, str, bool, None constants is membership in the
    list of the elements (their hash is consistent with `==`);
  * outside the plumbing modules a call `C(a=x, b=y)` of a same-file class / function whose keywords (after the positional
    arguments) fill a prefix of the signature is written positionally (at most one non-trivial value: evaluation order);
  * `math.prod(it)` (`from math import prod` / `import math`) is `reduce(mul, it, 1)`;
  * `super().m(a, …)` inside a method of `class C(B)` with the single base `B` is `B.m(self, a, …)`;
  * a MODULE-LEVEL function of the same file whose body is a single `return <expr>` is inlined like a nested single-return
    helper (so hoisting such a helper out of the function changes nothing); an OPAQUE helper (`opaque=`) that is no longer
    nested is looked for at module level: the only non-inlinable same-file function the body calls keeps the name `helper#k`;
  * `x = E` directly followed by `return R`, `x` bound nowhere else and read exactly once - as the first thing `R` evaluates -
    is `return R[x := E]`;
  * `if a: (if b: S)` without any `else` is `if a and b: S`;
  * `extract_funcs` follows a function that was moved to another private module and re-exported (`from ._x import f`).

Parameters and local variables are alpha-normalised (v0, v1, … in order of first occurrence), so renaming them,
reformatting, comments, docstrings and type annotations do not change the translation at all (the rendering does
not mention the source names either, so the module's status stays 'same').  `names_of(src, funcs)` prints the mapping."""
from __future__ import annotations
import ast

CM = "fieldcompare/_cli/_common.py"
FC = "fieldcompare/_cli/_file_comparison.py"
TS = "fieldcompare/_cli/_test_suite.py"
FDC = "fieldcompare/_field_data_comparison.py"
PR = "fieldcompare/predicates/_predicates.py"
ENC = "fieldcompare/io/vtk/_encoders.py"
HLP = "fieldcompare/io/vtk/_helpers.py"
NU = "fieldcompare/_numpy_utils.py"
TR = "fieldcompare/mesh/_transformations.py"
ENUM_FILES = [TS, FDC]
OPAQUE_STR = "<f-string>"


class TranslationError(Exception):
    pass


_BINOP = {ast.Add: "add", ast.Sub: "sub", ast.Mult: "mul", ast.FloorDiv: "floordiv", ast.Mod: "mod"}
_CMPOP = {ast.Eq: "eq", ast.NotEq: "ne", ast.Lt: "lt", ast.LtE: "le", ast.Gt: "gt", ast.GtE: "ge",
          ast.Is: "is", ast.IsNot: "isNot", ast.In: "isIn", ast.NotIn: "notIn"}
_BUILTIN = {"len": ("len", 1), "int": ("int", 1), "bool": ("bool", 1), "abs": ("abs", 1), "min": ("min", 2),
            "max": ("max", 2), "range": ("range", 1), "list": ("list", 1), "tuple": ("list", 1), "sum": ("sum", 1)}
_CMP_NEG = {"isIn": "notIn", "notIn": "isIn", "is": "isNot", "isNot": "is"}
TRUE = ("lit", ("bool", True))


def _dump(node) -> str:
    return ast.dump(node)[:100]


def find_def(tree: ast.AST, path: str) -> tuple[ast.FunctionDef, list[ast.AST]]:
    """the def at the dotted path and its chain of enclosing scopes (innermost last)"""
    node, scopes = tree, []
    for part in path.split("."):
        cands = [n for n in getattr(node, "body", []) if isinstance(n, (ast.ClassDef, ast.FunctionDef))
                 and n.name == part]
        # a property with a setter appears twice: take the getter (first)
        if not cands:
            raise TranslationError(f"{path}: `{part}` not found")
        scopes.append(node)
        node = cands[0]
    if not isinstance(node, ast.FunctionDef):
        raise TranslationError(f"{path}: not a function")
    return node, scopes


class EnumInfo(dict):
    """{enum class: [members]}; `custom_eq` = the classes that define `__eq__` / `__ne__` / `__hash__` themselves (for all
    others `==` on members IS identity, so `x is E.m` and `x == E.m` are the same decision)"""
    custom_eq: set = frozenset()


def enum_classes(trees) -> dict[str, list[str]]:
    out = EnumInfo()
    custom = set()
    for tree in trees:
        for n in ast.walk(tree):
            if isinstance(n, ast.ClassDef) and any(isinstance(b, ast.Name) and b.id == "Enum" for b in n.bases):
                out[n.name] = [t.id for st in n.body if isinstance(st, ast.Assign)
                               for t in st.targets if isinstance(t, ast.Name)]
                if any(isinstance(m, ast.FunctionDef) and m.name in ("__eq__", "__ne__", "__hash__") for m in n.body):
                    custom.add(n.name)
    out.custom_eq = custom
    return out


def resolve_reexport(src, rel: str, name: str, depth: int = 0):
    """-> (rel2, tree2): the file of the package in which the module-level def / class `name` that `rel` exposes is actually
    defined.  A private function moved to another module and re-exported (`from ._x import name` in `rel`) is followed
    (relative imports only, a few hops); if `rel` defines `name` itself - or nothing can be followed - `rel` is returned."""
    import posixpath
    tree = ast.parse(src(rel))
    if any(isinstance(n, (ast.FunctionDef, ast.ClassDef)) and n.name == name for n in tree.body) or depth > 3:  # noqa: PLR2004
        return rel, tree
    for n in tree.body:
        if isinstance(n, ast.ImportFrom) and n.level > 0 and n.module:
            for a in n.names:
                if (a.asname or a.name) == name:
                    base = posixpath.dirname(rel)
                    for _ in range(n.level - 1):
                        base = posixpath.dirname(base)
                    mod = posixpath.join(base, *n.module.split("."))
                    for cand in (mod + ".py", posixpath.join(mod, "__init__.py")):
                        try:
                            src(cand)
                        except OSError:
                            continue
                        if a.name != name:      # renamed on import: the def has another name there - not followed
                            return rel, tree
                        return resolve_reexport(src, cand, name, depth + 1)
    return rel, tree


def _is_docstring(s) -> bool:
    return isinstance(s, ast.Expr) and isinstance(s.value, ast.Constant) and isinstance(s.value.value, str)


def _simple(e) -> bool:
    """an argument that may be substituted into a helper body (evaluation is pure and cannot raise differently)"""
    if isinstance(e, (ast.Name, ast.Constant)):
        return True
    return isinstance(e, ast.Attribute) and _simple(e.value)


def _pure(e) -> bool:
    """an expression whose evaluation has no effect and raises nothing in PyLite (truth values are data there)"""
    if _simple(e) or isinstance(e, ast.JoinedStr):      # an f-string is an opaque constant of the translation
        return True
    if isinstance(e, ast.IfExp):
        return _pure(e.test) and _pure(e.body) and _pure(e.orelse)
    if isinstance(e, ast.BoolOp):
        return all(_pure(v) for v in e.values)
    if isinstance(e, ast.UnaryOp) and isinstance(e.op, ast.Not):
        return _pure(e.operand)
    if isinstance(e, ast.Compare) and len(e.ops) == 1 and isinstance(e.ops[0], (ast.Is, ast.IsNot)) \
            and isinstance(e.comparators[0], ast.Constant) and e.comparators[0].value is None:
        return _pure(e.left)            # round 7: `x is [not] None` (identity: no user code runs)
    return False


def _pure_b(n, bound=()) -> bool:
    """pure, or built from pure parts by `+ - *` and the interpreter's total builtins `list tuple len bool` (they have no effect
    and raise nothing in PyLite: a wrong type is stuck)"""
    if _pure(n):
        return True
    if isinstance(n, ast.BinOp) and isinstance(n.op, (ast.Add, ast.Sub, ast.Mult)):
        return _pure_b(n.left, bound) and _pure_b(n.right, bound)
    return isinstance(n, ast.Call) and isinstance(n.func, ast.Name) and n.func.id in ("list", "tuple", "len", "bool") \
        and n.func.id not in bound and not n.keywords and len(n.args) == 1 and _pure_b(n.args[0], bound)


def _names_in(nodes) -> set:
    return {n.id for s in nodes for n in ast.walk(s) if isinstance(n, ast.Name)}


def _const_return(s, value) -> bool:
    return isinstance(s, ast.Return) and isinstance(s.value, ast.Constant) and s.value.value is value


def _loop(s):
    """`for <name> in <it>:` without else -> (name, it, body) else None"""
    if isinstance(s, ast.For) and not s.orelse and isinstance(s.target, ast.Name):
        return s.target.id, s.iter, s.body
    return None


def _gen(elt, x, it):
    return ast.GeneratorExp(elt=elt, generators=[ast.comprehension(target=ast.Name(id=x, ctx=ast.Store()), iter=it,
                                                                   ifs=[], is_async=0)])


def _first_evaluated(e):
    """the sub-expression of `e` that Python evaluates first, if that is a plain name (else None)"""
    while True:
        if isinstance(e, ast.Name):
            return e
        if isinstance(e, ast.Call):
            if isinstance(e.func, ast.Name):
                if e.func.id in ("any", "all", "reduce") or not e.args or isinstance(e.args[0], ast.Starred):
                    return None
                e = e.args[0]
            elif isinstance(e.func, ast.Attribute):
                e = e.func.value
            else:
                return None
        elif isinstance(e, ast.Attribute):
            e = e.value
        elif isinstance(e, ast.Subscript):
            e = e.value
        elif isinstance(e, ast.BinOp):
            e = e.left
        elif isinstance(e, ast.Compare):
            e = e.left
        elif isinstance(e, ast.BoolOp):
            e = e.values[0]
        elif isinstance(e, ast.IfExp):
            e = e.test
        elif isinstance(e, ast.UnaryOp):
            e = e.operand
        elif isinstance(e, (ast.Tuple, ast.List)) and e.elts and not isinstance(e.elts[0], ast.Starred):
            e = e.elts[0]
        else:
            return None


def normalise_loops(stmts: list, plumbing=False, no_fuse=None) -> list:
    """Three loop idioms are rewritten into the comprehension form they are equivalent to, so that writing them either
    way gives the same translation (the loop variable must not be used after the loop):
      for x in it: (if not c: return False) ; return True        ->  return all(c for x in it)
      for x in it: (if c: raise E(..))                           ->  if any(c for x in it): raise E(..)
      acc = init ; for x in it: (acc = acc * e | acc *= e) ; return acc   ->  return reduce(mul, (e for x in it), init)"""
    out, i = [], 0
    while i < len(stmts):
        s, nxt = stmts[i], stmts[i + 1:i + 2]
        lp = _loop(s)
        if lp and len(lp[2]) == 1 and isinstance(lp[2][0], ast.If) and not lp[2][0].orelse and len(lp[2][0].body) == 1:
            x, it, (iff,) = lp
            inner, rest = iff.body[0], stmts[i + 1:]
            if _const_return(inner, False) and nxt and _const_return(nxt[0], True) and len(rest) == 1 \
                    and isinstance(iff.test, ast.UnaryOp) and isinstance(iff.test.op, ast.Not):
                call = ast.Call(func=ast.Name(id="all", ctx=ast.Load()), args=[_gen(iff.test.operand, x, it)], keywords=[])
                out.append(ast.Return(value=call))
                i += 2
                continue
            if plumbing and _const_return(inner, True) and nxt and _const_return(nxt[0], False) and len(rest) == 1:
                call = ast.Call(func=ast.Name(id="any", ctx=ast.Load()), args=[_gen(iff.test, x, it)], keywords=[])
                out.append(ast.Return(value=call))
                i += 2
                continue
            if isinstance(inner, ast.Raise) and x not in _names_in(rest):
                call = ast.Call(func=ast.Name(id="any", ctx=ast.Load()), args=[_gen(iff.test, x, it)], keywords=[])
                out.append(ast.If(test=call, body=[inner], orelse=[]))
                i += 1
                continue
        if isinstance(s, ast.Assign) and len(s.targets) == 1 and isinstance(s.targets[0], ast.Name) and nxt \
                and _loop(nxt[0]) and len(stmts) == i + 3:
            acc, (x, it, body), last = s.targets[0].id, _loop(nxt[0]), stmts[i + 2]
            factor = None
            if len(body) == 1 and isinstance(body[0], ast.AugAssign) and isinstance(body[0].op, ast.Mult) \
                    and isinstance(body[0].target, ast.Name) and body[0].target.id == acc:
                factor = body[0].value
            elif len(body) == 1 and isinstance(body[0], ast.Assign) and len(body[0].targets) == 1 \
                    and isinstance(body[0].targets[0], ast.Name) and body[0].targets[0].id == acc \
                    and isinstance(body[0].value, ast.BinOp) and isinstance(body[0].value.op, ast.Mult) \
                    and isinstance(body[0].value.left, ast.Name) and body[0].value.left.id == acc:
                factor = body[0].value.right
            if factor is not None and acc not in _names_in([factor, it]) and acc != x \
                    and isinstance(last, ast.Return) and isinstance(last.value, ast.Name) and last.value.id == acc:
                call = ast.Call(func=ast.Name(id="reduce", ctx=ast.Load()),
                                args=[ast.Name(id="mul", ctx=ast.Load()), _gen(factor, x, it), s.value], keywords=[])
                out.append(ast.Return(value=call))
                i += 3
                continue
        if plumbing and isinstance(s, ast.If) and len(s.body) == 1 and isinstance(s.body[0], ast.Return) \
                and s.body[0].value is not None:
            other = None
            if len(s.orelse) == 1 and isinstance(s.orelse[0], ast.Return) and s.orelse[0].value is not None:
                other, used = s.orelse[0].value, 1
            elif not s.orelse and nxt and isinstance(nxt[0], ast.Return) and nxt[0].value is not None \
                    and len(stmts) == i + 2:
                other, used = nxt[0].value, 2
            if other is not None and no_fuse is not None and (no_fuse(s.body[0].value) or no_fuse(other)):
                other = None        # round 9: a branch calls a translated method: it must stay a statement (hoisting)
            if other is not None:
                out.append(ast.Return(value=ast.IfExp(test=s.test, body=s.body[0].value, orelse=other)))
                i += used
                continue
        out.append(s)
        i += 1
    return out


_MUTATORS = ("append", "extend", "remove", "insert", "pop", "clear", "sort", "reverse", "update", "add", "discard",
             "setdefault", "popitem", "fill", "resize")
_LOG_METHODS = ("debug", "info", "warning", "error", "exception", "critical", "log")


def stdlib_loggers(tree: ast.AST) -> set:
    """module-level names bound to `logging.getLogger(...)` / `getLogger(...)` (stdlib logging: calls of their
    debug/info/... methods only emit log records; log output is outside every modelled result)"""
    out = set()
    for n in getattr(tree, "body", []):
        if isinstance(n, ast.Assign) and len(n.targets) == 1 and isinstance(n.targets[0], ast.Name) \
                and isinstance(n.value, ast.Call):
            f = n.value.func
            if (isinstance(f, ast.Attribute) and f.attr == "getLogger" and isinstance(f.value, ast.Name)
                    and f.value.id == "logging") or (isinstance(f, ast.Name) and f.id == "getLogger"):
                out.add(n.targets[0].id)
    return out


def _arg_defaults(a: ast.arguments) -> dict:
    names = [x.arg for x in a.args]
    return dict(zip(names[len(names) - len(a.defaults):], a.defaults))


class Tr:
    def __init__(self, fn: ast.FunctionDef, enums: dict[str, list[str]], loggers=frozenset(), plumbing=False,
                 opaque=(), module=None, orch=False, cls=None, methods=None, meta=None):
        self.fn, self.enums, self.loggers, self.plumbing, self.module = fn, enums, loggers, plumbing, module
        # phase 6: `cls` = the class (ClassDef) the method lives in (None for functions), `methods` = {method name: lean name}
        # of the methods of that class translated earlier in the module, `meta` = {lean name: facts about the translated callee}
        self.orch, self.cls, self.methods, self.meta = orch, cls, dict(methods or {}), dict(meta or {})
        self.self_name = fn.args.args[0].arg if (orch and cls is not None and fn.args.args) else None
        self.mutates_self, self.mutates_params = False, set()
        self.inline_depth = 0       # nesting of inlined module-level single-return helpers
        self.block_helpers = set()
        self.nested_fns, self.stateful = {}, ()        # round 3: set by translate_function
        self.extern_ops = {}                            # round 9: {"Mult": "mul"}: operators that are externals
        self.helpers = {s.name: s for s in fn.body if isinstance(s, ast.FunctionDef)}
        # helpers that are to be externals although they could be inlined (string parsing, …): given as
        # (name, position among the nested defs); found by name, or - after a renaming - by position
        order = [s.name for s in fn.body if isinstance(s, ast.FunctionDef)]
        self.forced_opaque = set()
        self.module_opaque = {}     # module-level function standing for the opaque helper #k (see below)
        for name, k in opaque:
            if name in self.helpers:
                self.forced_opaque.add(name)
            elif k < len(order):
                self.forced_opaque.add(order[k])
            else:
                # the opaque helper is no longer nested: hoisted to module level (possibly renamed).  It is then the ONLY
                # module-level function of the same file that the body calls and that is not an inlinable single-return
                # helper; it keeps its external name `helper#k` (the theorems are parametric in what it computes, exactly
                # as for the nested helper)
                mod_funcs = {n.name: n for n in getattr(module, "body", []) if isinstance(n, ast.FunctionDef)}
                bound = {a.arg for n in ast.walk(fn) if isinstance(n, (ast.FunctionDef, ast.Lambda)) for a in n.args.args} | \
                        {n.id for n in ast.walk(fn) if isinstance(n, ast.Name) and isinstance(n.ctx, ast.Store)}
                cands = set()
                for c in ast.walk(fn):
                    if isinstance(c, ast.Call) and isinstance(c.func, ast.Name) and c.func.id in mod_funcs \
                            and c.func.id not in bound and c.func.id not in self.helpers and mod_funcs[c.func.id] is not fn:
                        body = [x for x in mod_funcs[c.func.id].body if not _is_docstring(x)]
                        if not (len(body) == 1 and isinstance(body[0], ast.Return)):
                            cands.add(c.func.id)
                if len(cands) != 1 or self.module_opaque:
                    raise TranslationError(f"{fn.name}: no nested helper `{name}` / #{k}")
                self.module_opaque[cands.pop()] = k
        if orch:
            # phase 6, round 2: a def inside a block (`elif …: def _permute(x): …`) is a helper, too, but only an INLINABLE
            # one (never opaque / a closure value); its name must be defined once and not be rebound
            def nested(stmts):
                for st in stmts:
                    if isinstance(st, ast.FunctionDef):
                        yield st
                    elif isinstance(st, (ast.If, ast.For, ast.While, ast.With, ast.Try)):
                        for fld in ("body", "orelse", "finalbody"):
                            yield from nested(getattr(st, fld, []))
                        for h in getattr(st, "handlers", []):
                            yield from nested(h.body)
            for st in fn.body:
                if not isinstance(st, ast.FunctionDef):
                    for d in nested([st]):
                        if d.name in self.helpers:
                            raise TranslationError(f"nested def `{d.name}` defined twice")
                        self.helpers[d.name] = d
                        self.block_helpers.add(d.name)
        self.fresh = 0
        # every name bound somewhere in the function: parameters (also of nested defs / lambdas), assignment / loop /
        # comprehension targets.  Any other name that is used as a value is a module-level one.
        self.params = {a.arg for n in ast.walk(fn) if isinstance(n, (ast.FunctionDef, ast.Lambda)) for a in n.args.args}
        self.bound = set(self.params) | {n.id for n in ast.walk(fn) if isinstance(n, ast.Name)
                                         and isinstance(n.ctx, ast.Store)}
        self.loop_lists = []        # names of the lists the enclosing `for t in <name>` loops iterate over

    # ---------------------------------------------------------------- expressions
    def expr(self, e, sub=None):  # noqa: C901, PLR0911, PLR0912
        sub = sub or {}
        rec = lambda x: self.expr(x, sub)  # noqa: E731
        if isinstance(e, ast.Constant):
            v = e.value
            if isinstance(v, bool):
                return ("lit", ("bool", v))
            if isinstance(v, int):
                return ("lit", ("int", v))
            if isinstance(v, str):
                return ("lit", ("str", v))
            if v is None:
                return ("lit", ("none",))
            if self.orch and isinstance(v, float):
                # round 7: a float literal is the external CONSTANT `float:<repr>` (PyLite has no floats; the theorem says what
                # it stands for, e.g. `0.0` = 0 units)
                return ("ext", "float:" + repr(v), [])
            raise TranslationError(f"unsupported constant {v!r}")
        if isinstance(e, ast.JoinedStr):
            return ("lit", ("str", OPAQUE_STR))
        if isinstance(e, ast.Name):
            if e.id in sub:
                return sub[e.id]
            if self.orch and e.id in self.helpers:
                return self.closure(self.helpers[e.id])
            if e.id in self.helpers or e.id in self.enums:
                raise TranslationError(f"`{e.id}` used as a value")
            if e.id not in self.bound:
                return ("ext", "global " + e.id, [])
            return ("var", e.id)
        if isinstance(e, ast.Attribute):
            if isinstance(e.value, ast.Name) and e.value.id in self.enums and e.value.id not in sub:
                if e.attr not in self.enums[e.value.id]:
                    raise TranslationError(f"{e.value.id}.{e.attr}: no such enum member")
                return ("lit", ("enum", e.value.id, e.attr))
            return ("attr", rec(e.value), e.attr)
        if isinstance(e, ast.BinOp) and self.orch and type(e.op).__name__ in self.extern_ops:
            # round 9: an operator on values PyLite has no arithmetic for (numpy arrays): the external `mul(a, b)` …
            return ("ext", self.extern_ops[type(e.op).__name__], [rec(e.left), rec(e.right)])
        if isinstance(e, ast.BinOp):
            if type(e.op) not in _BINOP:
                raise TranslationError(f"unsupported operator {type(e.op).__name__}")
            return ("bin", _BINOP[type(e.op)], rec(e.left), rec(e.right))
        if isinstance(e, ast.UnaryOp):
            if isinstance(e.op, ast.Not):
                inner = rec(e.operand)
                if inner[0] == "cmp" and inner[1] in _CMP_NEG:
                    return ("cmp", _CMP_NEG[inner[1]], inner[2], inner[3])
                return ("not", inner)
            if isinstance(e.op, ast.USub):
                if isinstance(e.operand, ast.Constant) and type(e.operand.value) is int:
                    return ("lit", ("int", -e.operand.value))
                return ("neg", rec(e.operand))
            raise TranslationError(f"unsupported unary operator {type(e.op).__name__}")
        if isinstance(e, ast.BoolOp):
            tag = "and" if isinstance(e.op, ast.And) else "or"
            vals = [rec(v) for v in e.values]
            out = vals[-1]
            for v in reversed(vals[:-1]):
                out = (tag, v, out)
            return out
        if isinstance(e, ast.Compare):
            parts, left = [], e.left
            for op, right in zip(e.ops, e.comparators):
                if type(op) not in _CMPOP:
                    raise TranslationError(f"unsupported comparison {type(op).__name__}")
                if len(e.ops) > 1 and not _simple(right):
                    raise TranslationError("chained comparison with a non-trivial middle operand")
                opname = _CMPOP[type(op)]
                if opname in ("isIn", "notIn") and isinstance(right, ast.Set) and right.elts \
                        and all(self.hashable_literal(x) for x in right.elts):
                    # `x in {A, B}`: the elements are enum members / constants (hash consistent with ==), so membership in
                    # the set display is membership by `==` in the list of its elements
                    tl, tr_ = rec(left), ("tuple", [rec(x) for x in right.elts])
                else:
                    tl, tr_ = rec(left), rec(right)
                if opname in ("is", "isNot") and any(self.plain_enum_member(t) for t in (tl, tr_)):
                    # identity with a member of an Enum class that does not define its own `__eq__`: the same decision as `==`
                    opname = "eq" if opname == "is" else "ne"
                parts.append(("cmp", opname, tl, tr_))
                left = right
            out = parts[-1]
            for p in reversed(parts[:-1]):
                out = ("and", p, out)
            return out
        if isinstance(e, ast.IfExp):
            return ("ite", rec(e.test), rec(e.body), rec(e.orelse))
        if isinstance(e, (ast.Tuple, ast.List)):
            if any(isinstance(x, ast.Starred) for x in e.elts):
                return self.packed(e.elts, sub)
            return ("tuple", [rec(x) for x in e.elts])
        if isinstance(e, ast.Subscript):
            if isinstance(e.slice, (ast.Slice, ast.Tuple)):
                raise TranslationError("slices / multi-indices are not supported")
            return ("index", rec(e.value), rec(e.slice))
        if isinstance(e, (ast.ListComp, ast.GeneratorExp)):
            x, it, cond, sub2 = self.generator(e, sub)
            if cond == TRUE and isinstance(e.elt, ast.Name) and e.elt.id == x and x not in sub2:
                # `[v for v in it]` is `list(it)`
                return it if it[:2] == ("call", "list") else ("call", "list", [it])
            return ("comp", x, it, self.expr(e.elt, sub2), cond)
        if self.orch and isinstance(e, ast.Call) and isinstance(e.func, ast.Name) and e.func.id == "filter" \
                and "filter" not in self.bound and len(e.args) == 2 and not e.keywords \
                and isinstance(e.args[0], ast.Lambda) and len(e.args[0].args.args) == 1 \
                and not (e.args[0].args.vararg or e.args[0].args.kwarg or e.args[0].args.kwonlyargs or e.args[0].args.defaults):     # noqa: PLR2004
            # round 6: `filter(lambda v: c, xs)` (consumed at once) is `[v for v in xs if c]`
            lam = e.args[0]
            v = lam.args.args[0].arg
            return rec(ast.copy_location(ast.ListComp(elt=ast.Name(id=v, ctx=ast.Load()), generators=[ast.comprehension(
                target=ast.Name(id=v, ctx=ast.Store()), iter=e.args[1], ifs=[lam.body], is_async=0)]), e))
        if isinstance(e, ast.Call):
            return self.call(e, sub)
        if isinstance(e, ast.Dict) and not e.keys and self.plumbing:
            return ("lit", ("dict",))
        raise TranslationError(f"unsupported expression: {_dump(e)}")

    def plain_enum_member(self, t) -> bool:
        return t[0] == "lit" and t[1][0] == "enum" and t[1][1] not in getattr(self.enums, "custom_eq", ())

    def hashable_literal(self, x) -> bool:
        if isinstance(x, ast.Constant):
            return x.value is None or isinstance(x.value, (bool, int, str))
        return isinstance(x, ast.Attribute) and isinstance(x.value, ast.Name) and x.value.id in self.enums \
            and x.value.id not in getattr(self.enums, "custom_eq", ()) and x.attr in self.enums[x.value.id]

    def packed(self, elts, sub):
        """`(*a, b, *c)` as a concatenation of lists"""
        pieces, cur = [], []
        for x in elts:
            if isinstance(x, ast.Starred):
                if cur:
                    pieces.append(("tuple", cur))
                    cur = []
                pieces.append(self.expr(x.value, sub))
            else:
                cur.append(self.expr(x, sub))
        if cur:
            pieces.append(("tuple", cur))
        out = pieces[0]
        for p in pieces[1:]:
            out = ("bin", "add", out, p)
        return out

    def generator(self, e, sub):
        if len(e.generators) != 1:
            raise TranslationError("comprehension with several `for`s")
        g = e.generators[0]
        pairs = isinstance(g.iter, ast.Call) and not g.iter.keywords and (
            (isinstance(g.iter.func, ast.Name) and g.iter.func.id == "zip" and len(g.iter.args) == 2      # noqa: PLR2004
             and "zip" not in self.bound)
            or (isinstance(g.iter.func, ast.Attribute) and g.iter.func.attr == "items" and not g.iter.args))
        if self.plumbing and not g.is_async and isinstance(g.target, ast.Tuple) \
                and all(isinstance(t, ast.Name) for t in g.target.elts) and pairs \
                and len(g.target.elts) == 2 and len({t.id for t in g.target.elts}) == 2:      # noqa: PLR2004
            # every item of `zip(a, b)` / `d.items()` is a pair, so unpacking it cannot fail: the targets are its components
            x = self.tmp()
            self.bound.add(x)
            it = self.expr(g.iter, sub)
            sub2 = {k: v for k, v in sub.items() if k not in [t.id for t in g.target.elts]}
            for k, t in enumerate(g.target.elts):
                sub2[t.id] = ("index", ("var", x), ("lit", ("int", k)))
            cond = TRUE
            if g.ifs:
                conds = [self.expr(c, sub2) for c in g.ifs]
                cond = conds[-1]
                for c in reversed(conds[:-1]):
                    cond = ("and", c, cond)
            return x, it, cond, sub2
        if self.orch and not g.is_async and isinstance(g.target, ast.Tuple) and g.target.elts \
                and all(isinstance(t, ast.Name) for t in g.target.elts) \
                and len({t.id for t in g.target.elts}) == len(g.target.elts):
            # round 6: `… for a, b in it`: the targets are the components `t[0]`, `t[1]` of the item.  (Python raises ValueError
            # for an item of another length; PyLite reads the components it needs - the theorem presents `it` as a list of
            # tuples of that length.)
            x = self.tmp()
            self.bound.add(x)
            it = self.expr(g.iter, sub)
            sub2 = {k: v for k, v in sub.items() if k not in [t.id for t in g.target.elts]}
            for k, t in enumerate(g.target.elts):
                sub2[t.id] = ("index", ("var", x), ("lit", ("int", k)))
            cond = TRUE
            if g.ifs:
                conds = [self.expr(c, sub2) for c in g.ifs]
                cond = conds[-1]
                for c in reversed(conds[:-1]):
                    cond = ("and", c, cond)
            return x, it, cond, sub2
        if g.is_async or not isinstance(g.target, ast.Name):
            raise TranslationError("comprehension target must be a single name")
        x = g.target.id
        it = self.expr(g.iter, sub)
        sub2 = {k: v for k, v in sub.items() if k != x}
        cond = TRUE
        if g.ifs:
            conds = [self.expr(c, sub2) for c in g.ifs]
            cond = conds[-1]
            for c in reversed(conds[:-1]):
                cond = ("and", c, cond)
        return x, it, cond, sub2

    def signature(self, name: str):
        """parameter names of a class (its `__init__` without `self`, or the fields of a dataclass) / function defined
        at module level of the file the translated function lives in; None if unknown or not plain"""
        for n in getattr(self.module, "body", []):
            fn = None
            if isinstance(n, ast.FunctionDef) and n.name == name:
                fn, skip = n, 0
            elif isinstance(n, ast.ClassDef) and n.name == name:
                inits = [m for m in n.body if isinstance(m, ast.FunctionDef) and m.name == "__init__"]
                if inits:
                    fn, skip = inits[0], 1
                elif any((isinstance(d, ast.Name) and d.id == "dataclass") or
                         (isinstance(d, ast.Call) and isinstance(d.func, ast.Name) and d.func.id == "dataclass")
                         for d in n.decorator_list):
                    return [m.target.id for m in n.body if isinstance(m, ast.AnnAssign) and isinstance(m.target, ast.Name)]
                else:
                    return None
            if fn is not None:
                a = fn.args
                if a.vararg or a.kwarg or a.kwonlyargs or a.posonlyargs:
                    return None
                return [x.arg for x in a.args][skip:]
        return None

    def defaults(self, name: str) -> dict:
        """{parameter: default expression} of a class / function defined at module level of the same file"""
        for n in getattr(self.module, "body", []):
            if isinstance(n, ast.FunctionDef) and n.name == name:
                return _arg_defaults(n.args)
            if isinstance(n, ast.ClassDef) and n.name == name:
                inits = [m for m in n.body if isinstance(m, ast.FunctionDef) and m.name == "__init__"]
                if inits:
                    return _arg_defaults(inits[0].args)
                return {m.target.id: m.value for m in n.body if isinstance(m, ast.AnnAssign)
                        and isinstance(m.target, ast.Name) and m.value is not None}
        return {}

    def canonical_call(self, e: ast.Call, sub):
        """`C(x, k=y)` for a callee `C` of the same file whose parameters are known: every argument becomes a keyword
        (`C(a=x, k=y)`), so that writing an argument positionally or by keyword gives the same translation"""
        f = e.func
        if not (self.plumbing and isinstance(f, ast.Name) and f.id not in sub and f.id not in self.bound
                and f.id not in self.helpers and f.id not in _BUILTIN and (e.args or e.keywords)):
            return None
        if any(k.arg is None for k in e.keywords) or any(isinstance(a, ast.Starred) for a in e.args):
            return None
        sig = self.signature(f.id)
        if sig is None or len(e.args) > len(sig) or any(k.arg not in sig for k in e.keywords) \
                or set(sig[:len(e.args)]) & {k.arg for k in e.keywords}:
            return None
        kws = [ast.keyword(arg=sig[i], value=a) for i, a in enumerate(e.args)] + list(e.keywords)
        if self.orch:
            # constant defaults of the parameters that are not given are part of the call
            given = {k.arg for k in kws}
            for pname, d in self.defaults(f.id).items():
                if pname not in given and isinstance(d, ast.Constant):
                    kws.append(ast.keyword(arg=pname, value=d))
        return self.kwcall(ast.Call(func=f, args=[], keywords=kws), sub)

    def kwcall(self, e: ast.Call, sub):
        """a call with keyword arguments of something that is not inlined: external `f(k1=,k2=)`"""
        f = e.func
        if any(k.arg is None for k in e.keywords) or any(isinstance(a, ast.Starred) for a in e.args):
            raise TranslationError(f"call with ** / * and keywords: {_dump(e)}")
        kws = list(e.keywords)
        if sum(1 for k in kws if not (_pure_b(k.value, self.bound) if self.orch else _simple(k.value))) <= 1:
            kws.sort(key=lambda k: k.arg)
        suffix = "(" + ",".join(k.arg + "=" for k in kws) + ")"
        vals = [self.expr(k.value, sub) for k in kws]
        if isinstance(f, ast.Name) and f.id not in sub and f.id not in self.bound and f.id not in self.helpers \
                and f.id not in ("any", "all", "reduce") and f.id not in _BUILTIN:
            return ("ext", f.id + suffix, [self.expr(a, sub) for a in e.args] + vals)
        if isinstance(f, ast.Attribute) and not (isinstance(f.value, ast.Name) and f.value.id[:1].isupper()
                                                 and f.value.id not in sub and f.value.id not in self.enums):
            return ("ext", f".{f.attr}" + suffix, [self.expr(f.value, sub)] + [self.expr(a, sub) for a in e.args] + vals)
        raise TranslationError(f"call with keyword arguments: {_dump(e)}")

    def opaque(self, h: ast.FunctionDef, args, sub):
        """a nested helper whose body is outside the subset, as an external function (it must not read variables of
        the enclosing function: its meaning may then not depend on the state)"""
        if any(isinstance(a, ast.Starred) for a in args):
            raise TranslationError(f"helper {h.name}: starred call")
        own = {a.arg for n in ast.walk(h) if isinstance(n, (ast.FunctionDef, ast.Lambda)) for a in n.args.args} | \
              {n.id for n in ast.walk(h) if isinstance(n, ast.Name) and isinstance(n.ctx, ast.Store)}
        for n in ast.walk(h):
            if isinstance(n, ast.Name) and isinstance(n.ctx, ast.Load) and n.id not in own and n.id in self.bound:
                raise TranslationError(f"helper {h.name} is outside the subset and reads the enclosing variable {n.id}")
            if isinstance(n, (ast.Nonlocal, ast.Global, ast.Yield, ast.YieldFrom)):
                raise TranslationError(f"helper {h.name}: nonlocal / global / yield")
        if h.name in self.block_helpers:
            raise TranslationError(f"helper {h.name} (defined inside a block) cannot be inlined")
        k = [s.name for s in self.fn.body if isinstance(s, ast.FunctionDef)].index(h.name)
        return ("ext", f"helper#{k}", [self.expr(a, sub) for a in args])

    def closure(self, h: ast.FunctionDef):
        """a nested def used as a VALUE (handed on as a callable): the external constant `closure#<k>`; it must not
        read variables of the enclosing function (its meaning would depend on the state)"""
        own = {a.arg for n in ast.walk(h) if isinstance(n, (ast.FunctionDef, ast.Lambda))
               for a in n.args.args + n.args.kwonlyargs + [x for x in (n.args.vararg, n.args.kwarg) if x]} | \
              {n.id for n in ast.walk(h) if isinstance(n, ast.Name) and isinstance(n.ctx, ast.Store)}
        for n in ast.walk(h):
            if isinstance(n, ast.Name) and isinstance(n.ctx, ast.Load) and n.id not in own and n.id in self.bound:
                raise TranslationError(f"nested def {h.name} is used as a value and reads the enclosing variable {n.id}")
            if isinstance(n, (ast.Nonlocal, ast.Global, ast.Yield, ast.YieldFrom)):
                raise TranslationError(f"nested def {h.name}: nonlocal / global / yield")
        if h.name in self.block_helpers:
            raise TranslationError(f"nested def {h.name} (defined inside a block) used as a value")
        k = [s.name for s in self.fn.body if isinstance(s, ast.FunctionDef)].index(h.name)
        return ("ext", f"closure#{k}", [])

    def positional_form(self, e: ast.Call, sub):
        """(modules translated WITHOUT `plumbing`) `C(a=x, b=y)` for a class / function `C` defined at module level of the same
        file whose parameters are known: written with positional arguments in the order of the signature - what the call
        means - provided the keywords (with the positional arguments before them) fill a prefix of the parameters and at most
        one value is not a plain name / constant / attribute chain (so the order of evaluation cannot be observed)"""
        f = e.func
        if self.plumbing or not e.keywords or not isinstance(f, ast.Name) or f.id in sub or f.id in self.bound \
                or f.id in self.helpers or f.id in _BUILTIN:
            return None
        if any(k.arg is None for k in e.keywords) or any(isinstance(a, ast.Starred) for a in e.args):
            return None
        sig = self.signature(f.id)
        given = {k.arg: k.value for k in e.keywords}
        if sig is None or len(given) != len(e.keywords) or len(e.args) + len(given) > len(sig):
            return None
        rest = sig[len(e.args):len(e.args) + len(given)]
        if set(rest) != set(given) or sum(1 for v in given.values() if not _simple(v)) > 1:
            return None
        return ast.Call(func=f, args=list(e.args) + [given[p] for p in rest], keywords=[])

    def module_helper(self, name: str):
        """a module-level function of the same file whose body is a single `return <expr>` over its own parameters, enum
        members and module-level names only (none of which the translated function rebinds): it can be inlined exactly like
        a nested single-return helper, so hoisting such a helper out of the function does not change the translation"""
        for n in getattr(self.module, "body", []):
            if isinstance(n, ast.FunctionDef) and n.name == name and n is not self.fn and not n.decorator_list:
                body = [s for s in n.body if not _is_docstring(s)]
                a = n.args
                if len(body) != 1 or not isinstance(body[0], ast.Return) or body[0].value is None \
                        or a.vararg or a.kwarg or a.kwonlyargs or a.posonlyargs or a.defaults:
                    return None
                params = {p.arg for p in a.args}
                free = {x.id for x in ast.walk(body[0].value) if isinstance(x, ast.Name)} - params
                if free & (self.bound | set(self.helpers)):
                    return None
                if any(isinstance(x, (ast.Lambda, ast.NamedExpr, ast.Yield, ast.YieldFrom, ast.Await))
                       for x in ast.walk(body[0].value)):
                    return None
                return n
        return None

    def super_call(self, e: ast.Call):
        """`super().m(a, …)` inside a method of `class C(B)` with the single base `B` (a plain name) is `B.m(self, a, …)`"""
        f = e.func
        if isinstance(f, ast.Attribute) and isinstance(f.value, ast.Call) and isinstance(f.value.func, ast.Name) \
                and f.value.func.id == "super" and not f.value.args and not f.value.keywords and "super" not in self.bound \
                and isinstance(self.cls, ast.ClassDef) and len(self.cls.bases) == 1 and isinstance(self.cls.bases[0], ast.Name) \
                and not self.cls.keywords and self.fn.args.args:
            me = self.fn.args.args[0].arg
            return ast.Call(func=ast.Attribute(value=ast.Name(id=self.cls.bases[0].id, ctx=ast.Load()), attr=f.attr,
                                               ctx=ast.Load()),
                            args=[ast.Name(id=me, ctx=ast.Load())] + list(e.args), keywords=list(e.keywords))
        return None

    def is_math_prod(self, f) -> bool:
        """`prod` imported from `math` (not rebound) / `math.prod` with `import math`"""
        for n in getattr(self.module, "body", []):
            if isinstance(f, ast.Name) and f.id not in self.bound and f.id not in self.helpers \
                    and isinstance(n, ast.ImportFrom) and n.module == "math" and n.level == 0 \
                    and any((a.asname or a.name) == f.id and a.name == "prod" for a in n.names):
                return True
            if isinstance(f, ast.Attribute) and f.attr == "prod" and isinstance(f.value, ast.Name) \
                    and f.value.id not in self.bound and isinstance(n, ast.Import) \
                    and any((a.asname or a.name) == f.value.id and a.name == "math" for a in n.names):
                return True
        return False

    def call(self, e: ast.Call, sub):  # noqa: C901, PLR0911, PLR0912
        if self.orch and self.is_mcall(e):
            raise TranslationError(f"call of the translated method `{e.func.attr}` in a position it cannot be hoisted from")
        if isinstance(e.func, ast.Name) and e.func.id in self.module_opaque and e.func.id not in sub and not e.keywords \
                and not any(isinstance(a, ast.Starred) for a in e.args):
            return ("ext", f"helper#{self.module_opaque[e.func.id]}", [self.expr(a, sub) for a in e.args])
        sup = self.super_call(e)
        if sup is not None:
            e = sup
        pos = self.positional_form(e, sub)
        if pos is not None:
            e = pos
        canon = self.canonical_call(e, sub)
        if canon is not None:
            return canon
        if e.keywords:
            if self.plumbing:
                return self.kwcall(e, sub)
            raise TranslationError(f"call with keyword arguments: {_dump(e)}")
        f = e.func
        starred = any(isinstance(a, ast.Starred) for a in e.args)
        if len(e.args) == 1 and not starred and self.is_math_prod(f):
            # `math.prod(it)` is `reduce(mul, it, 1)` (product of the items, start value 1)
            return ("call", "reduceMul", [self.expr(e.args[0], sub), ("lit", ("int", 1))])
        if isinstance(f, ast.Name) and f.id not in sub:
            name = f.id
            if name in ("any", "all") and len(e.args) == 1 and not starred:
                tag = "anyOf" if name == "any" else "allOf"
                a = e.args[0]
                if isinstance(a, (ast.GeneratorExp, ast.ListComp)):
                    x, it, cond, sub2 = self.generator(a, sub)
                    if cond != TRUE:
                        raise TranslationError("any/all over a filtered generator")
                    el = a.elt
                    if self.plumbing and name == "any" and isinstance(el, ast.Compare) and len(el.ops) == 1 \
                            and isinstance(el.ops[0], ast.Eq) and isinstance(a.generators[0].target, ast.Name):
                        # `any(v == y for v in xs)` / `any(y == v for v in xs)` is `y in xs` (membership by `==`)
                        sides = [el.left, el.comparators[0]]
                        for k in (0, 1):
                            if isinstance(sides[k], ast.Name) and sides[k].id == x and x not in _names_in([sides[1 - k]]):
                                return ("cmp", "isIn", self.expr(sides[1 - k], sub), it)
                    return (tag, x, it, self.expr(a.elt, sub2))
                self.fresh += 1
                x = f"_it{self.fresh}"
                return (tag, x, self.expr(a, sub), ("var", x))
            if name == "reduce" and len(e.args) == 3 and not starred and isinstance(e.args[0], ast.Name) \
                    and e.args[0].id == "mul":
                return ("call", "reduceMul", [self.expr(e.args[1], sub), self.expr(e.args[2], sub)])
            if name in _BUILTIN and not starred and name not in self.helpers:
                b, arity = _BUILTIN[name]
                if len(e.args) != arity:
                    raise TranslationError(f"{name}() with {len(e.args)} argument(s)")
                targs = [self.expr(a, sub) for a in e.args]
                if b == "list" and targs[0][:2] == ("call", "list"):      # list(list(x)) is list(x)
                    return targs[0]
                return ("call", b, targs)
            if name in self.helpers:
                if not self.plumbing:
                    return self.inline(self.helpers[name], e.args, sub)
                if name in self.forced_opaque:
                    return self.opaque(self.helpers[name], e.args, sub)
                try:
                    return self.inline(self.helpers[name], e.args, sub)
                except TranslationError:
                    return self.opaque(self.helpers[name], e.args, sub)
            if self.plumbing and name == "zip" and len(e.args) == 2 and not starred and name not in self.bound:  # noqa: PLR2004
                return ("call", "zip", [self.expr(a, sub) for a in e.args])
            if name in self.bound:      # a callable VALUE (parameter / local variable)
                if starred:
                    raise TranslationError(f"starred call of the variable {name}")
                return ("ext", "call", [("var", name)] + [self.expr(a, sub) for a in e.args])
            if name in self.module_opaque and not starred:
                return ("ext", f"helper#{self.module_opaque[name]}", [self.expr(a, sub) for a in e.args])
            mh = self.module_helper(name) if not starred and self.inline_depth < 4 else None      # noqa: PLR2004
            if mh is not None and len(mh.args.args) == len(e.args) and all(_simple(a) for a in e.args):
                self.inline_depth += 1
                try:
                    return self.expr(mh.body[-1].value, dict(zip([p.arg for p in mh.args.args],
                                                                  [self.expr(a, sub) for a in e.args])))
                finally:
                    self.inline_depth -= 1
            return self.ext(name, e.args, sub)
        if isinstance(f, ast.Attribute):
            if isinstance(f.value, ast.Name) and f.value.id[:1].isupper() and f.value.id not in sub \
                    and f.value.id not in self.enums:
                # `Class.method(self, …)`: an explicit base-class call
                return self.ext(f"{f.value.id}.{f.attr}", e.args, sub)
            if f.attr == "get" and not starred and len(e.args) in (1, 2):
                dflt = self.expr(e.args[1], sub) if len(e.args) == 2 else ("lit", ("none",))     # noqa: PLR2004
                return ("call", "dictGet", [self.expr(f.value, sub), self.expr(e.args[0], sub), dflt])
            if self.plumbing and f.attr == "items" and not e.args:
                return ("call", "items", [self.expr(f.value, sub)])
            if self.plumbing and f.attr == "index" and not starred and len(e.args) == 1:
                return ("call", "index", [self.expr(f.value, sub), self.expr(e.args[0], sub)])
            if starred:
                return ("ext", f".{f.attr}*", [self.expr(f.value, sub), self.packed(e.args, sub)])
            return ("ext", f".{f.attr}", [self.expr(f.value, sub)] + [self.expr(a, sub) for a in e.args])
        if isinstance(f, ast.Call) and isinstance(f.func, ast.Name) and not f.args and not f.keywords:
            return self.ext(f"{f.func.id}()", e.args, sub)
        if self.orch and isinstance(f, ast.Call) and not starred:
            # `g(a)(b)`: the callee is the VALUE `g(a)`
            return ("ext", "call", [self.expr(f, sub)] + [self.expr(a, sub) for a in e.args])
        raise TranslationError(f"unsupported call: {_dump(e)}")

    def ext(self, name, args, sub):
        if any(isinstance(a, ast.Starred) for a in args):
            return ("ext", name + "*", [self.packed(args, sub)])
        return ("ext", name, [self.expr(a, sub) for a in args])

    def hbody(self, h: ast.FunctionDef) -> list:
        body = [s for s in h.body if not _is_docstring(s)]
        return normalise_loops(body, True) if self.plumbing else body

    def inline(self, h: ast.FunctionDef, args, sub):
        body = self.hbody(h)
        params = [a.arg for a in h.args.args]
        if len(body) != 1 or not isinstance(body[0], ast.Return) or body[0].value is None:
            raise TranslationError(f"helper {h.name}: not a single `return <expr>`")
        if h.args.vararg or h.args.kwarg or h.args.kwonlyargs or len(params) != len(args):
            raise TranslationError(f"helper {h.name}: arity")
        if not all(_simple(a) for a in args):
            raise TranslationError(f"helper {h.name}: called with a non-trivial argument")
        return self.expr(body[0].value, dict(zip(params, [self.expr(a, sub) for a in args])))

    # ---------------------------------------------------------------- statements
    def is_log_call(self, s) -> bool:
        """`<stdlib logger>.debug(<pure arguments>)` as a statement"""
        if not (isinstance(s, ast.Expr) and isinstance(s.value, ast.Call)):
            return False
        c = s.value
        return (isinstance(c.func, ast.Attribute) and c.func.attr in _LOG_METHODS and isinstance(c.func.value, ast.Name)
                and c.func.value.id in self.loggers
                and all(_simple(a) or isinstance(a, ast.JoinedStr) for a in c.args)
                and all(_simple(k.value) for k in c.keywords))

    # ------------------------------------------------------------ helpers with several statements: inlined calls
    def block_helper(self, e):
        """`h(args)` / `not h(args)` for a nested helper `h` that is not a single `return <expr>` -> (h, args, negated)"""
        neg = False
        if isinstance(e, ast.UnaryOp) and isinstance(e.op, ast.Not):
            e, neg = e.operand, True
        if isinstance(e, ast.Call) and isinstance(e.func, ast.Name) and e.func.id in self.helpers and not e.keywords \
                and not any(isinstance(a, ast.Starred) for a in e.args):
            h = self.helpers[e.func.id]
            body = self.hbody(h)
            if not (len(body) == 1 and isinstance(body[0], ast.Return) and body[0].value is not None):
                if self.plumbing and (h.name in self.forced_opaque or not self.inlinable(h, e.args)):
                    return None
                return h, e.args, neg
        return None

    def inlinable(self, h, args) -> bool:
        """can the block of `h` be inlined (translated)?  Tried on a scratch copy of the translator state"""
        import copy
        saved = (set(self.bound), self.fresh, list(self.loop_lists))
        try:
            self.inline_block(h, copy.deepcopy(list(args)), "_probe")
            return True
        except TranslationError:
            return False
        finally:
            self.bound, self.fresh, self.loop_lists = saved

    def inline_block(self, h: ast.FunctionDef, args, target: str) -> list:
        """`target = h(args)` with the body of `h` inlined (parameters and locals of `h` renamed apart)"""
        import copy
        a = h.args
        if a.vararg or a.kwarg or a.kwonlyargs or a.posonlyargs or len(a.args) != len(args):
            raise TranslationError(f"helper {h.name}: arity")
        if any(isinstance(n, (ast.Yield, ast.YieldFrom, ast.Nonlocal, ast.Global, ast.FunctionDef, ast.Lambda))
               for st in h.body for n in ast.walk(st)):
            raise TranslationError(f"helper {h.name}: yield / nonlocal / nested def")
        local = {p.arg for p in a.args} | {n.id for st in h.body for n in ast.walk(st)
                                           if isinstance(n, ast.Name) and isinstance(n.ctx, ast.Store)}
        ren = {n: f"{n}@{h.name}" for n in local}
        body = copy.deepcopy(h.body)
        for st in body:
            for n in ast.walk(st):
                if isinstance(n, ast.Name) and n.id in ren:
                    n.id = ren[n.id]
        self.bound |= set(ren.values())
        pre = [("assign", ren[p.arg], self.expr(x)) for p, x in zip(a.args, args)]
        return pre + [("inlineCall", target, self.block(body))]

    def tmp(self) -> str:
        self.fresh += 1
        return f"_t{self.fresh}"

    def cond_with_helper(self, test):
        """-> (prelude statements, condition expression)"""
        bh = self.block_helper(test)
        if bh is None:
            return [], self.expr(test)
        h, args, neg = bh
        t = self.tmp()
        self.bound.add(t)
        return self.inline_block(h, args, t), (("not", ("var", t)) if neg else ("var", t))

    # ------------------------------------------------------------ list mutation (`append`, `remove`)
    def mutation(self, s):
        """`<name>.append(v)` / `<name>.remove(v)` as a statement -> (name, method, v) else None"""
        if isinstance(s, ast.Expr) and isinstance(s.value, ast.Call) and isinstance(s.value.func, ast.Attribute) \
                and s.value.func.attr in (("append", "remove", "extend") if self.orch else ("append", "remove")) \
                and isinstance(s.value.func.value, ast.Name) \
                and not (self.orch and s.value.func.value.id not in self.bound) \
                and len(s.value.args) == 1 and not s.value.keywords and not isinstance(s.value.args[0], ast.Starred):
            return s.value.func.value.id, s.value.func.attr, s.value.args[0]
        return None

    def nested_append(self, s):
        """`<name>[i].append(v)` as a statement -> (name, i, v) else None"""
        if isinstance(s, ast.Expr) and isinstance(s.value, ast.Call) and isinstance(s.value.func, ast.Attribute) \
                and s.value.func.attr == "append" and isinstance(s.value.func.value, ast.Subscript) \
                and isinstance(s.value.func.value.value, ast.Name) \
                and not isinstance(s.value.func.value.slice, (ast.Slice, ast.Tuple)) \
                and len(s.value.args) == 1 and not s.value.keywords and not isinstance(s.value.args[0], ast.Starred):
            return s.value.func.value.value.id, s.value.func.value.slice, s.value.args[0]
        return None

    def check_unshared_items(self, x: str):
        """every item ever put into the local list `x` is a fresh list (a display / comprehension), `x` itself is only
        bound to list displays of such items, and no item is ever read into a variable that is then mutated: then the
        inner lists are not shared with anything and `x[i].append(v)` is `x[i] = x[i] + [v]`"""
        fresh = lambda v: isinstance(v, (ast.List, ast.ListComp))      # noqa: E731
        self.check_local_list(x)
        for n in ast.walk(self.fn):
            if isinstance(n, (ast.Assign, ast.AnnAssign)) and n.value is not None:
                tg = n.targets if isinstance(n, ast.Assign) else [n.target]
                for t in tg:
                    if isinstance(t, ast.Name) and t.id == x and not (
                            isinstance(n.value, ast.List) and all(fresh(i) for i in n.value.elts)):
                        raise TranslationError(f"`{x}[i]` is mutated but `{x}` is not bound to a display of fresh lists")
                    if isinstance(t, ast.Subscript) and isinstance(t.value, ast.Name) and t.value.id == x \
                            and not fresh(n.value):
                        raise TranslationError(f"`{x}[i]` is mutated but an item that may be shared is stored in `{x}`")
                if isinstance(n.value, ast.Subscript) and isinstance(n.value.value, ast.Name) and n.value.value.id == x:
                    raise TranslationError(f"`{x}[i]` is mutated and an item of `{x}` is aliased")
            if isinstance(n, ast.Call) and isinstance(n.func, ast.Attribute) and isinstance(n.func.value, ast.Name) \
                    and n.func.value.id == x:
                if n.func.attr == "append" and len(n.args) == 1 and fresh(n.args[0]):
                    continue
                if n.func.attr in ("index", "count", "copy"):
                    continue
                raise TranslationError(f"`{x}[i]` is mutated and `{x}.{n.func.attr}(…)` may store or share an item")
            if isinstance(n, ast.For) and isinstance(n.iter, ast.Name) and n.iter.id == x:
                raise TranslationError(f"`{x}[i]` is mutated and `{x}` is iterated over by a loop")

    def check_local_list(self, x: str):
        """value semantics = Python's semantics only for a local that is bound to fresh lists and never aliased"""
        if x in self.params or x not in self.bound:
            raise TranslationError(f"mutation of `{x}`, which is not a local list of this function")
        for n in ast.walk(self.fn):
            if isinstance(n, (ast.Assign, ast.AnnAssign)) and n.value is not None:
                tg = n.targets if isinstance(n, ast.Assign) else [n.target]
                if any(isinstance(t, ast.Name) and t.id == x for t in tg):
                    v = n.value
                    fresh = isinstance(v, (ast.List, ast.ListComp)) or (
                        isinstance(v, ast.Call) and isinstance(v.func, ast.Name) and v.func.id == "list") or (
                        # phase 6: the list a translated method returns, when that is always a fresh unshared list
                        self.is_mcall(v) and self.meta[self.methods[v.func.attr]]["returns_fresh"])
                    if not fresh:
                        raise TranslationError(f"`{x}` is mutated but bound to something that may be shared")
                if isinstance(n.value, ast.Name) and n.value.id == x:
                    if self.orch and self.stored_after_last_mutation(n, x):
                        continue
                    raise TranslationError(f"`{x}` is mutated and aliased")

    def check_augassign(self, s: ast.AugAssign):
        """phase 6 (orch): `x op= e` is IN PLACE in Python when `x` holds a mutable object (a list, a numpy array, …) - every
        alias sees the change -, but `x = x op e` in PyLite (value semantics).  It is accepted only where the two cannot be
        told apart: `x` is a local (not a parameter, not a loop / comprehension / `with` / `except` target) whose every
        binding is an int expression (then `op=` rebinds) or a fresh list under the conditions of `append`; `x[i] op= e`
        only for such a fresh local list whose items are int expressions.  Anything else: TranslationError."""
        def int_expr(e) -> bool:
            if isinstance(e, ast.Constant):
                return type(e.value) in (int, bool)
            if isinstance(e, ast.UnaryOp) and isinstance(e.op, ast.USub):
                return int_expr(e.operand)
            if isinstance(e, ast.BinOp) and type(e.op) in _BINOP:
                return int_expr(e.left) and int_expr(e.right)
            return isinstance(e, ast.Call) and isinstance(e.func, ast.Name) and e.func.id in ("len", "int") \
                and e.func.id not in self.bound

        def bindings(x):
            """the values `x` is bound to by plain assignments; None if it is (also) bound in another way"""
            vals = []
            for n in ast.walk(self.fn):
                if isinstance(n, (ast.Assign, ast.AnnAssign)) and n.value is not None:
                    for t in (n.targets if isinstance(n, ast.Assign) else [n.target]):
                        if isinstance(t, ast.Name) and t.id == x:
                            vals.append(n.value)
                        elif isinstance(t, (ast.Tuple, ast.List)) and any(isinstance(u, ast.Name) and u.id == x
                                                                          for u in ast.walk(t)):
                            return None
                elif isinstance(n, (ast.For, ast.comprehension)) and any(
                        isinstance(u, ast.Name) and u.id == x for u in ast.walk(n.target)):
                    return None
                elif isinstance(n, ast.ExceptHandler) and n.name == x:
                    return None
                elif isinstance(n, ast.withitem) and n.optional_vars is not None and any(
                        isinstance(u, ast.Name) and u.id == x for u in ast.walk(n.optional_vars)):
                    return None
                elif isinstance(n, ast.NamedExpr) and n.target.id == x:
                    return None
            return vals

        tg, what = s.target, f"augmented assignment `{ast.unparse(s.target)} {type(s.op).__name__}= …`"
        if isinstance(tg, ast.Name):
            x = tg.id
            if x in self.params or x not in self.bound:
                raise TranslationError(f"{what}: `{x}` is not a local variable (in place on a shared object?)")
            vals = bindings(x)
            if vals is None or not vals:
                raise TranslationError(f"{what}: `{x}` is bound by a loop / unpacking / with (in place on a shared object?)")
            if all(int_expr(v) for v in vals) and int_expr(s.value):
                return
            if all(isinstance(v, (ast.List, ast.ListComp)) for v in vals) and isinstance(s.op, (ast.Add, ast.Mult)):
                self.check_local_list(x)        # `xs += ys` is `extend` on a fresh, unaliased list
                if x in self.loop_lists:
                    raise TranslationError(f"{what}: `{x}` is iterated over")
                return
            raise TranslationError(f"{what}: `{x}` may hold a shared mutable object (PyLite has value semantics)")
        if isinstance(tg, ast.Subscript) and isinstance(tg.value, ast.Name):
            x = tg.value.id
            vals = bindings(x) if x not in self.params and x in self.bound else None
            if vals and all(isinstance(v, ast.List) and all(int_expr(i) for i in v.elts) or
                            isinstance(v, ast.ListComp) and int_expr(v.elt) or
                            isinstance(v, ast.BinOp) and isinstance(v.op, ast.Mult) and isinstance(v.left, ast.List)
                            and all(int_expr(i) for i in v.left.elts) for v in vals):
                ok_lists = all(isinstance(v, (ast.List, ast.ListComp)) for v in vals)
                if ok_lists:
                    self.check_local_list(x)
                    for n in ast.walk(self.fn):      # items stored later must be ints as well
                        if isinstance(n, ast.Assign) and any(isinstance(t, ast.Subscript) and isinstance(t.value, ast.Name)
                                                             and t.value.id == x for t in n.targets) and not int_expr(n.value):
                            break
                        if isinstance(n, ast.Call) and isinstance(n.func, ast.Attribute) and isinstance(n.func.value, ast.Name) \
                                and n.func.value.id == x and n.func.attr in ("append", "insert", "extend") \
                                and not all(int_expr(a) for a in n.args):
                            break
                    else:
                        return
            raise TranslationError(f"{what}: an item of `{x}` may be a shared mutable object (PyLite has value semantics)")
        raise TranslationError(f"{what}: in place on an attribute / a computed object")

    def stored_after_last_mutation(self, n, x: str) -> bool:
        """`n` (`<target> = x`) is a statement at the top level of the function and no statement after it mentions
        `x.append / remove / extend` or assigns an item of `x`: the shared list is never changed once it is shared"""
        body = self.fn.body
        if not any(n is st for st in body):
            return False
        later = body[[k for k, st in enumerate(body) if st is n][0] + 1:]
        for st in later:
            for m in ast.walk(st):
                if isinstance(m, ast.Attribute) and isinstance(m.value, ast.Name) and m.value.id == x \
                        and m.attr in ("append", "remove", "extend", "insert", "pop", "clear", "sort", "reverse"):
                    return False
                if isinstance(m, ast.Subscript) and isinstance(m.value, ast.Name) and m.value.id == x \
                        and not isinstance(m.ctx, ast.Load):
                    return False
        return True

    def single_use_locals(self, stmts: list) -> list:
        """`x = E` directly followed by `return R` where the local `x` is bound nowhere else, read exactly once in the whole
        function - in `R`, as the FIRST thing `R` evaluates - is `return R[x := E]`: nothing is evaluated between `E` and
        the use, and the binding is dead after the return.  (A result bound to a name just before it is returned.)"""
        import copy
        out, i = [], 0
        while i < len(stmts):
            s, nxt = stmts[i], stmts[i + 1:i + 2]
            tg = None
            if isinstance(s, ast.Assign) and len(s.targets) == 1:
                tg = s.targets[0]
            elif isinstance(s, ast.AnnAssign) and s.value is not None:
                tg = s.target
            if isinstance(tg, ast.Name) and nxt and isinstance(nxt[0], ast.Return) and nxt[0].value is not None \
                    and tg.id not in self.params and tg.id not in self.helpers and self.block_helper(s.value) is None:
                x = tg.id
                stores = sum(1 for n in ast.walk(self.fn) if isinstance(n, ast.Name) and n.id == x
                             and isinstance(n.ctx, ast.Store))
                loads = [n for n in ast.walk(self.fn) if isinstance(n, ast.Name) and n.id == x and isinstance(n.ctx, ast.Load)]
                first = _first_evaluated(nxt[0].value)
                if stores == 1 and len(loads) == 1 and first is loads[0]:
                    ret = copy.deepcopy(nxt[0])
                    target = _first_evaluated(ret.value)
                    value = copy.deepcopy(s.value)

                    class Sub(ast.NodeTransformer):
                        def visit_Name(self, n):        # noqa: N802
                            return value if n is target else n
                    ret.value = Sub().visit(ret.value)
                    out.append(ast.fix_missing_locations(ret))
                    i += 2
                    continue
            out.append(s)
            i += 1
        return out

    def block(self, stmts) -> list:
        stmts = normalise_loops([s for s in stmts if not _is_docstring(s)], self.plumbing,
                                (lambda n: any(self.is_mcall(x) for x in ast.walk(n))) if self.orch else None)
        stmts = self.single_use_locals(stmts)
        for k, s in enumerate(stmts):
            m = self.mutation(s)
            if m and m[0] in self.loop_lists:
                # the list is being iterated over: the loop must be left before the next item is fetched
                rest = stmts[k + 1:]
                if not rest or not isinstance(rest[-1], (ast.Return, ast.Raise)) \
                        or any(self.mutation(r) is None for r in rest[:-1]):
                    raise TranslationError(f"`{m[0]}` is mutated while it is iterated over")
        out = []
        for s in stmts:
            out += self.stmt(s)
        return out

    def stmt(self, s) -> list:  # noqa: C901, PLR0911, PLR0912
        if self.orch and isinstance(s, ast.FunctionDef) and self.helpers.get(s.name) is not s \
                and s.name not in self.nested_fns:
            # a def inside a block is not collected as a helper: its calls would silently become externals
            raise TranslationError(f"nested def `{s.name}` inside a block")
        if _is_docstring(s) or isinstance(s, (ast.Pass, ast.FunctionDef)):
            return []
        if self.is_log_call(s):
            return []
        if self.orch:
            r = self.orch_stmt(s)
            if r is not None:
                return r
        if self.plumbing and isinstance(s, ast.Expr) and isinstance(s.value, ast.Call) \
                and isinstance(s.value.func, ast.Attribute) and s.value.func.attr == "setdefault" \
                and isinstance(s.value.func.value, ast.Name) and len(s.value.args) == 2 and not s.value.keywords \
                and not any(isinstance(a, ast.Starred) for a in s.value.args):      # noqa: PLR2004
            # `d.setdefault(k, v)` with the result discarded: `t = v; if k not in d: d[k] = t` (v is evaluated anyway)
            dname = s.value.func.value.id
            if dname in self.params or dname not in self.bound:
                raise TranslationError(f"setdefault on `{dname}`, which is not a local dict of this function")
            t = self.tmp()
            self.bound.add(t)
            k = self.expr(s.value.args[0])
            return [("assign", t, self.expr(s.value.args[1])),
                    ("ite", ("cmp", "notIn", k, ("var", dname)), [("setIndex", dname, k, ("var", t))], [])]
        na = self.nested_append(s) if self.plumbing else None
        if na:
            x, i, v = na
            self.check_unshared_items(x)
            if x in self.loop_lists:
                raise TranslationError(f"`{x}[i]` is mutated while `{x}` is iterated over")
            idx = self.expr(i)
            return [("setIndex", x, idx, ("bin", "add", ("index", ("var", x), idx), ("tuple", [self.expr(v)])))]
        m = self.mutation(s)
        if m:
            x, meth, v = m
            self.check_local_list(x)
            if meth == "append":
                return [("assign", x, ("bin", "add", ("var", x), ("tuple", [self.expr(v)])))]
            if meth == "extend":
                return [("assign", x, ("bin", "add", ("var", x), ("call", "list", [self.expr(v)])))]
            return [("assign", x, ("call", "remove", [("var", x), self.expr(v)]))]
        if isinstance(s, (ast.Assign, ast.AnnAssign)) and s.value is not None:
            tg = s.targets[0] if isinstance(s, ast.Assign) and len(s.targets) == 1 else getattr(s, "target", None)
            if isinstance(tg, ast.Name):
                bh = self.block_helper(s.value)
                if bh and not bh[2]:
                    return self.inline_block(bh[0], bh[1], tg.id)
                v = s.value
                if isinstance(v, ast.ListComp) and len(v.generators) == 1 and len(v.generators[0].ifs) == 1 \
                        and self.block_helper(v.generators[0].ifs[0]) and isinstance(v.generators[0].target, ast.Name):
                    # the comprehension written as the loop it abbreviates
                    g = v.generators[0]
                    loop = ast.For(target=g.target, iter=g.iter, orelse=[], body=[ast.If(test=g.ifs[0], orelse=[], body=[
                        ast.Expr(value=ast.Call(func=ast.Attribute(value=ast.Name(id=tg.id, ctx=ast.Load()), attr="append",
                                                                   ctx=ast.Load()), args=[v.elt], keywords=[]))])])
                    return [("assign", tg.id, ("tuple", []))] + self.stmt(loop)
            if self.plumbing and tg is not None and not isinstance(tg, ast.Name):
                bh = self.block_helper(s.value)
                if bh and not bh[2]:
                    t = self.tmp()
                    self.bound.add(t)
                    return self.inline_block(bh[0], bh[1], t) + [self.assign(tg, ("var", t))]
        if isinstance(s, ast.Assert):
            # `assert c[, msg]` is `if not c: raise AssertionError` (the message is not part of the modelled result)
            return [("ite", ("not", self.expr(s.test)), [("raise", "AssertionError")], [])]
        if isinstance(s, ast.Assign):
            if len(s.targets) != 1:
                raise TranslationError("chained assignment")
            return [self.assign(s.targets[0], self.expr(s.value))]
        if isinstance(s, ast.AnnAssign):
            if s.value is None:
                return []
            return [self.assign(s.target, self.expr(s.value))]
        if isinstance(s, ast.AugAssign):
            if type(s.op) not in _BINOP:
                raise TranslationError(f"unsupported augmented assignment {type(s.op).__name__}")
            if self.orch:
                self.check_augassign(s)
            cur = self.expr(s.target)
            return [self.assign(s.target, ("bin", _BINOP[type(s.op)], cur, self.expr(s.value)))]
        if isinstance(s, ast.If):
            inner = [x for x in s.body if not _is_docstring(x)]
            if not s.orelse and len(inner) == 1 and isinstance(inner[0], ast.If) and not inner[0].orelse \
                    and self.block_helper(s.test) is None and self.block_helper(inner[0].test) is None:
                # `if a: (if b: S)` without any else is `if a and b: S` (`and` evaluates b only when a holds)
                both = ast.BoolOp(op=ast.And(), values=[s.test, inner[0].test])
                return self.stmt(ast.copy_location(ast.If(test=both, body=inner[0].body, orelse=[]), s))
            pre, cond = self.cond_with_helper(s.test)
            return pre + [("ite", cond, self.block(s.body), self.block(s.orelse))]
        if isinstance(s, ast.For):
            if s.orelse:
                raise TranslationError("for: only `for <target> in <expr>:` without else")
            it = self.expr(s.iter)
            self.loop_lists.append(s.iter.id if isinstance(s.iter, ast.Name) else None)
            try:
                body = self.block(s.body)
            finally:
                self.loop_lists.pop()
            if isinstance(s.target, ast.Name):
                return [("forIn", s.target.id, it, body)]
            if isinstance(s.target, ast.Tuple) and all(isinstance(t, ast.Name) for t in s.target.elts):
                t = self.tmp()
                self.bound.add(t)
                return [("forIn", t, it, [("unpack", [x.id for x in s.target.elts], ("var", t))] + body)]
            raise TranslationError("for: target must be a name or a tuple of names")
        if isinstance(s, ast.Return):
            return [("ret", self.expr(s.value) if s.value is not None else ("lit", ("none",)))]
        if isinstance(s, ast.Expr) and isinstance(s.value, ast.Yield):
            if s.value.value is None:
                raise TranslationError("bare yield")
            return [("yield", self.expr(s.value.value))]
        if isinstance(s, ast.Raise):
            exc = s.exc.func if isinstance(s.exc, ast.Call) else s.exc
            from_none = self.orch and isinstance(s.cause, ast.Constant) and s.cause.value is None      # `raise E(...) from None`
            if not isinstance(exc, ast.Name) or (s.cause is not None and not from_none):
                raise TranslationError(f"unsupported raise: {_dump(s)}")
            return [("raise", exc.id)]
        if self.orch and isinstance(s, ast.Expr) and isinstance(s.value, ast.Call):
            # a call whose result is discarded: an EFFECT; what the external returns is recorded in the trace
            f = s.value.func
            if isinstance(f, ast.Attribute) and f.attr in _MUTATORS and not (isinstance(f.value, ast.Name)
                                                                              and f.value.id not in self.bound):
                # a container method that changes its receiver in place, in a form the value semantics cannot follow
                raise TranslationError(f"in-place `{f.attr}` on something that is not a plain local list: {_dump(s)}")
            return [("yield", self.expr(s.value))]
        raise TranslationError(f"unsupported statement: {_dump(s)}")

    # ---------------------------------------------------------------- phase 6: methods, effects, try, attribute assignment
    def is_ncall(self, e) -> bool:
        """`g(…)` for a nested def `g` of this function that is itself translated (earlier in the module)"""
        return (self.orch and isinstance(e, ast.Call) and isinstance(e.func, ast.Name) and e.func.id in self.nested_fns)

    def is_scall(self, e) -> bool:
        """`self.<attr>.m(…)` for an attribute declared STATEFUL: the call may change the object `self.<attr>` holds"""
        return (self.orch and self.self_name is not None and isinstance(e, ast.Call)
                and isinstance(e.func, ast.Attribute) and isinstance(e.func.value, ast.Attribute)
                and isinstance(e.func.value.value, ast.Name) and e.func.value.value.id == self.self_name
                and e.func.value.attr in self.stateful)

    def is_mcall(self, e) -> bool:
        """`self.m(…)` for a method `m` of the same class that is translated (earlier in the module); round 3: also a
        translated nested def, or a call on a stateful attribute of self (all three are hoisted)"""
        if self.is_ncall(e) or self.is_scall(e):
            return True
        return (self.orch and self.self_name is not None and isinstance(e, ast.Call)
                and isinstance(e.func, ast.Attribute) and isinstance(e.func.value, ast.Name)
                and e.func.value.id == self.self_name and e.func.attr in self.methods)

    def mcall_args(self, e: ast.Call):
        """-> (lean name of the callee, its arguments in the order of its signature; constant defaults filled in)"""
        if self.is_ncall(e):
            lean = self.nested_fns[e.func.id]
            m = self.meta[lean]
            params, dflt = m["src_params"], m["defaults"]
            e = ast.Call(func=ast.Attribute(value=e.func, attr=e.func.id, ctx=ast.Load()), args=e.args, keywords=e.keywords)
        else:
            lean = self.methods[e.func.attr]
            m = self.meta[lean]
            params, dflt = m["src_params"][1:], m["defaults"]
        if any(isinstance(a, ast.Starred) for a in e.args) or any(k.arg is None for k in e.keywords) \
                or len(e.args) > len(params):
            raise TranslationError(f"call of {e.func.attr}: * / ** / too many arguments")
        given = dict(zip(params, e.args))
        for k in e.keywords:
            if k.arg not in params or k.arg in given:
                raise TranslationError(f"call of {e.func.attr}: unexpected keyword {k.arg}")
            given[k.arg] = k.value
        out = []
        for q in params:
            if q in given:
                out.append(given[q])
            elif q in dflt and isinstance(dflt[q], ast.Constant):
                out.append(dflt[q])
            else:
                raise TranslationError(f"call of {e.func.attr}: no value for parameter {q}")
        src_order = [a for a in list(e.args) + [k.value for k in e.keywords] if not _pure(a)]
        if [a for a in out if not _pure(a)] != src_order:
            raise TranslationError(f"call of {e.func.attr}: keywords change the order of evaluation")
        return lean, out

    def callfn(self, target: str, lean: str, args: list, rebound=()) -> tuple:
        m = self.meta[lean]
        if m["mutates_self"]:
            raise TranslationError(f"call of {lean}, which assigns attributes of self")
        for i in m["mutates_params"]:
            a = args[i] if lean in self.nested_fns.values() else args[i - 1]
            if not (isinstance(a, ast.Name) and a.id in rebound and a.id not in self.params):
                raise TranslationError(f"{lean} assigns an attribute of its parameter #{i}: the caller must pass a local "
                                       "variable that the calling statement rebinds")
            self.check_local_obj(a.id)
        if lean in self.nested_fns.values():
            return ("callFn", target, lean, [self.expr(a) for a in args])
        return ("callFn", target, lean, [("var", self.self_name)] + [self.expr(a) for a in args])

    def rebound_by_call_before(self, x: str, s) -> bool:
        """the parameter `x` is assigned `x = <call>` by a top-level statement of the function that precedes (the top-level
        statement containing) `s`, and never bound in any other way: when `s` runs it holds the object that call returned"""
        body, pos, first = self.fn.body, None, None
        for k, st in enumerate(body):
            if pos is None and any(n is s for n in ast.walk(st)):
                pos = k
            if first is None and isinstance(st, ast.Assign) and len(st.targets) == 1 and isinstance(st.targets[0], ast.Name) \
                    and st.targets[0].id == x and isinstance(st.value, ast.Call):
                first = k
        if pos is None or first is None or first >= pos:
            return False
        stores = [n for n in ast.walk(self.fn) if isinstance(n, ast.Name) and n.id == x and isinstance(n.ctx, ast.Store)]
        return len(stores) == 1

    def check_local_obj(self, x: str):
        """an object whose attribute is assigned: a local that is only ever bound by calls and never aliased"""
        if x in self.params or x not in self.bound:
            raise TranslationError(f"attribute assignment on `{x}`, which is not a local variable")
        for n in ast.walk(self.fn):
            if isinstance(n, (ast.Assign, ast.AnnAssign)) and n.value is not None:
                tg = n.targets if isinstance(n, ast.Assign) else [n.target]
                names = [t.id for t in tg if isinstance(t, ast.Name)] + \
                        [u.id for t in tg if isinstance(t, ast.Tuple) for u in t.elts if isinstance(u, ast.Name)]
                if x in names and not isinstance(n.value, ast.Call):
                    raise TranslationError(f"an attribute of `{x}` is assigned but `{x}` is bound to something that may be shared")
                if isinstance(n.value, ast.Name) and n.value.id == x:
                    raise TranslationError(f"an attribute of `{x}` is assigned and `{x}` is aliased")

    def hoist(self, e, rebound=()):
        """-> (pre, e'): the calls of translated methods in `e` as `callFn` statements `pre`, `e'` = `e` with the calls
        replaced by the temporaries.  Only from positions evaluated unconditionally and once, and only when nothing
        that could raise / have an effect is evaluated before the call in Python's order."""
        has = lambda n: any(self.is_mcall(x) for x in ast.walk(n))     # noqa: E731
        if e is None or not self.orch or not has(e):
            return [], e
        pre, st = [], {"impure": False}

        def pure_b(n) -> bool:
            """pure, or built from pure parts by `+ - *` and the interpreter's total builtins `list tuple len bool` (they have no
            effect and raise nothing in PyLite: a wrong type is stuck)"""
            if _pure(n):
                return True
            if isinstance(n, ast.BinOp) and isinstance(n.op, (ast.Add, ast.Sub, ast.Mult)):
                return pure_b(n.left) and pure_b(n.right)
            return isinstance(n, ast.Call) and isinstance(n.func, ast.Name) and n.func.id in ("list", "tuple", "len", "bool") \
                and n.func.id not in self.bound and not n.keywords and len(n.args) == 1 and pure_b(n.args[0])

        def go(n, cond):        # noqa: C901, PLR0911, PLR0912
            if _simple(n):
                return n
            if not has(n):
                if not pure_b(n):
                    st["impure"] = True
                return n
            if cond:
                raise TranslationError("call of a translated method in a conditionally / repeatedly evaluated position")
            if self.is_scall(n):
                # `self.<attr>.m(a…)` on a stateful attribute: the external `.m!` returns (result, new object)
                if st["impure"]:
                    raise TranslationError("call on a stateful attribute after something that may raise in the same expression")
                if n.keywords or any(isinstance(a, ast.Starred) for a in n.args):
                    raise TranslationError("call on a stateful attribute with keywords / *")
                args2 = [go(a, False) for a in n.args]
                st["impure"] = False
                t = self.tmp()
                self.bound.add(t)
                attr = n.func.value.attr
                pre.append(("assign", t, ("ext", f".{n.func.attr}!", [("attr", ("var", self.self_name), attr)] +
                                          [self.expr(a) for a in args2])))
                pre.append(("setAttr", self.self_name, attr, ("index", ("var", t), ("lit", ("int", 1)))))
                self.mutates_self = True
                return ast.copy_location(ast.Subscript(value=ast.Name(id=t, ctx=ast.Load()), slice=ast.Constant(value=0),
                                                       ctx=ast.Load()), n)
            if self.is_mcall(n):
                if st["impure"]:
                    raise TranslationError("call of a translated method after something that may raise in the same expression")
                lean, args = self.mcall_args(n)
                args2 = [go(a, False) for a in args]
                st["impure"] = False
                t = self.tmp()
                self.bound.add(t)
                pre.append(self.callfn(t, lean, args2, rebound))
                return ast.copy_location(ast.Name(id=t, ctx=ast.Load()), n)
            if isinstance(n, ast.Call):
                f2 = go(n.func, False)
                a2 = [go(a, False) for a in n.args]
                k2 = [ast.keyword(arg=k.arg, value=go(k.value, False)) for k in n.keywords]
                st["impure"] = True
                return ast.copy_location(ast.Call(func=f2, args=a2, keywords=k2), n)
            if isinstance(n, ast.Attribute):
                return ast.copy_location(ast.Attribute(value=go(n.value, False), attr=n.attr, ctx=n.ctx), n)
            if isinstance(n, ast.Starred):
                return ast.copy_location(ast.Starred(value=go(n.value, False), ctx=n.ctx), n)
            if isinstance(n, ast.BinOp):
                lft = go(n.left, False)
                return ast.copy_location(ast.BinOp(left=lft, op=n.op, right=go(n.right, False)), n)
            if isinstance(n, ast.UnaryOp):
                return ast.copy_location(ast.UnaryOp(op=n.op, operand=go(n.operand, False)), n)
            if isinstance(n, ast.BoolOp):
                return ast.copy_location(ast.BoolOp(op=n.op, values=[go(v, k > 0) for k, v in enumerate(n.values)]), n)
            if isinstance(n, ast.IfExp):
                t = go(n.test, False)
                return ast.copy_location(ast.IfExp(test=t, body=go(n.body, True), orelse=go(n.orelse, True)), n)
            if isinstance(n, ast.Compare):
                lft = go(n.left, False)
                return ast.copy_location(ast.Compare(left=lft, ops=n.ops, comparators=[
                    go(c, k > 0) for k, c in enumerate(n.comparators)]), n)
            if isinstance(n, (ast.Tuple, ast.List)):
                return ast.copy_location(type(n)(elts=[go(x, False) for x in n.elts], ctx=n.ctx), n)
            if isinstance(n, ast.Subscript) and not isinstance(n.slice, (ast.Slice, ast.Tuple)):
                v = go(n.value, False)
                return ast.copy_location(ast.Subscript(value=v, slice=go(n.slice, False), ctx=n.ctx), n)
            raise TranslationError(f"call of a translated method inside {type(n).__name__}")

        new = go(e, False)
        return pre, ast.fix_missing_locations(new)

    def returns_fresh(self) -> bool:
        """every `return` of the function hands out a list nobody else holds: a display / comprehension, or a local list
        that satisfies the conditions of `check_local_list`"""
        rets = [n for n in ast.walk(self.fn) if isinstance(n, ast.Return)]
        if not rets or any(isinstance(n, (ast.FunctionDef, ast.Lambda)) for st in self.fn.body for n in ast.walk(st)):
            return False
        for r in rets:
            if isinstance(r.value, (ast.List, ast.ListComp)):
                continue
            if not isinstance(r.value, ast.Name):
                return False
            try:
                self.check_local_list(r.value.id)
            except TranslationError:
                return False
        return True

    def effect_free(self, stmts) -> bool:
        """no `.yield`, and only effect-free callees, anywhere in the translated statements"""
        def walk(t):
            if isinstance(t, list):
                return all(walk(x) for x in t)
            if not isinstance(t, tuple) or not t:
                return True
            if t[0] == "yield":
                return False
            if t[0] == "callFn":
                return not self.meta[t[2]]["effects"]
            if t[0] == "lit":
                return True
            return all(walk(x) for x in t[1:])
        return walk(stmts)

    def orch_stmt(self, s):     # noqa: C901, PLR0911, PLR0912
        """the phase-6 statement forms; None = not one of them (the ordinary translation applies)"""
        if isinstance(s, ast.Try):
            if s.orelse or s.finalbody or len(s.handlers) != 1 or len(s.body) != 1:
                raise TranslationError("try: only `try: <one statement> except Exception [as e]: …`")
            h = s.handlers[0]
            if not (isinstance(h.type, ast.Name) and h.type.id == "Exception"):
                raise TranslationError("try: only `except Exception`")
            body = self.block(s.body)
            if not self.effect_free(body):
                raise TranslationError("try: the body has effects that would be lost when it raises")
            if h.name:
                inside = {id(n) for st in h.body for n in ast.walk(st)}
                for n in ast.walk(self.fn):
                    if isinstance(n, ast.Name) and n.id == h.name and id(n) not in inside:
                        raise TranslationError(f"`{h.name}` of `except … as {h.name}` is used outside the handler")
                x = h.name
            else:
                x = self.tmp()
            self.bound.add(x)
            return [("tryExcept", body, x, self.block(h.body))]
        if isinstance(s, ast.For) and isinstance(s.target, ast.Tuple) and len(s.target.elts) == 2 \
                and isinstance(s.target.elts[0], ast.Name) and isinstance(s.iter, ast.Call) \
                and isinstance(s.iter.func, ast.Name) and s.iter.func.id == "enumerate" and "enumerate" not in self.bound \
                and len(s.iter.args) == 1 and not s.iter.keywords and not isinstance(s.iter.args[0], ast.Starred):      # noqa: PLR2004
            idx = s.target.elts[0].id
            uses = sum(1 for n in ast.walk(self.fn) if isinstance(n, ast.Name) and n.id == idx)
            if uses == 1:       # the index is bound here and used nowhere: `for T in it`
                return self.stmt(ast.copy_location(ast.For(target=s.target.elts[1], iter=s.iter.args[0], body=s.body,
                                                            orelse=s.orelse), s))
            # the index is used: an explicit counter `c = 0; for T in it: idx = c; c = c + 1; …`
            if any(isinstance(n, ast.Name) and n.id == idx and isinstance(n.ctx, ast.Store)
                   for st in s.body for n in ast.walk(st)):
                raise TranslationError("enumerate: the index is assigned in the loop")
            c = self.tmp()
            self.bound.add(c)
            inner = self.stmt(ast.copy_location(ast.For(target=s.target.elts[1], iter=s.iter.args[0], body=s.body,
                                                         orelse=s.orelse), s))
            if len(inner) != 1 or inner[0][0] != "forIn":
                raise TranslationError("enumerate over something that needs hoisting")
            k, x, it, body = inner[0]
            # the counter is advanced first so that it is right whatever the body does
            body = [("assign", idx, ("var", c)), ("assign", c, ("bin", "add", ("var", c), ("lit", ("int", 1))))] + body
            # (with a tuple target the unpacking comes first in `body`: the counter statements commute with it)
            return [("assign", c, ("lit", ("int", 0))), (k, x, it, body)]
        if isinstance(s, ast.While):
            if s.orelse or any(isinstance(n, (ast.Break, ast.Continue)) for st in s.body for n in ast.walk(st)):
                raise TranslationError("while: else / break / continue")
            pre, c = self.hoist(s.test)
            self.loop_lists.append(None)
            try:
                body = self.block(s.body)
            finally:
                self.loop_lists.pop()
            if pre:
                # the condition needs statements (calls on a stateful attribute): they run before the loop and again at the
                # end of every round (loop rotation); their temporaries are bound to a variable the condition reads
                cv = self.tmp()
                self.bound.add(cv)
                pre2 = pre + [("assign", cv, self.expr(c))]
                return pre2 + [("whileF", ("ext", "while-fuel", []), ("var", cv), body + pre2)]
            return [("whileF", ("ext", "while-fuel", []), self.expr(c), body)]
        if isinstance(s, ast.Expr) and isinstance(s.value, ast.Yield) and s.value.value is not None:
            pre, v = self.hoist(s.value.value)
            return pre + [("yield", self.expr(v))] if pre else None
        tg = None
        if isinstance(s, ast.Assign) and len(s.targets) == 1:
            tg = s.targets[0]
        elif isinstance(s, ast.AnnAssign) and s.value is not None:
            tg = s.target
        if tg is not None:
            rebound = [tg.id] if isinstance(tg, ast.Name) else \
                [u.id for u in tg.elts if isinstance(u, ast.Name)] if isinstance(tg, ast.Tuple) else []
            if isinstance(tg, ast.Attribute) and isinstance(tg.value, ast.Name):
                x = tg.value.id
                bh = self.block_helper(s.value)
                if bh and not bh[2]:
                    # `x.attr = h(…)` for a nested multi-statement helper: inlined through a temporary
                    t = self.tmp()
                    self.bound.add(t)
                    pre, v = self.inline_block(bh[0], bh[1], t), ast.Name(id=t, ctx=ast.Load())
                else:
                    pre, v = self.hoist(s.value)
                if x == self.self_name:
                    self.mutates_self = True
                elif x in [a.arg for a in self.fn.args.args] and self.rebound_by_call_before(x, s):
                    pass        # the parameter holds a fresh object by now: not the caller's
                elif x in [a.arg for a in self.fn.args.args]:
                    self.mutates_params.add([a.arg for a in self.fn.args.args].index(x))
                else:
                    self.check_local_obj(x)
                return pre + [("setAttr", x, tg.attr, self.expr(v))]
            if isinstance(tg, ast.Name) and self.is_mcall(s.value) and not self.is_scall(s.value):
                lean, args = self.mcall_args(s.value)
                pre, args2 = [], []
                for a in args:
                    p1, a1 = self.hoist(a)
                    if pre and p1 and not all(_pure(x) for x in args2):
                        raise TranslationError("call of a translated method after something that may raise")
                    pre += p1
                    args2.append(a1)
                return pre + [self.callfn(tg.id, lean, args2, rebound)]
            pre, v = self.hoist(s.value, rebound)
            if pre:
                new = ast.Assign(targets=[tg], value=v)
                return pre + self.stmt(ast.fix_missing_locations(ast.copy_location(new, s)))
            return None
        if isinstance(s, ast.AugAssign):
            pre, v = self.hoist(s.value)
            if pre:
                if not _simple(s.target):
                    raise TranslationError("augmented assignment of a non-trivial target with a method call")
                return pre + self.stmt(ast.copy_location(ast.AugAssign(target=s.target, op=s.op, value=v), s))
            return None
        if isinstance(s, ast.Return) and s.value is not None:
            pre, v = self.hoist(s.value)
            return pre + self.stmt(ast.copy_location(ast.Return(value=v), s)) if pre else None
        if isinstance(s, ast.Expr):
            pre, v = self.hoist(s.value)
            if pre:
                if isinstance(v, ast.Name) or (isinstance(v, ast.Subscript) and isinstance(v.value, ast.Name)
                                               and v.value.id.startswith("_t")):
                    return pre              # `self.m(…)` as a statement: only its effects count
                return pre + self.stmt(ast.copy_location(ast.Expr(value=v), s))
            return None
        if isinstance(s, ast.If):
            pre, v = self.hoist(s.test)
            return pre + self.stmt(ast.copy_location(ast.If(test=v, body=s.body, orelse=s.orelse), s)) if pre else None
        if isinstance(s, ast.For):
            pre, v = self.hoist(s.iter)
            return pre + self.stmt(ast.copy_location(ast.For(target=s.target, iter=v, body=s.body, orelse=s.orelse), s)) \
                if pre else None
        if isinstance(s, (ast.Raise, ast.Assert)) and any(self.is_mcall(n) for n in ast.walk(s)):
            raise TranslationError("call of a translated method inside raise / assert")
        return None

    def assign(self, target, value):
        if isinstance(target, ast.Name):
            return ("assign", target.id, value)
        if isinstance(target, ast.Tuple) and all(isinstance(t, ast.Name) for t in target.elts):
            return ("unpack", [t.id for t in target.elts], value)
        if isinstance(target, ast.Subscript) and isinstance(target.value, ast.Name) \
                and not isinstance(target.slice, (ast.Slice, ast.Tuple)):
            return ("setIndex", target.value.id, self.expr(target.slice), value)
        raise TranslationError(f"unsupported assignment target: {_dump(target)}")


_BINDERS = {"assign": 1, "setIndex": 1, "forIn": 1, "anyOf": 1, "allOf": 1, "comp": 1, "var": 1}


def normalise_names(params, body, scoped=False):
    """alpha-normalisation: parameters and local variables are renamed to v0, v1, … in the order of their first
    occurrence (parameters first), so that renaming them in the source does not change the translation at all.
    Attribute names, enum members and external function names are kept (they are interface, not local choice)."""
    names = {}

    hidden = []     # numbers used by comprehension variables that are out of scope (never reused)

    def nm(x):
        if x not in names:
            names[x] = f"v{len(names) + len(hidden)}"
        return names[x]

    def walk(t):
        if isinstance(t, list):
            return [walk(x) for x in t]
        if not isinstance(t, tuple) or not t:
            return t
        k = t[0]
        if k == "lit":
            return t
        if k == "unpack":
            rhs = walk(t[2])
            return (k, [nm(x) for x in t[1]], rhs)
        if k in ("assign", "forIn"):          # the right-hand side / iterable is evaluated before the binding
            rest = [walk(x) for x in t[2:3]]
            x = nm(t[1])
            return (k, x) + tuple(rest) + tuple(walk(y) for y in t[3:])
        if k in ("anyOf", "allOf", "comp"):
            # the variable of a comprehension / generator has its own scope: it gets a number of its own even when the
            # same source name is also used elsewhere in the function
            it = walk(t[2])
            if not scoped:          # the modules of phase 2 keep their numbering
                x = nm(t[1])
                return (k, x, it) + tuple(walk(y) for y in t[3:])
            outer = names.pop(t[1], None)
            if outer is not None:
                hidden.append(outer)
            x = nm(t[1])
            rest = tuple(walk(y) for y in t[3:])
            inner = names.pop(t[1])
            hidden.append(inner)
            if outer is not None:
                names[t[1]] = outer
                hidden.remove(outer)
            return (k, x, it) + rest
        if k == "callFn":                     # the arguments are evaluated before the result is bound
            args = walk(t[3])
            return (k, nm(t[1]), t[2], args)
        if k == "setAttr":
            v = walk(t[3])
            return (k, nm(t[1]), t[2], v)
        if k == "whileF":
            return (k, walk(t[1]), walk(t[2]), walk(t[3]))
        if k == "tryExcept":
            body_ = walk(t[1])
            x = nm(t[2])
            return (k, body_, x, walk(t[3]))
        if k == "inlineCall":                 # the block is run before the result is bound
            body_ = walk(t[2])
            return (k, nm(t[1]), body_)
        if k in ("var", "setIndex"):
            return (k, nm(t[1])) + tuple(walk(y) for y in t[2:])
        if k in ("attr",):
            return (k, walk(t[1]), t[2])
        if k in ("bin", "cmp", "call", "ext"):
            return (k, t[1]) + tuple(walk(y) for y in t[2:])
        if k in ("raise",):
            return t
        return (k,) + tuple(walk(y) for y in t[1:])

    new_params = [nm(p) for p in params]
    return new_params, walk(body), names


def canonical_init_prefix(body: list, empties=False) -> list:
    """The leading run of initialisations with literals (`x = 0`, `a, b = 0, False`) is split into single assignments
    and ordered by the first occurrence of the variable in the rest of the body: these statements are independent of
    each other, so writing them in another order (or as one tuple assignment) is the same function - and, with the
    numbering of `normalise_names`, then also the same translation."""
    run, i = [], 0
    while i < len(body):
        s = body[i]
        if s[0] == "assign" and (s[2][0] == "lit" or (empties and s[2] == ("tuple", []))):    # phase 6: also `x = []`
            run.append((s[1], s[2]))
        elif s[0] == "unpack" and s[2][0] == "tuple" and len(s[1]) == len(s[2][1]) and all(e[0] == "lit" for e in s[2][1]):
            run += list(zip(s[1], s[2][1]))
        else:
            break
        i += 1
    names = [n for n, _ in run]
    if len(run) < 2 or len(set(names)) != len(names):     # noqa: PLR2004
        return body
    rest = body[i:]
    first_use = {n: k for k, n in enumerate(normalise_names([], rest)[2])}
    if any(n not in first_use for n in names):            # an unused variable: no canonical place for it
        return body
    run.sort(key=lambda nv: first_use[nv[0]])
    return [("assign", n, v) for n, v in run] + rest


def constructor_as_function(fn: ast.FunctionDef) -> ast.FunctionDef:
    """`__init__(self, …)` whose statements at top level are `self.<attr> = <expr>` (reads of `self.<attr>` after the
    assignment allowed) as the function `(…) -> {"<attr>": value, …}` (attributes in alphabetical order): what the
    constructor stores.  Anything else that mentions `self` is outside the subset."""
    import copy
    fn = copy.deepcopy(fn)
    if not fn.args.args:
        raise TranslationError("__init__ without self")
    self_name = fn.args.args[0].arg
    fn.args.args = fn.args.args[1:]
    attrs, body = [], []
    var = lambda a: f"{self_name}.{a}"      # noqa: E731  (not a Python identifier: cannot clash with a local)

    class R(ast.NodeTransformer):
        def visit_Attribute(self, n):       # noqa: N802
            if isinstance(n.value, ast.Name) and n.value.id == self_name:
                if n.attr not in attrs or not isinstance(n.ctx, ast.Load):
                    raise TranslationError(f"__init__: `{self_name}.{n.attr}` used before it is assigned / not as a value")
                return ast.copy_location(ast.Name(id=var(n.attr), ctx=ast.Load()), n)
            return self.generic_visit(n)

        def visit_Name(self, n):            # noqa: N802
            if n.id == self_name:
                raise TranslationError("__init__: `self` used other than as `self.<attr>`")
            return n

    for st in fn.body:
        if _is_docstring(st) or isinstance(st, ast.Pass):
            continue
        tg = None
        if isinstance(st, ast.Assign) and len(st.targets) == 1:
            tg, val = st.targets[0], st.value
        elif isinstance(st, ast.AnnAssign) and st.value is not None:
            tg, val = st.target, st.value
        if tg is not None and isinstance(tg, ast.Attribute) and isinstance(tg.value, ast.Name) and tg.value.id == self_name:
            val = R().visit(val)
            if tg.attr not in attrs:
                attrs.append(tg.attr)
            body.append(ast.Assign(targets=[ast.Name(id=var(tg.attr), ctx=ast.Store())], value=val))
        else:
            body.append(R().visit(st))
    res = "<stored>"
    body.append(ast.Assign(targets=[ast.Name(id=res, ctx=ast.Store())], value=ast.Dict(keys=[], values=[])))
    for a in sorted(attrs):
        body.append(ast.Assign(targets=[ast.Subscript(value=ast.Name(id=res, ctx=ast.Load()), slice=ast.Constant(value=a),
                                                      ctx=ast.Store())], value=ast.Name(id=var(a), ctx=ast.Load())))
    body.append(ast.Return(value=ast.Name(id=res, ctx=ast.Load())))
    fn.body = body
    ast.fix_missing_locations(fn)
    return fn


def translate_function(fn: ast.FunctionDef, enums, loggers=frozenset(), scoped=False, plumbing=False,
                       opaque=(), module=None, orch=False, cls=None, methods=None, meta=None,
                       nested=None, stateful=(), extern_ops=None) -> dict:
    src_params, dflt = [p.arg for p in fn.args.args], _arg_defaults(fn.args)
    static = any(isinstance(d, ast.Name) and d.id in ("staticmethod", "classmethod") for d in fn.decorator_list)
    if plumbing and fn.name == "__init__":
        fn, cls = constructor_as_function(fn), None
    a = fn.args
    if a.vararg or a.kwarg or a.kwonlyargs or a.posonlyargs:
        raise TranslationError(f"{fn.name}: only plain positional parameters are supported")
    tr = Tr(fn, enums, loggers, plumbing, opaque, module, orch, None if static else cls, methods, meta)
    tr.nested_fns, tr.stateful = dict(nested or {}), tuple(stateful)
    tr.extern_ops = dict(extern_ops or {})
    for name in tr.nested_fns:         # a translated nested def is called through `callFn`, never inlined
        tr.helpers.pop(name, None)
    raw = tr.block(fn.body)
    params, body, names = normalise_names([p.arg for p in a.args], canonical_init_prefix(raw, orch), scoped)
    out = {"params": params, "body": body, "names": names}
    if orch:
        out["meta"] = {"src_params": src_params, "defaults": dflt, "effects": not tr.effect_free(raw),
                       "mutates_self": tr.mutates_self, "mutates_params": sorted(tr.mutates_params),
                       "returns_fresh": tr.returns_fresh()}
    return out


def extract_funcs(src, funcs, scoped_comp=False, plumbing=False, opaque=None, orch=False, stateful=(), extern_ops=None) -> dict:
    """funcs: [(Lean name without the `Src` suffix, file, dotted path of the def inside the file)];
    scoped_comp: comprehension variables are numbered in their own scope (modules added in phase 4);
    plumbing: the phase-5 additions that could change earlier renderings (see the module docstring);
    opaque: {lean name: [(helper name, position among the nested defs)]} - nested helpers that become externals"""
    trees = {}

    def tree(rel):
        if rel not in trees:
            try:
                trees[rel] = ast.parse(src(rel))
            except (SyntaxError, OSError) as e:
                raise TranslationError(f"{rel}: {e!r}") from None
        return trees[rel]

    enums = enum_classes([tree(f) for f in ENUM_FILES])
    out = {}
    if orch:
        # phase 6: methods of a class may call the methods of the same class that are translated EARLIER in `funcs`
        plumbing, meta, methods = True, {}, {}
        for lean, rel, path in funcs:
            try:
                fn, scopes = find_def(tree(rel), path)
            except TranslationError:
                # moved to another private module and re-exported from `rel`?  (`from ._x import name`)
                try:
                    rel2 = resolve_reexport(src, rel, path.split(".")[0])[0]
                except (SyntaxError, OSError):
                    rel2 = rel
                if rel2 == rel:
                    raise
                rel = rel2
                fn, scopes = find_def(tree(rel), path)
            cls = scopes[-1] if isinstance(scopes[-1], ast.ClassDef) else None
            key = (rel, path.rsplit(".", 1)[0]) if cls is not None else None
            # round 3: nested defs of this function that are translated earlier in the module are called through `callFn`
            nested = {q.rsplit(".", 1)[1]: l for l, r, q in funcs if r == rel and l in meta
                      and q.rsplit(".", 1)[0] == path}
            # round 4: module-level functions of the same file that are translated earlier, too
            for l, r, q in funcs:
                if r == rel and l in meta and "." not in q and q not in nested:
                    nested[q] = l
            encl = [sc for sc in scopes if isinstance(sc, ast.FunctionDef)]
            if encl:
                # a nested def translated on its own must be CLOSED: it reads no variable of the enclosing functions
                # (other than sibling defs that are translated as well)
                own = {a.arg for n in ast.walk(fn) if isinstance(n, (ast.FunctionDef, ast.Lambda)) for a in n.args.args} | \
                      {n.id for n in ast.walk(fn) if isinstance(n, ast.Name) and isinstance(n.ctx, ast.Store)} | \
                      {n.name for n in ast.walk(fn) if isinstance(n, ast.FunctionDef)}
                outer = set()
                for sc in encl:
                    outer |= {a.arg for a in sc.args.args} | {n.id for n in ast.walk(sc) if isinstance(n, ast.Name)
                                                              and isinstance(n.ctx, ast.Store)} | \
                             {n.name for n in ast.walk(sc) if isinstance(n, ast.FunctionDef)}
                for n in ast.walk(fn):
                    if isinstance(n, ast.Name) and isinstance(n.ctx, ast.Load) and n.id not in own and n.id in outer:
                        raise TranslationError(f"{path}: reads `{n.id}` of the enclosing function (not closed)")
            res = translate_function(fn, enums, stdlib_loggers(tree(rel)), scoped_comp, plumbing,
                                     (opaque or {}).get(lean, ()), tree(rel), True, cls, methods.get(key, {}), meta,
                                     nested, stateful, extern_ops)
            meta[lean] = res.pop("meta")
            if key is not None and fn.name != "__init__":
                methods.setdefault(key, {})[fn.name] = lean
            out[lean] = dict(res, path=f"{rel}: {path}")
        return out
    for lean, rel, path in funcs:
        rel0 = rel
        try:
            fn, scopes = find_def(tree(rel), path)
        except TranslationError:
            # moved to another private module and re-exported from `rel`?  (`from ._x import name`)
            try:
                rel = resolve_reexport(src, rel0, path.split(".")[0])[0]
            except (SyntaxError, OSError):
                rel = rel0
            if rel == rel0:
                raise
            fn, scopes = find_def(tree(rel), path)
        cls = scopes[-1] if scopes and isinstance(scopes[-1], ast.ClassDef) else None
        out[lean] = dict(translate_function(fn, enums, stdlib_loggers(tree(rel)), scoped_comp, plumbing,
                                            (opaque or {}).get(lean, ()), tree(rel), cls=cls),
                         path=f"{rel0}: {path}")
    return out


def names_of(src, funcs) -> dict:
    """debugging aid: {lean name: {source name: normalised name}}"""
    return {k: v["names"] for k, v in extract_funcs(src, funcs).items()}


# -------------------------------------------------------------------- rendering
def _s(s: str) -> str:
    out = ['"']
    for ch in s:
        if ch == "\\":
            out.append("\\\\")
        elif ch == '"':
            out.append('\\"')
        elif ch == "\n":
            out.append("\\n")
        elif ch == "\t":
            out.append("\\t")
        elif ord(ch) < 32 or ord(ch) == 127:  # noqa: PLR2004
            out.append(f"\\x{ord(ch):02x}")
        else:
            out.append(ch)
    out.append('"')
    return "".join(out)


def _val(v) -> str:
    k = v[0]
    if k == "int":
        return f"(.int ({v[1]}))" if v[1] < 0 else f"(.int {v[1]})"
    if k == "bool":
        return "(.bool true)" if v[1] else "(.bool false)"
    if k == "str":
        return f"(.str {_s(v[1])})"
    if k == "none":
        return ".none"
    if k == "dict":
        return "(.dict [])"
    if k == "enum":
        return f"(.enum {_s(v[1])} {_s(v[2])})"
    raise TranslationError(f"value {v!r}")


def _e(e) -> str:  # noqa: PLR0911
    k = e[0]
    if k == "lit":
        return f"(.lit {_val(e[1])})"
    if k == "var":
        return f"(.var {_s(e[1])})"
    if k == "attr":
        return f"(.attr {_e(e[1])} {_s(e[2])})"
    if k in ("bin", "cmp"):
        return f"(.{k} .{e[1]} {_e(e[2])} {_e(e[3])})"
    if k in ("neg", "not"):
        return f"(.{k} {_e(e[1])})"
    if k in ("and", "or"):
        return f"(.{k} {_e(e[1])} {_e(e[2])})"
    if k == "ite":
        return f"(.ite {_e(e[1])} {_e(e[2])} {_e(e[3])})"
    if k == "tuple":
        return "(.tuple [" + ", ".join(_e(x) for x in e[1]) + "])"
    if k == "index":
        return f"(.index {_e(e[1])} {_e(e[2])})"
    if k == "call":
        return f"(.call .{e[1]} [" + ", ".join(_e(x) for x in e[2]) + "])"
    if k == "ext":
        return f"(.ext {_s(e[1])} [" + ", ".join(_e(x) for x in e[2]) + "])"
    if k in ("anyOf", "allOf"):
        return f"(.{k} {_s(e[1])} {_e(e[2])} {_e(e[3])})"
    if k == "comp":
        return f"(.comp {_s(e[1])} {_e(e[2])} {_e(e[3])} {_e(e[4])})"
    raise TranslationError(f"expression {e!r}")


def _block(stmts, ind) -> str:
    if not stmts:
        return "[]"
    pad = " " * ind
    return "[\n" + ",\n".join(pad + "  " + _st(s, ind + 2) for s in stmts) + "\n" + pad + "]"


def _st(s, ind) -> str:  # noqa: PLR0911
    k = s[0]
    if k == "assign":
        return f".assign {_s(s[1])} {_e(s[2])}"
    if k == "unpack":
        return ".unpack [" + ", ".join(_s(x) for x in s[1]) + f"] {_e(s[2])}"
    if k == "setIndex":
        return f".setIndex {_s(s[1])} {_e(s[2])} {_e(s[3])}"
    if k == "ite":
        return f".ite {_e(s[1])} {_block(s[2], ind)} {_block(s[3], ind)}"
    if k == "forIn":
        return f".forIn {_s(s[1])} {_e(s[2])} {_block(s[3], ind)}"
    if k == "inlineCall":
        return f".inlineCall {_s(s[1])} {_block(s[2], ind)}"
    if k in ("ret", "yield"):
        return f".{k} {_e(s[1])}"
    if k == "callFn":
        return f".callFn {_s(s[1])} {s[2]}Src.params {s[2]}Src.body [" + ", ".join(_e(x) for x in s[3]) + "]"
    if k == "setAttr":
        return f".setAttr {_s(s[1])} {_s(s[2])} {_e(s[3])}"
    if k == "whileF":
        return f".whileF {_e(s[1])} {_e(s[2])} {_block(s[3], ind)}"
    if k == "tryExcept":
        return f".tryExcept {_block(s[1], ind)} {_s(s[2])} {_block(s[3], ind)}"
    if k == "raise":
        return f".raise {_s(s[1])}"
    raise TranslationError(f"statement {s!r}")


def render_funcs(facts, funcs) -> str:
    lines = []
    for lean, _, _ in funcs:
        f = facts[lean]
        lines.append(f"/-- translated from the source text of `{f['path']}` -/")
        lines.append(f"def {lean}Src : Fc.PyLite.Fn := {{")
        lines.append(f"  name := {_s(f['path'].split(': ')[1])}")
        lines.append("  params := [" + ", ".join(_s(p) for p in f["params"]) + "]")
        lines.append("  body := " + _block(f["body"], 2) + " }")
        lines.append("")
    return "\n".join(lines)
