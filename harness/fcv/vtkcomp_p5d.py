"""Compressed inline-binary <DataArray> payloads for the C07 check (phase 5, package D).

enc = {"comp": "zlib"|"lzma"|"lz4", "B": block size in bytes, "hs": 4|8 (header item size), "conv": "vtk"|"meshio"}

Layout (vtkXMLWriter / vtkDataCompressor, little endian):
    base64([#blocks, B, last, csize_1 .. csize_n] as UInt32/UInt64) ++ base64(cblock_1 ++ .. ++ cblock_n)
The third header word differs between writers when the data fills all blocks exactly (n = k*B, k > 0):
    "vtk"     last = n mod B                   (0: "there is no partial block")   — VTK itself, ParaView
    "meshio"  last = n - (#blocks - 1) * B     (B: "size of the last block")      — meshio's writers
Both are read by VTK; for n mod B != 0 they coincide.  An empty array has no blocks: [0, B, 0].

The codecs are the ones the C05 check uses (`corr.c05.compress`); for the "vtk" convention the produced bytes can
be cross-checked against the Lean spec writer (`c05enc`, Fc.Spec.encodeCompressed) with `lean_enc_line`.
"""
from __future__ import annotations
from base64 import b64encode

import numpy as np

COMPRESSOR_ATTR = {"zlib": "vtkZLibDataCompressor", "lz4": "vtkLZ4DataCompressor", "lzma": "vtkLZMADataCompressor"}


def codecs():
    from corr import c05
    return list(c05.CODECS)


def compress(codec: str, b: bytes) -> bytes:
    from corr import c05
    return c05.compress(codec, b)


def blocks_of(raw: bytes, B: int):
    return [raw[o:o + B] for o in range(0, len(raw), B)]


def header_words(n: int, B: int, csizes, conv: str):
    nb = len(csizes)
    if conv == "vtk":
        last = n % B
    elif conv == "meshio":
        last = n - (nb - 1) * B if nb else 0
    else:
        raise ValueError(conv)
    return [nb, B, last] + list(csizes)


def encode_inline(raw: bytes, enc) -> str:
    """text of a format="binary" DataArray holding `raw` (little-endian item bytes)"""
    cbs = [compress(enc["comp"], blk) for blk in blocks_of(raw, enc["B"])]
    words = header_words(len(raw), enc["B"], [len(c) for c in cbs], enc["conv"])
    hdr = np.array(words, dtype="<u4" if enc["hs"] == 4 else "<u8").tobytes()
    return b64encode(hdr).decode("ascii") + b64encode(b"".join(cbs)).decode("ascii")


def fills_exactly(n: int, B: int) -> int:
    """k if n = k*B with k >= 1, else 0"""
    return n // B if n > 0 and n % B == 0 else 0


def root_attrs(enc) -> str:
    return f'byte_order="LittleEndian" header_type="UInt{enc["hs"] * 8}" compressor="{COMPRESSOR_ATTR[enc["comp"]]}"'


def lean_enc_line(raws, enc) -> str:
    """`c05enc` line of the Lean spec writer for the same arrays (item size 1: the bytes are in file order already)"""
    from corr import c05
    cfg = {"hs": enc["hs"], "bo": "le", "comp": enc["comp"], "joint": True, "B": enc["B"]}
    toks = ["c05enc", c05.cfg_tokens(cfg, True), str(len(raws))]
    tbl = {}
    for raw in raws:
        toks += ["1", c05.hx(raw)]
        for blk in blocks_of(raw, enc["B"]):
            tbl[blk] = compress(enc["comp"], blk)
    toks.append(str(len(tbl)))
    for k, v in tbl.items():
        toks += [c05.hx(k), c05.hx(v)]
    return " ".join(toks)


def lean_enc_texts(rep):
    """reply of `c05enc` -> the payload texts, or None"""
    from corr import c05
    enc = rep.get("enc", "E")
    if enc.startswith("E"):
        return None
    return [c05.unhx(e).decode("ascii") for e in enc.split(",")]
