"""Running the fieldcompare CLI entry point in-process with a captured logger."""
from __future__ import annotations
import contextlib
import io
import warnings


def run_cli(argv):
    """-> (outcome, log): outcome = int exit code | 'exit:<code>' for SystemExit | 'raised:<Type>'"""
    from fieldcompare._cli import main
    from fieldcompare._cli._logger import CLILogger
    buf = io.StringIO()
    err = io.StringIO()
    with warnings.catch_warnings():
        warnings.simplefilter("ignore")
        with contextlib.redirect_stderr(err), contextlib.redirect_stdout(buf):
            try:
                code = main(list(argv), logger=CLILogger(output_stream=buf))
            except SystemExit as e:
                code = f"exit:{e.code}"
            except BaseException as e:  # noqa: BLE001
                code = f"raised:{type(e).__name__}"
    return code, buf.getvalue()
