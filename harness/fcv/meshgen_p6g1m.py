"""Phase 6 / package G1 (sub-worker "mesh"): generator extensions for C02 / C03 / C08.

Everything here wraps `fcv.meshgen` (which stays untouched): the quantifier of the three mesh properties ranges over
dimensions the shared generator samples at one point only —

  * size: lattices with more than 1000 / more than 65536 points (`big_lattice`);
  * both members of a compatible cell-type pair in ONE mesh (`gen_pair_mesh`: quad + pixel (+ triangle), hexahedron +
    voxel (+ tetra), every cell drawn independently);
  * unconnected points at the BEGINNING / in the MIDDLE / at the end of the point list, on one side only (`insert_orphans`);
  * storage: coordinate dtype (float32, big-endian), memory layout (Fortran order, strided views, read-only arrays),
    connectivity index type, field arrays as strided / read-only views (`to_fc_storage`, `STORAGES`);
  * field shapes (n,1), narrow / unsigned integer and string fields, field names that are empty / unicode / contain the
    characters fieldcompare uses as separators (`add_odd_fields`).

A *storage* is a plain dict (json-able, so that replay payloads are self-contained):
  {"pts": "<f8" | ">f8" | "<f4" | ">f4", "layout": "C" | "F" | "strided" | "readonly", "conn": "i64" | "i32" | ... ,
   "fields": "C" | "strided" | "readonly" | "F"}
"""
from __future__ import annotations
import copy
import itertools

import numpy as np

from . import meshgen
from .meshgen import NCORNERS, _rowsize, celltype
from .predio import NP_DT

STORAGES = [
    {"pts": "<f8", "layout": "F", "conn": "i64", "fields": "F"},
    {"pts": "<f8", "layout": "strided", "conn": "i32", "fields": "strided"},
    {"pts": "<f8", "layout": "readonly", "conn": "i64", "fields": "readonly"},
    {"pts": ">f8", "layout": "C", "conn": "i64", "fields": "C"},
    {"pts": "<f4", "layout": "C", "conn": "i32", "fields": "C"},
    {"pts": ">f4", "layout": "F", "conn": "i16", "fields": "strided"},
    {"pts": "<f8", "layout": "C", "conn": "u8", "fields": "C"},
    {"pts": "<f8", "layout": "C", "conn": "u16", "fields": "readonly"},
    {"pts": "<f8", "layout": "C", "conn": "u32", "fields": "C"},
    {"pts": "<f8", "layout": "C", "conn": "i8", "fields": "C"},
    {"pts": "<f8", "layout": "C", "conn": "u64", "fields": "C"},
]
DEFAULT_STORAGE = {"pts": "<f8", "layout": "C", "conn": "i64", "fields": "C"}

_CONN_CAP = {"u8": 255, "i8": 127, "i16": 32767, "u16": 65535, "i32": 2 ** 31 - 1, "u32": 2 ** 32 - 1, "i64": 2 ** 63 - 1,
             "u64": 2 ** 64 - 1}


def storage_tag(st) -> str:
    return f"storage={st['pts']}/{st['layout']}/conn-{st['conn']}/fields-{st['fields']}"


def storage_fits(lm, st) -> bool:
    """a narrow index type is legitimate as long as it can hold every index that occurs in a cell"""
    top = max([i for _, rows in lm["cells"] for r in rows for i in r] + [0])
    return top <= _CONN_CAP[st["conn"]]


def _laid_out(arr, layout):
    """the same values, stored differently"""
    if layout == "F":
        return np.asfortranarray(arr)
    if layout == "strided":
        # every other row of a twice as long buffer: a non-contiguous view
        buf = np.empty((2 * arr.shape[0],) + arr.shape[1:], dtype=arr.dtype)
        buf[::2] = arr
        if arr.shape[0]:
            buf[1::2] = arr[::-1]          # foreign values between the rows
        return buf[::2]
    if layout == "readonly":
        out = np.array(arr)
        out.setflags(write=False)
        return out
    return np.ascontiguousarray(arr)


def representable(lm, st) -> bool:
    """float32 storage: every coordinate must be a float32 value (else the stored mesh is another mesh)"""
    if "f4" not in st["pts"]:
        return True
    return all(float(np.float32(c)) == c for p in lm["points"] for c in p)


def round_to_f32(lm):
    """copy of lm with float32-representable coordinates (still python floats)"""
    out = copy.deepcopy(lm)
    out["points"] = [[float(np.float32(c)) for c in p] for p in lm["points"]]
    return out


def _field_array(f, n, layout):
    if f["dt"] == "str":
        arr = np.array(f["v"], dtype=str).reshape([n] + list(f["tail"]))
    else:
        arr = np.array(f["v"], dtype=NP_DT[f["dt"]]).reshape([n] + list(f["tail"]))
    return _laid_out(arr, layout)


def to_fc_storage(lm, st=None):
    """logical mesh -> fieldcompare.mesh.MeshFields whose arrays are stored as the storage `st` says"""
    from fieldcompare.mesh import Mesh, MeshFields
    st = st or DEFAULT_STORAGE
    pts = np.array(lm["points"], dtype=np.float64).reshape(len(lm["points"]), lm["dim"]).astype(np.dtype(st["pts"]))
    pts = _laid_out(pts, st["layout"])
    cdt = NP_DT[st["conn"]]
    clayout = st["layout"] if st["layout"] in ("readonly", "strided") else "C"
    conn = []
    for t, rows in lm["cells"]:
        if NCORNERS[t] is None and len({len(r) for r in rows}) > 1:
            raise ValueError("ragged polygons are not supported by the logical-mesh conversion")
        a = np.array(rows, dtype=cdt).reshape(len(rows), -1 if rows else (NCORNERS[t] or 0))
        conn.append((celltype(t), _laid_out(a, clayout)))
    mesh = Mesh(pts, conn)
    pd = {f["name"]: _field_array(f, len(lm["points"]), st["fields"]) for f in lm["pf"]}
    names = []
    for f in lm["cf"]:
        if f["name"] not in names:
            names.append(f["name"])
    cd = {}
    for name in names:
        per_type = []
        for t, rows in lm["cells"]:
            fs = [f for f in lm["cf"] if f["name"] == name and f["ctype"] == t]
            if not fs:
                raise ValueError(f"cell field {name} missing on {t}")
            per_type.append(_field_array(fs[0], len(rows), st["fields"]))
        cd[name] = per_type
    return MeshFields(mesh, pd, cd)


def from_fc_any(fields):
    """like meshgen.from_fc, but also for string fields and any float / integer storage type: values as python
    floats / ints / strings, dt = the kind as the logical mesh names it (f64/f32/…/str)"""
    from fieldcompare.mesh._mesh_fields import remove_cell_type_suffix
    dom = fields.domain
    pts = np.asarray(dom.points)
    lm = {"dim": int(pts.shape[1]) if pts.ndim == 2 else 1, "points": [[float(c) for c in np.atleast_1d(p)] for p in pts],
          "cells": [], "pf": [], "cf": []}
    for ct in dom.cell_types:
        conn = np.asarray(dom.connectivity(ct))
        lm["cells"].append([ct.name, [[int(i) for i in row] for row in conn]])

    def dtname(v):
        if v.dtype.kind in "US":
            return "str"
        for k, d in NP_DT.items():
            if v.dtype.newbyteorder("=") == np.dtype(d):
                return k
        raise ValueError(f"unsupported dtype {v.dtype}")
    for f in fields.point_fields:
        v = np.asarray(f.values)
        lm["pf"].append({"name": f.name, "dt": dtname(v), "tail": list(v.shape[1:]), "v": v.flatten().tolist()})
    for f, ct in fields.cell_fields_types:
        v = np.asarray(f.values)
        lm["cf"].append({"name": remove_cell_type_suffix(ct, f.name), "ctype": ct.name, "dt": dtname(v),
                         "tail": list(v.shape[1:]), "v": v.flatten().tolist()})
    return lm


# ---------------------------------------------------------------- meshes with both members of a compatible pair

def gen_pair_mesh(rng, topo=None, dim=None, max_cells_per_dir=3, scale=None, jitter=0.0, with_simplices=True,
                  fields=True, dtypes=("f64", "f64", "f32", "i32", "i64")):
    """lattice mesh in which every cell independently is a QUAD, a PIXEL (or two TRIANGLEs) — topo 2 — or a HEXAHEDRON,
    a VOXEL (or six TETRAs) — topo 3; at least one cell of each member of the compatible pair whenever the lattice has
    two or more cells.  Returns (lm, tags)."""
    topo = topo or rng.choice([2, 2, 3])
    dim = dim or (rng.choice([2, 3]) if topo == 2 else 3)
    n = [rng.randint(1, max_cells_per_dir) for _ in range(topo)]
    if n == [1] * topo:
        n[0] = 2
    axes = sorted(rng.sample(range(dim), topo))
    sc = scale if scale is not None else rng.choice([1e-8, 1e-3, 1.0, 1.0, 2.5, 1e3, 1e8])
    off = rng.choice([0.0, 0.0, 1.0, -3.0, -40.0]) * sc
    const = [rng.choice([0.0, 0.0, 1.0, -2.0]) * sc for _ in range(dim)]
    shape = [k + 1 for k in n]
    idx, points = {}, []
    for t in itertools.product(*[range(s) for s in reversed(shape)]):
        t = tuple(reversed(t))
        p = list(const)
        for a, i in zip(axes, t):
            p[a] = off + sc * (i + (rng.uniform(-jitter, jitter) if jitter else 0.0))
        idx[t] = len(points)
        points.append(p)
    cellpos = list(itertools.product(*[range(k) for k in n]))
    kinds = (["quad", "pixel"] if topo == 2 else ["hex", "voxel"])
    pool = kinds + kinds + (["simplex"] if with_simplices else [])
    choice = [rng.choice(pool) for _ in cellpos]
    # both members of the pair at least once
    a, b = rng.sample(range(len(cellpos)), 2)
    choice[a], choice[b] = kinds[0], kinds[1]
    blocks = {}

    def add(tname, row):
        blocks.setdefault(tname, []).append(row)
    for c, s in zip(cellpos, choice):
        if topo == 2:
            i, j = c
            p00, p10, p11, p01 = idx[(i, j)], idx[(i + 1, j)], idx[(i + 1, j + 1)], idx[(i, j + 1)]
            if s == "quad":
                add("QUAD", [p00, p10, p11, p01])
            elif s == "pixel":
                add("PIXEL", [p00, p10, p01, p11])
            else:
                add("TRIANGLE", [p00, p10, p11]); add("TRIANGLE", [p00, p11, p01])
        else:
            i, j, k = c
            v = [idx[(i + a_, j + b_, k + d_)] for d_ in (0, 1) for b_ in (0, 1) for a_ in (0, 1)]
            if s == "voxel":
                add("VOXEL", v)
            elif s == "hex":
                add("HEXAHEDRON", [v[0], v[1], v[3], v[2], v[4], v[5], v[7], v[6]])
            else:
                for tet in ([0, 1, 3, 7], [0, 1, 5, 7], [0, 2, 3, 7], [0, 2, 6, 7], [0, 4, 5, 7], [0, 4, 6, 7]):
                    add("TETRA", [v[q] for q in tet])
    order = list(blocks)
    rng.shuffle(order)
    lm = {"dim": dim, "points": points, "cells": [[t, blocks[t]] for t in order], "pf": [], "cf": []}
    if fields:
        meshgen.add_fields(rng, lm, dtypes)
    return lm, {"dim": dim, "topo": topo, "style": "pair-" + "+".join(sorted(blocks)), "scale": sc, "jitter": jitter}


# ---------------------------------------------------------------- big lattices

def big_lattice(nx, ny, dim=2, style="quad", scale=1.0, offset=0.0, point_fields=1, cell_fields=1):
    """(nx+1) x (ny+1) points, nx*ny cells (quad / pixel / tri: 2*nx*ny triangles; 'line': ny ignored), embedded in the
    first two of `dim` coordinate columns; one scalar float64 point field and one int64 cell field with pairwise distinct
    values.  Deterministic."""
    pts, cells = [], []
    if style == "line":
        pts = [[offset + scale * i] + [0.0] * (dim - 1) for i in range(nx + 1)]
        cells = [["LINE", [[i, i + 1] for i in range(nx)]]]
    else:
        w = nx + 1
        for j in range(ny + 1):
            for i in range(nx + 1):
                pts.append([offset + scale * i, offset + scale * j] + [0.0] * (dim - 2))
        rows = []
        for j in range(ny):
            for i in range(nx):
                p00, p10, p11, p01 = j * w + i, j * w + i + 1, (j + 1) * w + i + 1, (j + 1) * w + i
                if style == "quad":
                    rows.append([p00, p10, p11, p01])
                elif style == "pixel":
                    rows.append([p00, p10, p01, p11])
                else:
                    rows.append([p00, p10, p11]); rows.append([p00, p11, p01])
        cells = [[{"quad": "QUAD", "pixel": "PIXEL", "tri": "TRIANGLE"}[style], rows]]
    lm = {"dim": dim, "points": pts, "cells": cells, "pf": [], "cf": []}
    for k in range(point_fields):
        lm["pf"].append({"name": f"bp{k}", "dt": "f64", "tail": [], "v": [10.0 + 0.5 * i + k for i in range(len(pts))]})
    for k in range(cell_fields):
        for t, rows in cells:
            lm["cf"].append({"name": f"bc{k}", "ctype": t, "dt": "i64", "tail": [], "v": [7 + 3 * i + k for i in range(len(rows))]})
    return lm


def fast_relabel(rng, lm, kind="random"):
    """relabelling of a big logical mesh (numpy inside, python lists outside): permuted points, permuted cells"""
    n = len(lm["points"])
    perm = np.arange(n)
    if kind == "reversal":
        perm = perm[::-1].copy()
    elif kind == "rotation":
        k = rng.randrange(1, n) if n > 1 else 0
        perm = np.concatenate((perm[k:], perm[:k]))
    elif kind != "identity":
        perm = np.array(rng.sample(range(n), n), dtype=np.int64)
    inv = np.empty(n, dtype=np.int64)
    inv[perm] = np.arange(n)
    out = {"dim": lm["dim"], "points": [lm["points"][o] for o in perm.tolist()], "cells": [], "pf": [], "cf": []}
    for f in lm["pf"]:
        rs = _rowsize(f["tail"])
        v = np.array(f["v"], dtype=object).reshape(n, rs)[perm].reshape(-1).tolist() if n else []
        out["pf"].append(dict(f, v=v))
    cps = {}
    for t, rows in lm["cells"]:
        cp = rng.sample(range(len(rows)), len(rows)) if kind != "identity" else list(range(len(rows)))
        cps[t] = cp
        a = inv[np.array(rows, dtype=np.int64).reshape(len(rows), -1)] if rows else np.zeros((0, 0), dtype=np.int64)
        out["cells"].append([t, a[cp].tolist() if rows else []])
    for f in lm["cf"]:
        rs = _rowsize(f["tail"])
        m = len(cps[f["ctype"]])
        v = np.array(f["v"], dtype=object).reshape(m, rs)[cps[f["ctype"]]].reshape(-1).tolist() if m else []
        out["cf"].append(dict(f, v=v))
    return out


# ---------------------------------------------------------------- orphans anywhere

def insert_orphans(rng, lm, where, k=2, coords=None):
    """copy of lm with k extra unconnected points at the 'front' / in the 'middle' / at the 'end' / 'scattered' over the
    point list (connectivity renumbered, point fields get fresh values for the new points)"""
    lm = copy.deepcopy(lm)
    n = len(lm["points"])
    if where == "front":
        pos = [0] * k
    elif where == "middle":
        pos = [n // 2] * k
    elif where == "end":
        pos = [n] * k
    else:
        pos = sorted(rng.randint(0, n) for _ in range(k))
    maxc = max([abs(c) for p in lm["points"] for c in p] + [0.0]) or 1.0
    # old index -> new index
    shift = [0] * (n + 1)
    for q in pos:
        for i in range(q, n + 1):
            shift[i] += 1
    new_points, new_rows = [], {f["name"]: [] for f in lm["pf"]}
    ins_at = {}
    for q in pos:
        ins_at[q] = ins_at.get(q, 0) + 1
    cnt = 0
    for i in range(n + 1):
        for _ in range(ins_at.get(i, 0)):
            p = list(coords[cnt]) if coords else [maxc * (1.5 + 0.13 * cnt + 0.01 * d) * (-1.0 if cnt % 2 else 1.0)
                                                  for d in range(lm["dim"])]
            new_points.append(p)
            for f in lm["pf"]:
                rs = _rowsize(f["tail"])
                if f["dt"] == "str":
                    new_rows[f["name"]] += ["orphan%d" % cnt] * rs
                else:
                    new_rows[f["name"]] += [(0 if f["dt"][0] in "iu" else 0.0)] * rs
            cnt += 1
        if i < n:
            new_points.append(lm["points"][i])
            for f in lm["pf"]:
                rs = _rowsize(f["tail"])
                new_rows[f["name"]] += f["v"][i * rs:(i + 1) * rs]
    lm["points"] = new_points
    for f in lm["pf"]:
        f["v"] = new_rows[f["name"]]
    for _, rows in lm["cells"]:
        for r in rows:
            for c in range(len(r)):
                r[c] = r[c] + shift[r[c]]
    return lm


# ---------------------------------------------------------------- odd fields

ODD_NAMES = ["", "ü∂", "a b", "a/b", "p (x)", "x:y", "c,d", "n\tt", "QUAD", "f (QUAD)"]


def add_odd_fields(rng, lm, names=True, strings=True, narrow=True):
    """extra point / cell fields: (n,1) shape, unsigned / narrow integers, strings, odd names"""
    lm = copy.deepcopy(lm)
    n = len(lm["points"])
    used = {f["name"] for f in lm["pf"]} | {f["name"] for f in lm["cf"]}

    def name(default):
        if names:
            cand = [x for x in ODD_NAMES if x not in used]
            if cand:
                x = rng.choice(cand)
                used.add(x)
                return x
        return default
    dts = ["u8", "i8", "i16", "u16", "u32", "u64"] if narrow else ["i64"]
    dt = rng.choice(dts)
    lm["pf"].append({"name": name("odd_p1"), "dt": dt, "tail": [1], "v": [(5 + 3 * i) % 120 for i in range(n)]})
    lm["pf"].append({"name": name("odd_p2"), "dt": "f64", "tail": [1], "v": [0.5 + 0.25 * i for i in range(n)]})
    if strings:
        lm["pf"].append({"name": name("odd_ps"), "dt": "str", "tail": [], "v": [f"s{i}" for i in range(n)]})
    cn, cdt = name("odd_c1"), rng.choice(dts)
    cs = name("odd_cs") if strings else None
    for t, rows in lm["cells"]:
        lm["cf"].append({"name": cn, "ctype": t, "dt": cdt, "tail": [1], "v": [(2 + 5 * i) % 120 for i in range(len(rows))]})
        if strings:
            lm["cf"].append({"name": cs, "ctype": t, "dt": "str", "tail": [], "v": [f"{t[:2]}{i}" for i in range(len(rows))]})
    return lm
