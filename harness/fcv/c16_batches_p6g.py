"""C16, phase 6 package G (quantifier-coverage audit): builders, evaluation protocols and directed case lists for the
dimensions of the property's quantifier that the generators of harness/corr/c16.py sampled at one point only.

New spec forms (JSON-able, self-contained; everything else is passed on to fcv.c16io.build):
  {"k": "P", "over": <R/S/I spec>}          sort(MeshFields(<structured mesh>)).domain — a permuted view over a structured mesh
  {"k": "E", "lm": lm, "store": {"pdt": "f64|f32|f16|>f8|i64|i32|u8", "cdt": "i64|i32|u8|u16|>i4", "layout": "C|F|strided|ro"}}
                                            explicit Mesh whose arrays are stored with the given dtypes / memory layout
  {"k": "E", "lm": lm, "ragged": true}      explicit Mesh whose POLYGON block is a 1-d object array of index arrays of different lengths
  {"k": "E"|"S", "recipe": {...}}           large lattice built with numpy from a few numbers (see build_recipe)

Evaluation protocols (how the two verdicts of a pair are obtained; recorded in the reported case, honoured by --replay):
  None / "ab-ba"  a.equals(b), then b.equals(a) on fresh objects (the only protocol before phase 6)
  "ba-first"      b.equals(a) first
  "touch-a" / "touch-b" / "touch-both"   points, cell_types and connectivity(...) of that object handed out before the first equals
  "twice"         a.equals(b), b.equals(a), a.equals(b), b.equals(a): every verdict is compared with the model, the rules see the last
  "self-first"    a.equals(a) and b.equals(b) first
"""
from __future__ import annotations
import copy
import itertools

import numpy as np

from . import c16io, meshgen

PROTOCOLS = [None, "ba-first", "touch-a", "touch-b", "touch-both", "twice", "self-first"]

P_DT = {"f64": np.float64, "f32": np.float32, "f16": np.float16, ">f8": ">f8", "i64": np.int64, "i32": np.int32, "u8": np.uint8}
C_DT = {"i64": np.int64, "i32": np.int32, "u8": np.uint8, "u16": np.uint16, ">i4": ">i4"}
INT_PDT = ("i64", "i32", "u8")
NARROW_FLOAT = ("f32", "f16")


# ---------------------------------------------------------------- building

def _layout(arr, layout):
    if layout == "F":
        return np.asfortranarray(arr)
    if layout in ("strided", "ro"):
        if arr.ndim == 2:
            big = np.zeros((arr.shape[0] * 2, arr.shape[1] + 2), dtype=arr.dtype)
            big[::2, 1:-1] = arr
            out = big[::2, 1:-1]
        else:
            big = np.zeros(arr.shape[0] * 2, dtype=arr.dtype)
            big[::2] = arr
            out = big[::2]
        if layout == "ro":
            out.flags.writeable = False
        return out
    return arr


def build(spec):
    """fcv.c16io.build plus the new spec forms"""
    from fieldcompare.mesh import Mesh, MeshFields, sort
    k = spec["k"]
    if "recipe" in spec:
        obj = build_recipe(spec)
    elif k == "P" and "over" in spec:
        inner = build({kk: v for kk, v in spec["over"].items() if kk != "tol"})
        if spec.get("tol") is not None:     # tolerances on the wrapped mesh; the views inherit them
            inner.set_tolerances(abs_tol=float(spec["tol"][0]), rel_tol=float(spec["tol"][1]))
        return sort(MeshFields(inner)).domain
    elif k == "E" and ("store" in spec or spec.get("ragged")):
        lm, st = spec["lm"], spec.get("store") or {}
        pts = np.array(lm["points"], dtype=np.float64).reshape(len(lm["points"]), lm["dim"])
        pts = _layout(pts.astype(P_DT[st.get("pdt", "f64")]), st.get("layout", "C"))
        conn = []
        for t, rows in lm["cells"]:
            if spec.get("ragged") and t == "POLYGON":
                arr = np.empty(len(rows), dtype=object)
                for i, r in enumerate(rows):
                    arr[i] = np.array(r, dtype=C_DT[st.get("cdt", "i64")])
            else:
                arr = np.array(rows, dtype=C_DT[st.get("cdt", "i64")]).reshape(len(rows), -1 if rows else (meshgen.NCORNERS[t] or 0))
                arr = _layout(arr, st.get("layout", "C"))
            conn.append((meshgen.celltype(t), arr))
        obj = Mesh(pts, conn)
    else:
        return c16io.build(spec)
    if spec.get("tol") is not None:
        obj.set_tolerances(abs_tol=float(spec["tol"][0]), rel_tol=float(spec["tol"][1]))
    return obj


def pdt(spec):
    return (spec.get("store") or {}).get("pdt", "f64")


def int_coords(sa, sb):
    """both sides store integer-typed coordinates (observation class, see INT_COORDS_STRICT in corr/c16.py)"""
    return pdt(sa) in INT_PDT and pdt(sb) in INT_PDT


def margin(sa, sb):
    """the arithmetic of the comparison is not binary64 (both sides float32 / float16): the Lean model (binary64) is not
    consulted and the independent oracle demands a verdict only outside a band of 4x around the tolerances"""
    return 4.0 if (pdt(sa) in NARROW_FLOAT and pdt(sb) in NARROW_FLOAT) else 1.0


def no_model(sa, sb):
    return margin(sa, sb) != 1.0 or bool(sa.get("ragged") or sb.get("ragged")) or int_coords(sa, sb)


# ---------------------------------------------------------------- protocols

def touch(obj):
    pts = obj.points
    for ct in list(obj.cell_types):
        obj.connectivity(ct)
    return pts


def run_protocol(A, B, proto):
    """-> (ab, ba, earlier) ; earlier = [(order, verdict)] of the additional calls of protocol 'twice'"""
    run = c16io.run_equals
    earlier = []
    if proto in (None, "ab-ba"):
        ab = run(A, B)
        ba = run(B, A)
    elif proto == "ba-first":
        ba = run(B, A)
        ab = run(A, B)
    elif proto in ("touch-a", "touch-b", "touch-both"):
        try:
            if proto != "touch-b":
                touch(A)
            if proto != "touch-a":
                touch(B)
        except Exception as e:  # noqa: BLE001
            return f"X:touch:{type(e).__name__}", f"X:touch:{type(e).__name__}", earlier
        ab = run(A, B)
        ba = run(B, A)
    elif proto == "twice":
        earlier = [("a.equals(b)", run(A, B)), ("b.equals(a)", run(B, A))]
        ab = run(A, B)
        ba = run(B, A)
    elif proto == "self-first":
        run(A, A)
        run(B, B)
        ab = run(A, B)
        ba = run(B, A)
    else:
        raise ValueError(proto)
    return ab, ba, earlier


# ---------------------------------------------------------------- B1: representation matrix

REPRS = ["E", "Ec", "PE", "I", "R", "S", "PI", "PR", "PS"]
MATRIX_VARIANTS = ["same", "shift-meshed-f0.3", "shift-meshed-f1000", "shift-flat", "e-cell-first", "e-cell-last", "e-retype",
                   "e-extrapoint-first", "e-extrapoint-middle", "e-extrapoint-last", "shift-meshed-f3", "same"]
MATRIX_EXTS = [[2, 1, 0], [0, 2, 1], [2, 0, 1], [3, 0, 0], [0, 2, 0], [0, 0, 3], [1, 1, 1], [2, 1, 2], [1, 0, 0], [1, 2, 0]]


def image_as_rect(spec):
    return {"k": "R", "ext": list(spec["ext"]),
            "ords": [[spec["origin"][d] + spec["spacing"][d] * i for i in range(spec["ext"][d] + 1)] for d in range(3)]}


def rect_points(r):
    ords = [o if o else [0.0] for o in r["ords"]]
    return [[x, y, z] for z in ords[2] for y in ords[1] for x in ords[0]]


def _grid_reprs(img):
    """every representation of one lattice (the image spec has the standard basis)"""
    rct = image_as_rect(img)
    st = {"k": "S", "ext": list(rct["ext"]), "dim": 3, "points": rect_points(rct)}
    e_lm = c16io.explicit_lm(c16io.build(rct))
    out = {"I": img, "R": rct, "S": st, "E": {"k": "E", "lm": e_lm}, "PE": {"k": "P", "lm": e_lm},
           "PI": {"k": "P", "over": img}, "PR": {"k": "P", "over": rct}, "PS": {"k": "P", "over": st}}
    out["Ec"] = {"k": "E", "lm": c16io.explicit_lm(build(out["PE"]))}      # canonical (sorted) storage order
    return out


def _retype(lm):
    """the same cells stored under a type that is NOT interchangeable with the original one (same corner count where one exists)"""
    swap = {"QUAD": "TETRA", "PIXEL": "TETRA", "TETRA": "QUAD", "LINE": "POLY_LINE", "VOXEL": "QUADRATIC_QUAD",
            "HEXAHEDRON": "QUADRATIC_QUAD", "TRIANGLE": "POLYGON", "POLYGON": "QUAD"}
    have = {t for t, _ in lm["cells"]}
    for blk in lm["cells"]:
        new = swap.get(blk[0])
        if new and new not in have:
            blk[0] = new
            return new
    return None


def _mutate_explicit_side(spec, variant):
    """variant e-*: modify the explicit data of an E / P-over-E spec; returns False if not applicable"""
    if "lm" not in spec:
        return False
    lm = spec["lm"]
    n = len(lm["points"])
    rows = lm["cells"][0][1]
    if variant in ("e-cell-first", "e-cell-last"):
        r = rows[0] if variant == "e-cell-first" else rows[-1]
        free = [i for i in range(n) if i not in r]
        if not free:
            return False
        r[-1] = free[-1] if variant == "e-cell-first" else free[0]
    elif variant == "e-retype":
        return _retype(lm) is not None
    elif variant.startswith("e-extrapoint"):
        pos = {"first": 0, "middle": n // 2, "last": n}[variant.rsplit("-", 1)[1]]
        hi = [max(p[d] for p in lm["points"]) for d in range(lm["dim"])]
        lm["points"].insert(pos, [h + 1.0 for h in hi])
        lm["cells"] = [[t, [[i + 1 if i >= pos else i for i in r] for r in rs]] for t, rs in lm["cells"]]
    else:
        return False
    return True


def matrix_cases(rng, n_grids):
    """-> [(sa, sb, tags, protocol)]: for every grid all ordered pairs (X of the grid, Y of a variant of the grid)"""
    out = []
    k = 0
    first_ext = rng.randrange(len(MATRIX_EXTS))     # a quick run walks through 6 of the 10 fixed extents, starting anywhere
    for gi in range(n_grids):
        ext = list(MATRIX_EXTS[(first_ext + gi) % len(MATRIX_EXTS)]) if gi < len(MATRIX_EXTS) else \
            rng.choice([[rng.randint(0, 3), rng.randint(0, 3), rng.randint(0, 3)] for _ in range(8)] + MATRIX_EXTS)
        if not any(ext):
            ext = [1, 0, 0]
        sc = rng.choice([1e-3, 1.0, 1.0, 2.5, 1e3])
        img = {"k": "I", "ext": ext, "origin": [rng.choice([0.0, 1.0, -3.0, 7.0]) * sc * (d < 2 or ext[2] > 0 or gi % 2) for d in range(3)],
               "spacing": [sc * rng.choice([1.0, 0.5, -0.25, 3.0]) for _ in range(3)],
               "basis": rng.choice([None, copy.deepcopy(c16io_identity())])}
        meshed = [d for d in range(3) if ext[d] > 0]
        flat = [d for d in range(3) if ext[d] == 0]
        if gi % 3 == 1:
            # directed: the largest |coordinate| is the FAR corner of a direction with negative spacing and negative origin
            d0 = meshed[0]
            img["origin"] = [-7.0 * sc if d == d0 else 0.1 * img["origin"][d] for d in range(3)]
            img["spacing"][d0] = -3.0 * sc
        maxc = max(max(abs(img["origin"][d]), abs(img["origin"][d] + img["spacing"][d] * ext[d])) for d in range(3)) or 1.0
        first = _grid_reprs(img)
        variants = {}
        for x, y in itertools.product(REPRS, REPRS):
            variant = MATRIX_VARIANTS[k % len(MATRIX_VARIANTS)]
            proto = PROTOCOLS[(k // 3) % len(PROTOCOLS)]
            k += 1
            if variant.startswith("e-") and y not in ("E", "Ec", "PE"):
                variant = "same" if k % 2 else "shift-meshed-f1000"
            if variant == "shift-flat" and not flat:
                variant = "shift-meshed-f1000"
            if variant.startswith("shift"):
                if variant not in variants:
                    i2 = copy.deepcopy(img)
                    d = rng.choice(flat) if variant == "shift-flat" else rng.choice(meshed)
                    f = 1000.0 if variant == "shift-flat" else float(variant.split("-f")[1])
                    i2["origin"][d] += f * maxc * 1e-8
                    variants[variant] = _grid_reprs(i2)
                sb = copy.deepcopy(variants[variant][y])
            else:
                sb = copy.deepcopy(first[y])
                if variant.startswith("e-") and not _mutate_explicit_side(sb, variant):
                    variant = "same"
            sa = copy.deepcopy(first[x])
            tags = [f"matrix-{x}~{y}", "matrix-" + variant, "matrix-flat" + str(len(flat)), "protocol-" + str(proto or "ab-ba")]
            out.append((sa, sb, tags, proto))
        if ext[2] == 0 and img["origin"][2] == 0.0:
            # mixed space dimension: the same lattice (in the plane z = 0) stored with TWO coordinate columns, against every
            # representation (three columns) and against itself
            def two_col(reprs):
                s2 = copy.deepcopy(reprs["S"])
                s2["dim"], s2["points"] = 2, [p[:2] for p in s2["points"]]
                e2 = copy.deepcopy(reprs["E"])
                e2["lm"]["dim"], e2["lm"]["points"] = 2, [p[:2] for p in e2["lm"]["points"]]
                return {"S2": s2, "E2": e2, "PE2": {"k": "P", "lm": copy.deepcopy(e2["lm"])}}
            t1 = two_col(first)
            if "shift-meshed-f1000" not in variants:
                i2 = copy.deepcopy(img)
                i2["origin"][rng.choice(meshed)] += 1000.0 * maxc * 1e-8
                variants["shift-meshed-f1000"] = _grid_reprs(i2)
            t2 = two_col(variants["shift-meshed-f1000"])
            for x in ("S2", "E2", "PE2"):
                partners = [(y, first[y], "same") for y in REPRS] + [(y, t1[y], "same") for y in t1] + \
                           [(y, t2[y], "shift-meshed-f1000") for y in t2]
                for y, spec_y, variant in partners:
                    proto = PROTOCOLS[k % len(PROTOCOLS)]
                    k += 1
                    out.append((copy.deepcopy(t1[x]), copy.deepcopy(spec_y),
                                [f"matrix-{x}~{y}", "matrix-" + variant, "matrix-two-columns", "protocol-" + str(proto or "ab-ba")], proto))
    return out


def c16io_identity():
    return [[1.0, 0.0, 0.0], [0.0, 1.0, 0.0], [0.0, 0.0, 1.0]]


# ---------------------------------------------------------------- B3: cell-type sets

def _split_compatible(lm, swap_order):
    """QUAD (PIXEL, HEXAHEDRON, VOXEL) block split in two: first half keeps its type, second half stored as the
    interchangeable partner type (corners reordered) — both members of a compatible pair in ONE mesh"""
    q, h = [0, 1, 3, 2], [0, 1, 3, 2, 4, 5, 7, 6]
    ren = {"QUAD": ("PIXEL", q), "PIXEL": ("QUAD", q), "HEXAHEDRON": ("VOXEL", h), "VOXEL": ("HEXAHEDRON", h)}
    names = [t for t, _ in lm["cells"]]
    for bi, (t, rows) in enumerate(lm["cells"]):
        if t in ren and ren[t][0] not in names and len(rows) >= 2:
            nm, p = ren[t]
            half = len(rows) // 2
            keep, other = rows[:half], [[r[i] for i in p] for r in rows[half:]]
            blocks = [[t, keep], [nm, other]]
            if swap_order:
                blocks.reverse()
            lm["cells"][bi:bi + 1] = blocks
            return True
    return False


def celltype_cases(rng, n):
    """explicit pairs (E / P) around the cell-type set logic: a block retyped to a non-interchangeable type with the same
    corners (same NUMBER of one-sided types on both sides), both members of an interchangeable pair in one mesh (on one
    side, on both sides in the same / in swapped block order, halves exchanged), ragged polygon blocks"""
    out = []
    for i in range(n):
        for _ in range(12):     # the split kinds need a block of an interchangeable type with at least two cells
            lm, t = meshgen.gen_mesh(rng, max_cells_per_dir=3, fields=False, allow_orphans=False, allow_duplicates=False,
                                     dims=(1, 2, 3) if i % 6 in (0, 5) else (2, 3))
            if i % 6 in (0, 5) or any(t_ in ("QUAD", "PIXEL", "HEXAHEDRON", "VOXEL") and len(r_) >= 2 for t_, r_ in lm["cells"]):
                break
        try:
            lm = c16io.explicit_lm(c16io.build({"k": "P", "lm": lm}))       # canonical storage order
        except Exception:  # noqa: BLE001
            continue
        kind = ["retype", "split-one-side", "split-both-same-order", "split-both-swapped-order", "split-halves-exchanged",
                "retype-both-sides-differently"][i % 6]
        a, b = copy.deepcopy(lm), copy.deepcopy(lm)
        ok = True
        if kind == "retype":
            ok = _retype(b) is not None
        elif kind == "retype-both-sides-differently":
            ok = _retype(b) is not None
            if ok:
                # a keeps the original; b2 = a third type: compare b with a retyped copy whose new type differs again
                a = copy.deepcopy(b)
                ok = _retype(a) is not None
        elif kind == "split-one-side":
            ok = _split_compatible(b, swap_order=bool(i % 4 == 1))
        elif kind == "split-both-same-order":
            ok = _split_compatible(a, False) and _split_compatible(b, False)
        elif kind == "split-both-swapped-order":
            ok = _split_compatible(a, False) and _split_compatible(b, True)
        elif kind == "split-halves-exchanged":
            # a: first half QUAD, second half PIXEL; b: first half PIXEL ... i.e. the types of the halves exchanged
            ok = _split_compatible(a, False)
            if ok:
                b = copy.deepcopy(a)
                b["cells"] = [[{"QUAD": "PIXEL", "PIXEL": "QUAD", "HEXAHEDRON": "VOXEL", "VOXEL": "HEXAHEDRON"}.get(t_, t_),
                               ([[r[j] for j in ([0, 1, 3, 2] if len(r) == 4 else [0, 1, 3, 2, 4, 5, 7, 6])] for r in rows]
                                if t_ in ("QUAD", "PIXEL", "HEXAHEDRON", "VOXEL") else rows)] for t_, rows in b["cells"]]
        if not ok:
            kind = "same"
        ka, kb = rng.choice([("E", "E"), ("E", "E"), ("P", "E"), ("P", "P")])
        out.append(({"k": ka, "lm": a}, {"k": kb, "lm": b}, [f"celltypes-{kind}", f"pair-{ka}{kb}", "style-" + str(t["style"])],
                    PROTOCOLS[i % len(PROTOCOLS)]))
    # ragged polygons: a strip of polygons with 3, 4, 5, ... corners over a lattice
    for i in range(max(2, n // 6)):
        npoly = rng.randint(2, 5)
        pts = [[float(x), float(y)] for y in range(3) for x in range(npoly + 3)]
        w = npoly + 3
        rows = []
        for c in range(npoly):
            ring = [c, c + 1, w + c + 1, 2 * w + c + 1, 2 * w + c, w + c]
            rows.append(ring[:3 + (c + i) % 4])
        a = {"dim": 2, "points": pts, "cells": [["POLYGON", rows]], "pf": [], "cf": []}
        if i % 2:
            a["cells"].insert(i % 3 % 2, ["LINE", [[0, 1], [1, 2]]])
        for how in ("same", "rotated", "rewired-last", "one-corner-less", "blocks-reordered"):
            b = copy.deepcopy(a)
            pr = next(r for t_, r in b["cells"] if t_ == "POLYGON")
            if how == "rotated":
                pr[:] = [r[1:] + r[:1] for r in pr]
            elif how == "rewired-last":
                free = [j for j in range(len(pts)) if j not in pr[-1]]
                pr[-1][-1] = free[0]
            elif how == "one-corner-less":
                j = max(range(len(pr)), key=lambda q: len(pr[q]))
                pr[j] = pr[j][:-1]
            elif how == "blocks-reordered":
                b["cells"].reverse()
            out.append(({"k": "E", "lm": a, "ragged": True}, {"k": "E", "lm": b, "ragged": True},
                        ["celltypes-ragged-polygon", "ragged-" + how, "pair-EE"], PROTOCOLS[(i + len(how)) % len(PROTOCOLS)]))
    # ragged polygons whose cell BOUNDARIES differ while the corners, read one cell after the other, give the same index
    # sequence: quad(0 1 2 3) + triangle(4 5 6) against triangle(0 1 2) + quad(3 4 5 6) — same points, same number of cells,
    # same total number of corners, different cells
    pts = [[float(x), float(y)] for y in range(2) for x in range(4)]
    for i, (ra, rb) in enumerate(((([0, 1, 2, 3], [4, 5, 6]), ([0, 1, 2], [3, 4, 5, 6])),
                                  (([0, 1, 2], [3, 4, 5, 6, 7]), ([0, 1, 2, 3], [4, 5, 6, 7])),
                                  (([0, 1, 2, 3, 4], [5, 6, 7]), ([0, 1, 2], [3, 4, 5, 6, 7])))):
        a = {"dim": 2, "points": copy.deepcopy(pts), "cells": [["POLYGON", [list(r) for r in ra]]], "pf": [], "cf": []}
        b = {"dim": 2, "points": copy.deepcopy(pts), "cells": [["POLYGON", [list(r) for r in rb]]], "pf": [], "cf": []}
        out.append(({"k": "E", "lm": a, "ragged": True}, {"k": "E", "lm": b, "ragged": True},
                    ["celltypes-ragged-polygon", "ragged-boundary-shifted", "pair-EE"], PROTOCOLS[i % len(PROTOCOLS)]))
    return out


# ---------------------------------------------------------------- B4: storage (dtypes, memory layout)

def _f32_lm(lm):
    lm = copy.deepcopy(lm)
    lm["points"] = [[float(np.float32(c)) for c in p] for p in lm["points"]]
    return lm


def storage_cases(rng, n):
    """explicit pairs whose arrays are stored with different coordinate dtypes / connectivity index types / memory layouts
    on the two sides; second member = first (T), one coordinate moved by 1e3 / 1e5 x tolerance (F), one cell rewired (F)"""
    out = []
    pdts = ["f64", "f64", ">f8", "f32", "f32", "f16", "i64", "i32", "u8"]
    cdts = ["i64", "i32", "u8", "u16", ">i4"]
    layouts = ["C", "F", "strided", "ro", "ro"]
    for i in range(n):
        lm, t = meshgen.gen_mesh(rng, max_cells_per_dir=3, fields=False, allow_orphans=(i % 3 == 0), allow_duplicates=False,
                                 scale=rng.choice([1.0, 2.0, 16.0]))
        pa, pb = rng.choice(pdts), rng.choice(pdts)
        if i % 5 == 0:
            pb = pa
        if "f16" in (pa, pb) or pa in INT_PDT or pb in INT_PDT:
            # values every one of the types represents exactly: small non-negative integers
            lo = min(c for p in lm["points"] for c in p)
            lm["points"] = [[float(round((c - lo) * (1 if abs(c - lo) < 40 else 0.01))) for c in p] for p in lm["points"]]
        elif "f32" in (pa, pb):
            lm = _f32_lm(lm)
        how = ["same", "coord", "cell", "same", "coord-last"][i % 5]
        b = copy.deepcopy(lm)
        maxc = max([abs(c) for p in lm["points"] for c in p] + [1.0])
        if how.startswith("coord"):
            pi = len(b["points"]) - 1 if how == "coord-last" else rng.randrange(len(b["points"]))
            j = rng.randrange(b["dim"])
            step = max(1.0, float(round(maxc * 1e-3))) if ("f16" in (pa, pb) or pa in INT_PDT or pb in INT_PDT) else maxc * 1e-3
            b["points"][pi][j] = float(np.float32(b["points"][pi][j] + step))
        elif how == "cell":
            rows = rng.choice(b["cells"])[1]
            r = rng.choice(rows)
            free = [q for q in range(len(b["points"])) if q not in r]
            if free:
                r[rng.randrange(len(r))] = rng.choice(free)
            else:
                how = "same"
        sa = {"k": "E", "lm": lm, "store": {"pdt": pa, "cdt": rng.choice(cdts), "layout": rng.choice(layouts)}}
        sb = {"k": "E", "lm": b, "store": {"pdt": pb, "cdt": rng.choice(cdts), "layout": rng.choice(layouts)}}
        if i % 7 == 3:      # one side a permuted view over the specially stored mesh ... built by c16io from plain data
            sb = {"k": "E", "lm": b}
        tags = ["storage", f"storage-points-{pa}~{pb}", f"storage-conn-{sa['store']['cdt']}~{(sb.get('store') or {}).get('cdt', 'i64')}",
                f"storage-layout-{sa['store']['layout']}~{(sb.get('store') or {}).get('layout', 'C')}", "storage-" + how]
        out.append((sa, sb, tags, PROTOCOLS[i % len(PROTOCOLS)]))
    return out


# ---------------------------------------------------------------- B5: large lattices

def build_recipe(spec):
    """{"k": "E"|"S"|"R"|"I", "recipe": {"ext": [..], "sc": s, "dev": None | {"point": i, "comp": j, "delta": x},
                                     "cell": None | {"cell": c, "corner": q, "to": p}, "order": "pixel"|"quad"}}
    lattice with ordinates sc * i in every meshed direction; the deviation moves ONE coordinate of ONE point (E, S) resp.
    rewires ONE corner of ONE cell (E)"""
    from fieldcompare.mesh import Mesh, StructuredMesh, RectilinearMesh, ImageMesh, CellTypes
    rc = spec["recipe"]
    ext, sc = list(rc["ext"]), float(rc["sc"])
    k = spec["k"]
    if k == "R":
        ords = [np.arange(e + 1, dtype=np.float64) * sc for e in ext]
        if rc.get("ord"):       # one ordinate moved: {"dir": d, "index": i, "delta": x}
            ords[rc["ord"]["dir"]][rc["ord"]["index"]] += rc["ord"]["delta"]
        return RectilinearMesh(tuple(ext), tuple(ords))
    if k == "I":
        return ImageMesh(tuple(ext), (0.0, 0.0, 0.0), (sc, sc, sc))
    ax = [np.arange(e + 1, dtype=np.float64) * sc for e in ext]
    z, y, x = np.meshgrid(ax[2], ax[1], ax[0], indexing="ij")
    pts = np.stack([x.ravel(), y.ravel(), z.ravel()], axis=1)
    dev = rc.get("dev")
    if dev:
        pts[dev["point"], dev["comp"]] += dev["delta"]
    if k == "S":
        return StructuredMesh(tuple(ext), pts)
    nz = [e for e in ext if e > 0]
    shape = [e + 1 for e in nz]
    idx = np.arange(int(np.prod(shape))).reshape(list(reversed(shape)))      # idx[k, j, i]
    if len(nz) == 1:
        conn, ct = np.stack([idx[:-1], idx[1:]], axis=1), CellTypes.line
    elif len(nz) == 2:
        p0, p1, p2, p3 = idx[:-1, :-1].ravel(), idx[:-1, 1:].ravel(), idx[1:, :-1].ravel(), idx[1:, 1:].ravel()
        if rc.get("order", "pixel") == "pixel":
            conn, ct = np.stack([p0, p1, p2, p3], axis=1), CellTypes.pixel
        else:
            conn, ct = np.stack([p0, p1, p3, p2], axis=1), CellTypes.quad
    else:
        c = [idx[dz:idx.shape[0] - 1 + dz, dy:idx.shape[1] - 1 + dy, dx:idx.shape[2] - 1 + dx].ravel()
             for dz in (0, 1) for dy in (0, 1) for dx in (0, 1)]
        if rc.get("order", "pixel") == "pixel":
            conn, ct = np.stack(c, axis=1), CellTypes.voxel
        else:
            conn, ct = np.stack([c[0], c[1], c[3], c[2], c[4], c[5], c[7], c[6]], axis=1), CellTypes.hexahedron
    conn = np.ascontiguousarray(conn)
    cell = rc.get("cell")
    if cell:
        conn[cell["cell"], cell["corner"]] = cell["to"]
    return Mesh(pts, [(ct, conn)])


def large_cases(rng, exts, full_above=20000):
    """-> [case dict]: pairs of large lattices (every representation pair) that are identical or differ in exactly one
    coordinate of one point / one corner of one cell at the first / a middle / the last position; the demanded verdict
    follows from the construction (deviation = 0 or 1e-3 x the lattice constant >> tolerance)"""
    out = []
    for ext in exts:
        npts = int(np.prod([e + 1 for e in ext]))
        ncells = int(np.prod([e for e in ext if e > 0]))
        sc = rng.choice([1.0, 0.5, 2.0])
        base = {"ext": list(ext), "sc": sc}
        positions = {"first": 0, "middle": npts // 2 + 1, "block-1024": min(1024, npts - 1), "last": npts - 1}
        pairs = [("S", "S"), ("E", "E"), ("E", "S"), ("R", "S"), ("I", "E"), ("R", "E"), ("I", "S"), ("R", "R"), ("I", "I"), ("I", "R")]
        if npts > full_above:       # the structured classes build their connectivity row by row in Python
            pairs = [("S", "S"), ("E", "E"), ("R", "R"), ("I", "I")]
        n = 0
        for ka, kb in pairs:
            order_a, order_b = ("pixel", "quad") if n % 2 else ("quad", "pixel")
            sa = {"k": ka, "recipe": dict(base, order=order_a)}
            out.append({"p6g": "large", "a": sa, "b": {"k": kb, "recipe": dict(base, order=order_b)}, "expect": "T",
                        "name": f"{ka}~{kb}:same", "npoints": npts})
            n += 1
            big = npts > full_above
            if kb == "R":
                d = max(range(3), key=lambda q: ext[q])
                for oname, oi in {"first": 0, "middle": ext[d] // 2, "block-1024": min(1024, ext[d]), "last": ext[d]}.items():
                    out.append({"p6g": "large", "a": sa, "expect": "F", "name": f"{ka}~{kb}:ordinate-{oname}", "npoints": npts,
                                "b": {"k": kb, "recipe": dict(base, ord={"dir": d, "index": oi, "delta": 1e-3 * sc})}})
            if kb in "ES" and not (big and ka != kb):
                for pname, pi in positions.items():
                    if big and pname in ("first", "middle"):
                        continue
                    comp = n % 3
                    n += 1
                    out.append({"p6g": "large", "a": sa, "expect": "F", "name": f"{ka}~{kb}:point-{pname}", "npoints": npts,
                                "b": {"k": kb, "recipe": dict(base, order=order_b, dev={"point": pi, "comp": comp, "delta": 1e-3 * sc})}})
            if kb == "E":
                for cname, ci in {"first": 0, "middle": ncells // 2, "block-1024": min(1024, ncells - 1), "last": ncells - 1}.items():
                    if big and (cname != "last" if ka != kb else cname in ("first", "middle")):
                        continue
                    # corner 0 of the cell rewired to a point that is not a corner of it
                    to = npts - 1 if ci < ncells // 2 else 0
                    out.append({"p6g": "large", "a": sa, "expect": "F", "name": f"{ka}~{kb}:cell-{cname}", "npoints": npts,
                                "b": {"k": kb, "recipe": dict(base, order=order_b, cell={"cell": ci, "corner": 0, "to": to})}})
    return out


def eval_large(case):
    """-> (ab, ba) on fresh objects"""
    A, B = build(case["a"]), build(case["b"])
    return c16io.run_equals(A, B), c16io.run_equals(B, A)


def replay_large(case):
    ab, ba = eval_large(case)
    print(f"replay: large lattice pair {case['name']} ({case['npoints']} points): a.equals(b)={ab} b.equals(a)={ba}; "
          f"the construction demands {case['expect']} in both orders")
    return ab != case["expect"] or ba != case["expect"]


# ---------------------------------------------------------------- B6: non-finite coordinates (S1 / S2 only)

def nonfinite_cases():
    out = []
    lm = {"dim": 2, "points": [[0.0, 0.0], [1.0, 0.0], [2.0, 0.0], [0.0, 1.0], [1.0, 1.0], [2.0, 1.0]],
          "cells": [["QUAD", [[0, 1, 4, 3], [1, 2, 5, 4]]]], "pf": [], "cf": []}
    for name, bad in (("nan", float("nan")), ("inf", float("inf")), ("-inf", float("-inf"))):
        for pos in (0, 5):
            l2 = copy.deepcopy(lm)
            l2["points"][pos][1] = bad
            r1 = {"k": "R", "ext": [2, 1, 0], "ords": [[0.0, 1.0, 2.0], [0.0, 1.0], []]}
            r2 = {"k": "R", "ext": [2, 1, 0], "ords": [[0.0, 1.0, 2.0], [0.0, bad] if pos else [bad, 1.0], []]}
            i1 = {"k": "I", "ext": [2, 1, 0], "origin": [0.0, 0.0, 0.0], "spacing": [1.0, 1.0, 1.0], "basis": None}
            i2 = {"k": "I", "ext": [2, 1, 0], "origin": [0.0, bad, 0.0], "spacing": [1.0, 1.0, 1.0], "basis": None}
            i3 = {"k": "I", "ext": [2, 1, 0], "origin": [0.0, 0.0, 0.0], "spacing": [1.0, bad, 1.0], "basis": None}
            s1 = {"k": "S", "ext": [2, 1, 0], "dim": 2, "points": lm["points"]}
            s2 = {"k": "S", "ext": [2, 1, 0], "dim": 2, "points": l2["points"]}
            members = [{"k": "E", "lm": lm}, {"k": "E", "lm": l2}, {"k": "P", "lm": lm}, r1, r2, i1, i2, i3, s1, s2]
            for a, b in itertools.product(members, members):
                out.append((a, b, f"nonfinite-{name}"))
    return out
