"""Phase-5 package C helper for C17: mesh FILES that keep the space dimension of their points, and the two CLI modes.

Which writers keep a 1-/2-component coordinate array (measured when this was written; every generated file is read back
through `fieldcompare.io.read` and compared with the logical mesh it was written from, files that do not round-trip
are discarded and counted):
  .xdmf (meshio, heavy data in HDF5): dimension 2 and 3; scalar, (n,1), (n,d), (n,3) and (n,d,d) fields; no 1-d points
  .med  (meshio):                     dimension 1, 2 and 3; scalar and vector fields ((n,1) and tensors are flattened)
  .vtu / .vtk (meshio and fieldcompare's own writer) pad the points to three coordinates: useless here.
"""
from __future__ import annotations
import os
import shutil
import tempfile
import warnings

import numpy as np

from . import cli_scen as cs
from . import meshgen
from .predio import NP_DT

MESHIO_NAME = {"VERTEX": "vertex", "LINE": "line", "TRIANGLE": "triangle", "QUAD": "quad", "TETRA": "tetra",
               "HEXAHEDRON": "hexahedron"}

FLAG_DIM = "--disable-mesh-space-dimension-matching"
FLAG_REORDER = "--disable-mesh-reordering"

# (format, d, sd, point-field tails(d), cell-field tails(d))
FAMILIES = [
    (".xdmf", 2, 3, lambda d: [[], [1], [d], [3], [d, d]], lambda d: [[], [d], [d, d], [3]]),
    (".med", 1, 2, lambda d: [[], [3]], lambda d: [[], [3]]),
    (".med", 1, 3, lambda d: [[], [3]], lambda d: [[], [3]]),
    (".med", 2, 3, lambda d: [[], [d], [3]], lambda d: [[], [d], [3]]),
]


def available(ext: str) -> bool:
    try:
        import meshio  # noqa: F401
        import h5py  # noqa: F401      (both the XDMF heavy data and MED need it)
    except ImportError:
        return False
    return True


def to_meshio(lm):
    """logical mesh -> meshio.Mesh, built from the plain lists (no fieldcompare code involved)"""
    import meshio
    n = len(lm["points"])
    pts = np.array(lm["points"], dtype=np.float64).reshape(n, lm["dim"])
    cells = [(MESHIO_NAME[t], np.array(rows, dtype=np.int64)) for t, rows in lm["cells"]]
    pd = {f["name"]: np.array(f["v"], dtype=NP_DT[f["dt"]]).reshape([n] + list(f["tail"])) for f in lm["pf"]}
    per = {}
    for f in lm["cf"]:
        per.setdefault(f["name"], {})[f["ctype"]] = f
    cd = {name: [np.array(fs[t]["v"], dtype=NP_DT[fs[t]["dt"]]).reshape([len(rows)] + list(fs[t]["tail"]))
                 for t, rows in lm["cells"]] for name, fs in per.items()}
    return meshio.Mesh(pts, cells, point_data=pd, cell_data=cd)


def write(lm, path):
    with warnings.catch_warnings():
        warnings.simplefilter("ignore")
        to_meshio(lm).write(path)


def reads_back(lm, path, canon) -> bool:
    """does the public reader return exactly the logical mesh written (dimension, shapes, dtypes, values)?"""
    import fieldcompare.io as fio
    try:
        with warnings.catch_warnings():
            warnings.simplefilter("ignore")
            back = meshgen.from_fc(fio.read(path))
    except BaseException:  # noqa: BLE001 — meshio may call sys.exit on files it cannot read
        return False
    return canon(back) == canon(lm)


def make_fields(rng, lm, ptails, ctails, k):
    """scalar / vector / tensor point and cell fields; the k-th case is guaranteed to carry the k-th shape of the pool"""
    n = len(lm["points"])
    lm["pf"], lm["cf"] = [], []
    chosen = [ptails[k % len(ptails)]] + [rng.choice(ptails) for _ in range(rng.randint(0, 2))]
    for j, tail in enumerate(chosen):
        dt = rng.choice(["f64", "f64", "i64"])
        lm["pf"].append({"name": f"p{j}", "dt": dt, "tail": list(tail),
                         "v": meshgen._distinct_values(rng, dt, n * meshgen._rowsize(tail))})
    chosen = [ctails[k % len(ctails)]] + [rng.choice(ctails) for _ in range(rng.randint(0, 1))]
    for j, tail in enumerate(chosen):
        dt = rng.choice(["f64", "i64"])
        for t, rows in lm["cells"]:
            lm["cf"].append({"name": f"c{j}", "ctype": t, "dt": dt, "tail": list(tail),
                             "v": meshgen._distinct_values(rng, dt, len(rows) * meshgen._rowsize(tail))})
    return lm


class Tree:
    """<root>/res/<name>, <root>/ref/<name> (+ an identical companion table on both sides): the directory pair that
    contains the file pair"""

    def __init__(self):
        self.root = tempfile.mkdtemp(prefix="fcv_c17cli_")
        self.k = 0

    def pair(self, src_lm, ref_lm, ext):
        self.k += 1
        base = os.path.join(self.root, f"t{self.k}")
        res, ref = os.path.join(base, "res"), os.path.join(base, "ref")
        for side, lm in ((res, src_lm), (ref, ref_lm)):
            os.makedirs(side)
            write(lm, os.path.join(side, "mesh" + ext))
            with open(os.path.join(side, "table.csv"), "w") as fh:
                fh.write("a,b\n1.0,2.0\n3.0,4.0\n5.0,6.5\n")
        return base, res, ref, os.path.join(res, "mesh" + ext), os.path.join(ref, "mesh" + ext)

    def drop(self, base):
        shutil.rmtree(base, ignore_errors=True)

    def close(self):
        shutil.rmtree(self.root, ignore_errors=True)


def cli_exits(res_dir, ref_dir, res_file, ref_file, disable: bool, noreorder: bool):
    """-> {"file": outcome, "dir": outcome} of the two sub-commands with the same mesh options"""
    flags = ([FLAG_DIM] if disable else []) + ([FLAG_REORDER] if noreorder else [])
    return {"file": cs.run_cli(["file", res_file, ref_file] + flags)[0],
            "dir": cs.run_cli(["dir", res_dir, ref_dir] + flags)[0]}
