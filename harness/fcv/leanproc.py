"""Running the Lean driver (compiled `fcdrv`, fallback `lake env lean --run`)."""
from __future__ import annotations
import os
import subprocess

VERIF = os.path.dirname(os.path.dirname(os.path.dirname(os.path.abspath(__file__))))
LEAN_DIR = os.path.join(VERIF, "lean")
FCDRV = os.path.join(LEAN_DIR, ".lake", "build", "bin", "fcdrv")


class DriverError(RuntimeError):
    pass


def driver_cmd() -> list[str]:
    if os.path.exists(FCDRV) and os.environ.get("FCV_INTERPRET") != "1":
        return [FCDRV]
    return ["lake", "env", "lean", "--run", "Driver/Main.lean"]


def run_lines(lines: list[str], timeout: float = 3600.0) -> list[str]:
    """Pipe all lines through the driver, return one reply per line."""
    if not lines:
        return []
    data = ("\n".join(lines) + "\n").encode()
    p = subprocess.run(driver_cmd(), input=data, stdout=subprocess.PIPE, stderr=subprocess.PIPE,
                       cwd=LEAN_DIR, timeout=timeout)
    if p.returncode != 0:
        raise DriverError(f"driver exit {p.returncode}: {p.stderr.decode()[-2000:]}")
    out = p.stdout.decode().split("\n")
    if out and out[-1] == "":
        out.pop()
    if len(out) != len(lines):
        raise DriverError(f"driver returned {len(out)} replies for {len(lines)} lines; stderr={p.stderr.decode()[-500:]}")
    return out


def parse_reply(r: str) -> dict:
    """`hyp=1 model=T spec=T` -> dict"""
    d = {}
    for part in r.split(" "):
        if "=" in part:
            k, v = part.split("=", 1)
            d[k] = v
    if not d:
        d["raw"] = r
    return d
