"""C13 phase-6 (package G) directed generators: dimensions of the property's quantifier that the random generator of
`harness/corr/c13.py` sampled at one point only (sizes, cell-type combinations, component shapes, names, connectivity
index types, extreme point coordinates, memory layouts, repetition / overwriting, CSV sizes and integer ranges).

Nothing here imports fieldcompare or `corr.c13`; the functions get the small helpers they need (`rand_bits`) as
arguments and return plain case dicts of the shape `c13.gen_vtu_case` produces (bit patterns, JSON-serialisable)."""
from __future__ import annotations

NPDT = ["int8", "int16", "int32", "int64", "uint8", "uint16", "uint32", "uint64", "float32", "float64"]
NCORN = {"VERTEX": 1, "LINE": 2, "TRIANGLE": 3, "QUAD": 4, "PIXEL": 4, "TETRA": 4, "PYRAMID": 5, "HEXAHEDRON": 8,
         "VOXEL": 8}


def _prod(l):
    r = 1
    for d in l:
        r *= d
    return r


def synth_case(rng, rand_bits, n, dim, blocks, pf, cf, conntype="int64", ptype="float64", extreme_points=False,
               layout="C"):
    """a mesh of `n` points with `dim` coordinates and the given cell blocks [(type, rows)] (random corner indices: the
    writer/reader pair does not look at the geometry), point fields [(name, dtype, tail)], cell fields likewise"""
    import struct
    if extreme_points:
        pts = [rand_bits(rng, ptype, dim, rng.randint(1, 1000)) for _ in range(n)]
    else:
        pts = []
        for i in range(n):
            row = [float(i), float((i * 7) % 5) * 0.25, float(i % 3) - 1.0][:dim]
            if ptype == "float64":
                pts.append([struct.unpack("<Q", struct.pack("<d", x))[0] for x in row])
            else:
                pts.append([struct.unpack("<I", struct.pack("<f", x))[0] for x in row])
    cells = []
    for t, m in blocks:
        k = NCORN[t]
        cells.append([t, [[rng.randrange(n) for _ in range(k)] for _ in range(m)]])
    case = {"dim": dim, "ptype": ptype, "points": pts, "conntype": conntype, "cells": cells, "pf": [], "cf": [],
            "layout": layout}
    for name, dt, tail in pf:
        case["pf"].append({"name": name, "dt": dt, "rows": n, "tail": list(tail),
                           "bits": rand_bits(rng, dt, n * _prod(tail), rng.randint(1, 1000))})
    for name, dt, tail in cf:
        for t, rows in cells:
            case["cf"].append({"name": name, "ctype": t, "dt": dt, "rows": len(rows), "tail": list(tail),
                               "bits": rand_bits(rng, dt, len(rows) * _prod(tail), rng.randint(1, 1000))})
    return case


def size_cases(rng, rand_bits, sizes):
    """(case, label): n points, VERTEX block of n cells + LINE block of n-1 cells; the dtypes rotate so that the payload
    lengths n*itemsize*ncomps hit every residue mod 3 and cross 2**16 bytes / 2**16 rows"""
    out = []
    for i, n in enumerate(sizes):
        dts = [NPDT[(i + j) % len(NPDT)] for j in range(3)]
        blocks = [("VERTEX", n)] + ([("LINE", n - 1)] if n > 1 else [])
        c = synth_case(rng, rand_bits, n, 1 + i % 3, blocks,
                       pf=[("ps", dts[0], []), ("pv", dts[1], [3])], cf=[("cs", dts[2], [])])
        out.append((c, f"size-{n}"))
    return out


def type_cases(rng, rand_bits):
    """several cell types in ONE mesh: both members of the compatible pairs, every fixed-size type at once, in
    ascending / descending / interleaved block order; cell fields on every block"""
    combos = [
        ["PIXEL", "QUAD"], ["QUAD", "PIXEL"], ["VOXEL", "HEXAHEDRON"], ["HEXAHEDRON", "VOXEL"],
        ["QUAD", "PIXEL", "TETRA"], ["PYRAMID", "VERTEX"], ["VERTEX"], ["PYRAMID"],
        ["VERTEX", "LINE", "TRIANGLE", "PIXEL", "QUAD", "TETRA", "VOXEL", "HEXAHEDRON", "PYRAMID"],
        ["PYRAMID", "HEXAHEDRON", "VOXEL", "TETRA", "QUAD", "PIXEL", "TRIANGLE", "LINE", "VERTEX"],
        ["HEXAHEDRON", "VERTEX", "QUAD", "LINE", "PIXEL", "PYRAMID", "VOXEL", "TRIANGLE", "TETRA"],
    ]
    out = []
    for k, types in enumerate(combos):
        blocks = [(t, rng.randint(1, 4)) for t in types]
        dt = NPDT[k % len(NPDT)]
        c = synth_case(rng, rand_bits, 12, 2 + k % 2, blocks, pf=[("p", dt, [])],
                       cf=[("c", NPDT[(k + 3) % len(NPDT)], []), ("t", NPDT[(k + 5) % len(NPDT)], [3, 3])])
        out.append((c, "types-" + "+".join(t[:3] for t in types)[:40]))
    return out


def tail_cases(rng, rand_bits):
    out = []
    tails = [[4], [5], [6], [9], [2, 2, 2], [1, 3], [3, 1], [1, 1, 1], [3, 2], [16]]
    for k, tail in enumerate(tails):
        c = synth_case(rng, rand_bits, 5, 3, [("TRIANGLE", 2), ("LINE", 3)],
                       pf=[("p", NPDT[k % 10], tail)], cf=[("c", NPDT[(k + 4) % 10], tail)])
        out.append((c, "tail-" + "x".join(map(str, tail))))
    return out


def conn_cases(rng, rand_bits):
    out = []
    for ct in ["int8", "uint8", "int16", "uint16", "uint32", "int32"]:
        c = synth_case(rng, rand_bits, 9, 3, [("QUAD", 3), ("TRIANGLE", 2)], pf=[("p", "float64", [])],
                       cf=[("c", "int32", [])], conntype=ct)
        out.append((c, "conn-" + ct))
    return out


def point_cases(rng, rand_bits):
    """extreme finite coordinates (largest, subnormal, -0.0, random patterns), every space dimension, both precisions
    (float32 only with three columns: fewer columns are padded into a float64 array, see c13.adversarial_vtu)"""
    out = []
    for dim, ptype in [(1, "float64"), (2, "float64"), (3, "float64"), (3, "float32")]:
        c = synth_case(rng, rand_bits, 7, dim, [("LINE", 3)], pf=[("p", "float32", [dim])], cf=[("c", "float64", [])],
                       ptype=ptype, extreme_points=True)
        out.append((c, f"points-extreme-{ptype}-dim{dim}"))
    return out


def name_cases(rng, rand_bits):
    """(case, label, in_protocol): a point field and a cell field with the SAME name; names the protocol cannot carry
    (empty, blanks, non-ASCII, XML-special) go to the Python oracle only"""
    out = []
    c = synth_case(rng, rand_bits, 6, 3, [("QUAD", 2), ("TRIANGLE", 1)], pf=[("u", "float64", [3]), ("v", "int16", [])],
                   cf=[("u", "float32", []), ("v", "int16", [])])
    out.append((c, "names-point-cell-same"))
    for k, nm in enumerate(["", " ", "a b", " lead", "trail ", "üß", "日本語", "a&b", "<x>", 'q"q', "a'b",
                            "a&amp;b", "]]>", "x.y-z/w", "u,v;w", "0", "A", "a"]):
        c = synth_case(rng, rand_bits, 4, 3, [("QUAD", 1)], pf=[(nm, NPDT[k % 10], [])], cf=[(nm, "float64", [2])])
        out.append((c, f"names-special-{k}"))
    return out


def layout_cases(rng, gen_vtu_case):
    out = []
    for lay in ["RO", "S", "CS", "N", "U", "RO", "S", "CS", "N", "U"]:
        for _ in range(40):
            c, _ = gen_vtu_case(rng)
            if c["pf"] or c["cf"]:
                break
        c["layout"] = lay
        out.append((c, "layout-" + lay))
    return out


# ---------------------------------------------------------------- repetition / overwriting

def vtu_sequences(rng, rand_bits, gen_vtu_case):
    """(cases, objs, steps, label): `objs` = [(case index, transform)] are built ONCE each, `steps` = [(obj index,
    file index)] are written in this order; after every step every file written so far must read back to the content of
    the object written to it last"""
    def small():
        return synth_case(rng, rand_bits, 3, 3, [("TRIANGLE", 1)], pf=[("p", "float64", [])], cf=[])

    def big():
        return synth_case(rng, rand_bits, 40, 3, [("TRIANGLE", 9), ("QUAD", 4)],
                          pf=[("p", "float64", [3]), ("q", "int32", [3, 3])], cf=[("c", "float64", [3])])

    def rnd():
        for _ in range(40):
            c, _ = gen_vtu_case(rng)
            if c["pf"] or c["cf"]:
                return c
        return c
    out = []
    out.append(([big()], [(0, "plain")], [(0, 0), (0, 0)], "seq-same-object-same-file"))
    out.append(([rnd()], [(0, "plain")], [(0, 0), (0, 1), (0, 0)], "seq-same-object-two-files"))
    out.append(([big(), small()], [(0, "plain"), (1, "plain")], [(0, 0), (1, 0)], "seq-overwrite-shorter"))
    out.append(([small(), big()], [(0, "plain"), (1, "plain")], [(0, 0), (1, 0), (0, 0)], "seq-overwrite-longer-shorter"))
    out.append(([rnd(), rnd()], [(0, "plain"), (1, "plain")], [(0, 0), (1, 1), (0, 2)], "seq-interleaved-objects"))
    for tr in ["sort", "sort_points", "sort_cells", "strip", "extend", "merge"]:
        out.append(([rnd()], [(0, tr)], [(0, 0), (0, 1)], "seq-reused-" + tr))
    return out


# ---------------------------------------------------------------- CSV

def csv_tables(rng, rand_bits, sizes):
    """(table, label)"""
    out = []

    def col_f(n):
        return {"kind": "f", "dt": "float64", "bits": rand_bits(rng, "float64", n, rng.randint(1, 99))}

    def col_i(n, dt):
        return {"kind": "i", "dt": dt, "bits": rand_bits(rng, dt, n, rng.randint(1, 99))}

    def col_s(n):
        al = "abcdeghkmopqsuvwxyz"
        return {"kind": "s", "vals": ["".join(rng.choice(al) for _ in range(rng.randint(2, 5))) + "_" for _ in range(n)]}
    for n in sizes:
        out.append(({"names": ["x", "k", "s"], "cols": [col_f(n), col_i(n, "int64"), col_s(n)], "nrows": n, "idx": None},
                    f"csv-size-{n}"))
    # unsigned 64-bit integers below 2**63 and the extremes of int64 / what float64 cannot carry exactly
    n = 6
    u = [0, 1, 2 ** 53 + 1, 2 ** 62 + 1, 2 ** 63 - 1, 2 ** 53 - 1]
    i = [(-2 ** 63) % 2 ** 64, 2 ** 63 - 1, 2 ** 53 + 1, (-(2 ** 53) - 1) % 2 ** 64, 0, (-1) % 2 ** 64]
    out.append(({"names": ["u", "i"], "cols": [{"kind": "i", "dt": "uint64", "bits": u}, {"kind": "i", "dt": "int64", "bits": i}],
                 "nrows": n, "idx": None}, "csv-int-extremes"))
    out.append(({"names": ["u"], "cols": [{"kind": "i", "dt": "uint64", "bits": u}], "nrows": n, "idx": None},
                "csv-uint64-only"))
    # many columns
    names = [f"c{j}_{'abcdefghij'[j % 10]}" for j in range(40)]
    cols = [col_f(3) if j % 3 == 0 else (col_i(3, NPDT[j % 8]) if j % 3 == 1 else col_s(3)) for j in range(40)]
    for c in cols:
        if c["kind"] == "i" and c["dt"] == "uint64":
            c["bits"] = [b >> 1 for b in c["bits"]]
    out.append(({"names": names, "cols": cols, "nrows": 3, "idx": None}, "csv-40-columns"))
    # one column / one row corner cases of every kind
    for kind, c in (("f", col_f(1)), ("i", col_i(1, "int32")), ("s", col_s(1))):
        out.append(({"names": ["only"], "cols": [c], "nrows": 1, "idx": None}, "csv-1x1-" + kind))
    # names with underscores / digits / capitals
    out.append(({"names": ["_a", "B_2", "x__y", "Z9"], "cols": [col_f(2), col_i(2, "int8"), col_s(2), col_f(2)],
                 "nrows": 2, "idx": None}, "csv-names-underscore-digit"))
    return out


def csv_sequences(rng, rand_bits):
    """(tables, steps, label) with steps = [(table index, file index)]"""
    def tab(n, ncols):
        return {"names": [f"c{j}" for j in range(ncols)],
                "cols": [{"kind": "f", "dt": "float64", "bits": rand_bits(rng, "float64", n, rng.randint(1, 99))}
                         for _ in range(ncols)], "nrows": n, "idx": None}
    return [
        ([tab(9, 3)], [(0, 0), (0, 0)], "csvseq-same-table-same-file"),
        ([tab(30, 4), tab(2, 1)], [(0, 0), (1, 0)], "csvseq-overwrite-shorter"),
        ([tab(2, 1), tab(30, 4)], [(0, 0), (1, 0), (0, 0)], "csvseq-overwrite-longer-shorter"),
        ([tab(5, 2), tab(7, 3)], [(0, 0), (1, 1), (0, 2)], "csvseq-interleaved"),
    ]


# ---------------------------------------------------------------- size of ONE written data array (bytes)

def array_bytes_specs(thorough=False):
    """specs of large meshes built directly with numpy (`corr.c13.build_big`): a strip of quads on 2 x m lattice points
    (+ one unconnected point when `npoints` is odd).  Every spec is a small literal dict; the field values are a fixed
    arithmetic function of (salt, index) - no random state - so a replay file stays small and self-contained.
    raw size of a written array = 8 (UInt64 header) + rows * itemsize * ncomps:
      2**16:  float64 scalar on 8191 points = 65536 exactly (8190 / 8192 / 8193: just below / above)
      2**20:  float64 scalar on 131071 points = 1 MiB exactly; 3-vector on 43690 / 43691; 3x3 tensor on 14563 / 14564 cells"""
    def spec(label, npoints, fields, salt):
        return {"label": label, "npoints": npoints, "fields": fields, "salt": salt}
    quick = [
        spec("p6g-array-bytes>1MiB-scalar-f64-131073pts", 131073, [["p", "s", "float64", []], ["p", "b", "int8", []]], 11),
        spec("p6g-array-bytes>1MiB-vector-f64-43692pts", 43692, [["p", "v", "float64", [3]], ["c", "k", "uint16", []]], 12),
        spec("p6g-array-bytes>1MiB-tensor-f64-14564cells", 29130, [["c", "t", "float64", [3, 3]], ["p", "w", "float32", [3]]], 13),
        spec("p6g-array-bytes~2^16-8190pts", 8190, [["p", "s", "float64", []], ["p", "h", "uint16", [4]]], 14),
        spec("p6g-array-bytes~2^16-8191pts", 8191, [["p", "s", "float64", []], ["p", "h", "int16", [4]], ["p", "i", "int32", [2]]], 15),
        spec("p6g-array-bytes~2^16-8192pts", 8192, [["p", "s", "float64", []], ["p", "f", "float32", []]], 16),
        spec("p6g-array-bytes~2^16-8193pts", 8193, [["p", "s", "uint64", []], ["c", "c", "float64", [2]]], 17),
    ]
    if not thorough:
        return quick
    more = [
        spec("p6g-array-bytes~2^20-131070pts", 131070, [["p", "s", "float64", []]], 21),
        spec("p6g-array-bytes~2^20-131071pts", 131071, [["p", "s", "int64", []]], 22),
        spec("p6g-array-bytes~2^20-131072pts", 131072, [["p", "s", "float64", []], ["p", "f", "float32", [2]]], 23),
        spec("p6g-array-bytes~2^20-vector-43690pts", 43690, [["p", "v", "float64", [3]]], 24),
        spec("p6g-array-bytes~2^20-vector-43691pts", 43691, [["p", "v", "uint64", [3]]], 25),
        spec("p6g-array-bytes~2^20-tensor-14563cells", 29128, [["c", "t", "float64", [3, 3]]], 26),
        spec("p6g-array-bytes~2^20-tensor-14565cells", 29132, [["c", "t", "int64", [3, 3]]], 27),
        spec("p6g-array-bytes>1MiB-f32-vector-87382pts", 87382, [["p", "v", "float32", [3]]], 28),
        spec("p6g-array-bytes>1MiB-u8-9comp-116510pts", 116510, [["p", "t", "uint8", [3, 3]]], 29),
        spec("p6g-array-bytes>2MiB-scalar-262145pts", 262145, [["p", "s", "float64", []]], 30),
        spec("p6g-array-bytes~2^16-tensor-910cells", 1822, [["c", "t", "float64", [3, 3]]], 31),
        spec("p6g-array-bytes~2^16-vector-2730pts", 2730, [["p", "v", "float64", [3]]], 32),
    ]
    return quick + more
