"""History dimension of the C16 check (phase 5, package D).

Mesh equality is decided by the defining parameters of the two meshes (extents / origin / spacing / basis, where an
image mesh built WITHOUT `basis=` and a `.vti` file WITHOUT a `Direction` attribute have the standard basis = identity).
Whatever the process did before — reading other `.vti` files with a non-identity `Direction`, constructing image
meshes with explicit bases, calling `.points` / `.equals` on other meshes — must not influence a later verdict.

This module holds the pieces that do not depend on the check's bookkeeping:
  * `write_vti` / `read_vti_image`: an image mesh obtained through the public reader from a small ascii `.vti`
    file (spec option `"via": "vti"` of kind "I", see fcv.c16io.build); the `Direction` attribute is written iff
    the spec carries an explicit basis;
  * `oracle_lm`: the explicit point / connectivity representation a structured spec DEFINES, computed from the
    documented formulas with exact rational arithmetic (no numpy, no fieldcompare) — unlike
    `c16io.explicit_lm(obj)`, which reads the points back from the implementation object;
  * `perform`: the "disturbing" public operations (JSON-able descriptions, replayable).
"""
from __future__ import annotations
import itertools
import os
import tempfile
import warnings
from fractions import Fraction

from .num import rn64

IDENT = [[1.0, 0.0, 0.0], [0.0, 1.0, 0.0], [0.0, 0.0, 1.0]]


# ---------------------------------------------------------------- .vti files through the public reader

def vti_text(ext, origin, spacing, direction=None) -> str:
    e = " ".join(f"0 {int(n)}" for n in ext)
    attrs = (f'WholeExtent="{e}" Origin="{" ".join(repr(float(x)) for x in origin)}" '
             f'Spacing="{" ".join(repr(float(x)) for x in spacing)}"')
    if direction is not None:
        attrs += ' Direction="' + " ".join(repr(float(x)) for row in direction for x in row) + '"'
    return ('<?xml version="1.0"?>\n<VTKFile type="ImageData" version="1.0" byte_order="LittleEndian" '
            'header_type="UInt64">\n'
            f'<ImageData {attrs}>\n<Piece Extent="{e}">\n<PointData>\n</PointData>\n<CellData>\n</CellData>\n'
            '</Piece>\n</ImageData>\n</VTKFile>\n')


def read_vti(ext, origin, spacing, direction=None):
    """write the file, read it with fieldcompare.io.read_field_data, return the domain (an ImageMesh)"""
    from fieldcompare.io import read_field_data
    fd, path = tempfile.mkstemp(prefix="fcv_c16_", suffix=".vti")
    try:
        with os.fdopen(fd, "w") as fh:
            fh.write(vti_text(ext, origin, spacing, direction))
        with warnings.catch_warnings():
            warnings.simplefilter("ignore")
            return read_field_data(path).domain
    finally:
        try:
            os.remove(path)
        except OSError:
            pass


def read_vti_image(spec):
    """kind "I" with "via": "vti" — Direction attribute iff the spec has an explicit basis"""
    return read_vti(spec["ext"], spec["origin"], spec["spacing"], spec.get("basis"))


# ---------------------------------------------------------------- independent explicit representation

def _positions(ext):
    """lattice positions in point order (x fastest over all three directions)"""
    return [(i, j, k) for k in range(ext[2] + 1) for j in range(ext[1] + 1) for i in range(ext[0] + 1)]


def _pnum(ext, pos):
    return pos[0] + (ext[0] + 1) * (pos[1] + (ext[1] + 1) * pos[2])


_PIXEL = [(0, 0), (1, 0), (0, 1), (1, 1)]
_VOXEL = [(0, 0, 0), (1, 0, 0), (0, 1, 0), (1, 1, 0), (0, 0, 1), (1, 0, 1), (0, 1, 1), (1, 1, 1)]
_QUAD = [(0, 0), (1, 0), (1, 1), (0, 1)]
_HEX = [(0, 0, 0), (1, 0, 0), (1, 1, 0), (0, 1, 0), (0, 0, 1), (1, 0, 1), (1, 1, 1), (0, 1, 1)]


def lattice_cells(ext, vtk_order=False):
    """[[type, rows]] — one LINE / PIXEL / VOXEL (QUAD / HEXAHEDRON with `vtk_order`) per lattice cell of the
    meshed directions, first meshed direction fastest"""
    nz = [d for d in range(3) if ext[d] > 0]
    if not nz:
        return []
    dim = len(nz)
    corners = {1: [(0,), (1,)], 2: _QUAD if vtk_order else _PIXEL, 3: _HEX if vtk_order else _VOXEL}[dim]
    name = {1: "LINE", 2: "QUAD" if vtk_order else "PIXEL", 3: "HEXAHEDRON" if vtk_order else "VOXEL"}[dim]
    rows = []
    for loc_rev in itertools.product(*[range(ext[d]) for d in reversed(nz)]):
        loc = tuple(reversed(loc_rev))
        row = []
        for dl in corners:
            pos = [0, 0, 0]
            for d, l, x in zip(nz, loc, dl):
                pos[d] = l + x
            row.append(_pnum(ext, pos))
        rows.append(row)
    return [[name, rows]]


def image_points(ext, origin, spacing, basis=None):
    """origin + B (spacing o ijk), B = identity when no basis is given; exact, rounded once"""
    B = basis if basis is not None else IDENT
    pts = []
    for pos in _positions(ext):
        v = [Fraction(float(spacing[d])) * pos[d] for d in range(3)]
        pts.append([rn64(Fraction(float(origin[r])) + sum(Fraction(float(B[r][c])) * v[c] for c in range(3)))
                    for r in range(3)])
    return pts


def oracle_lm(spec):
    """the explicit logical mesh (no fields) that `spec` defines; None for kinds this oracle does not cover"""
    k = spec["k"]
    if k == "E":
        lm = spec["lm"]
        return {"dim": lm["dim"], "points": [list(p) for p in lm["points"]],
                "cells": [[t, [list(r) for r in rows]] for t, rows in lm["cells"]], "pf": [], "cf": []}
    ext = [int(e) for e in spec["ext"]]
    if k == "I":
        pts = image_points(ext, spec["origin"], spec["spacing"], spec.get("basis"))
        return {"dim": 3, "points": pts, "cells": lattice_cells(ext), "pf": [], "cf": []}
    if k == "R":
        ords = [[float(x) for x in o] if len(o) else [0.0] for o in spec["ords"]]
        pts = [[ords[0][i], ords[1][j], ords[2][kk]] for (i, j, kk) in _positions(ext)]
        return {"dim": 3, "points": pts, "cells": lattice_cells(ext), "pf": [], "cf": []}
    if k == "S":
        return {"dim": int(spec["dim"]), "points": [[float(c) for c in p] for p in spec["points"]],
                "cells": lattice_cells(ext, vtk_order=True), "pf": [], "cf": []}
    return None


# ---------------------------------------------------------------- disturbing public operations

def perform(op):
    """execute one disturbing operation; returns None or a text describing why it could not be executed
    (the result of the operation itself is of no interest here)"""
    import numpy as np
    from fieldcompare.mesh import ImageMesh
    try:
        with warnings.catch_warnings():
            warnings.simplefilter("ignore")
            kind = op["op"]
            if kind == "read-vti":
                m = read_vti(op["ext"], op["origin"], op["spacing"], op.get("direction"))
            elif kind == "image":
                basis = None if op.get("basis") is None else np.array(op["basis"], dtype=np.float64)
                args = (tuple(op["ext"]), tuple(float(x) for x in op["origin"]), tuple(float(x) for x in op["spacing"]))
                m = ImageMesh(*args) if basis is None else ImageMesh(*args, basis)
            else:
                raise ValueError(kind)
            touch = op.get("touch", [])
            if "points" in touch:
                np.asarray(m.points)
            if "connectivity" in touch:
                for ct in m.cell_types:
                    np.asarray(m.connectivity(ct))
            if "equals" in touch:
                other = ImageMesh(tuple(op["ext"]), tuple(float(x) for x in op["origin"]),
                                  tuple(float(x) for x in op["spacing"]))
                bool(m.equals(other))
                bool(other.equals(m))
    except Exception as e:  # noqa: BLE001
        return f"{type(e).__name__}: {e}"
    return None
