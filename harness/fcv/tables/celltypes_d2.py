"""Table extractor for C07 (cluster D): literal tables of the structured-mesh code.

From the *source text* (ast, no import):
  fieldcompare/mesh/_cell_type.py       `CellTypes` attribute -> VTK name, the index maps of
                                        `_reorder_quad_pixel` / `_reorder_hex_voxel`, the `_insert_compatibles` pairs
  fieldcompare/mesh/_structured_mesh.py the per-dimension cell-type lists of `StructuredMesh/RectilinearMesh/ImageMesh._cell_type`
All Lean names carry the prefix `c07` (other work packages may extract overlapping facts under their own names).
"""
from __future__ import annotations

PROPERTIES = ['C07']   # properties whose proofs depend on these declarations
import ast


def _celltypes_attrs(tree) -> dict:
    out = {}
    for node in tree.body:
        if isinstance(node, ast.ClassDef) and node.name == "CellTypes":
            for st in node.body:
                if isinstance(st, ast.Assign) and len(st.targets) == 1 and isinstance(st.targets[0], ast.Name):
                    call = st.value
                    if isinstance(call, ast.Call) and call.args and isinstance(call.args[0], ast.Constant):
                        out[st.targets[0].id] = str(call.args[0].value)
    return out


def _idx_map(tree, fname) -> list:
    for node in tree.body:
        if isinstance(node, ast.FunctionDef) and node.name == fname:
            for st in ast.walk(node):
                if isinstance(st, ast.Assign) and isinstance(st.targets[0], ast.Name) and st.targets[0].id == "idx_map":
                    call = st.value
                    lst = call.args[0] if isinstance(call, ast.Call) else call
                    return [int(ast.literal_eval(e)) for e in lst.elts]
    raise ValueError(f"index map of {fname} not found")


def _compat_pairs(tree, attrs) -> list:
    pairs = []
    for node in tree.body:
        if isinstance(node, ast.Expr) and isinstance(node.value, ast.Call):
            f = node.value.func
            if isinstance(f, ast.Name) and f.id == "_insert_compatibles":
                a, b = node.value.args
                pairs.append((attrs[a.attr], attrs[b.attr]))
    return pairs


def _dimension_types(tree, cls, attrs) -> list:
    for node in tree.body:
        if isinstance(node, ast.ClassDef) and node.name == cls:
            for st in node.body:
                if isinstance(st, ast.FunctionDef) and st.name == "_cell_type":
                    # locals bound (once) to a list/tuple literal: `types = [..]; return types[self._dimension - 1]`
                    local = {}
                    for a in ast.walk(st):
                        tgt = a.targets[0] if (isinstance(a, ast.Assign) and len(a.targets) == 1) else \
                            (a.target if isinstance(a, ast.AnnAssign) else None)
                        if isinstance(tgt, ast.Name) and isinstance(a.value, (ast.List, ast.Tuple)):
                            local[tgt.id] = None if tgt.id in local else a.value
                    for r in ast.walk(st):
                        if isinstance(r, ast.Return) and isinstance(r.value, ast.Subscript):
                            seq = r.value.value
                            if isinstance(seq, ast.Name) and local.get(seq.id) is not None:
                                seq = local[seq.id]
                            if isinstance(seq, (ast.List, ast.Tuple)):
                                return [attrs[e.attr] for e in seq.elts]
    raise ValueError(f"_cell_type list of {cls} not found")


def extract(src) -> dict:
    t_ct = ast.parse(src("fieldcompare/mesh/_cell_type.py"))
    t_sm = ast.parse(src("fieldcompare/mesh/_structured_mesh.py"))
    attrs = _celltypes_attrs(t_ct)
    return {
        "quad_pixel": _idx_map(t_ct, "_reorder_quad_pixel"),
        "hex_voxel": _idx_map(t_ct, "_reorder_hex_voxel"),
        "compatibles": _compat_pairs(t_ct, attrs),
        "structured": _dimension_types(t_sm, "StructuredMesh", attrs),
        "rectilinear": _dimension_types(t_sm, "RectilinearMesh", attrs),
        "image": _dimension_types(t_sm, "ImageMesh", attrs),
    }


def _nats(l):
    return "[" + ", ".join(str(int(x)) for x in l) + "]"


def _strs(l):
    return "[" + ", ".join('"' + s + '"' for s in l) + "]"


def render(f: dict) -> str:
    pairs = "[" + ", ".join(f'("{a}", "{b}")' for a, b in f["compatibles"]) + "]"
    return "\n".join([
        "/-- index map of `_cell_type._reorder_quad_pixel` -/",
        f"def c07ReorderQuadPixel : List Nat := {_nats(f['quad_pixel'])}",
        "/-- index map of `_cell_type._reorder_hex_voxel` -/",
        f"def c07ReorderHexVoxel : List Nat := {_nats(f['hex_voxel'])}",
        "/-- `_insert_compatibles(a, b)` calls of `_cell_type.py` -/",
        f"def c07Compatibles : List (String × String) := {pairs}",
        "/-- `StructuredMesh._cell_type`: list indexed with `dimension - 1` -/",
        f"def c07StructuredTypes : List String := {_strs(f['structured'])}",
        "/-- `RectilinearMesh._cell_type` -/",
        f"def c07RectilinearTypes : List String := {_strs(f['rectilinear'])}",
        "/-- `ImageMesh._cell_type` -/",
        f"def c07ImageTypes : List String := {_strs(f['image'])}",
    ]) + "\n"
