"""Tables the C13/C18 writer-reader model depends on, re-extracted from the source text:
  * `_VTK_TYPE_TO_DTYPE`      (fieldcompare/io/vtk/_helpers.py)     -> Fc.Gen.wVtkTypeToDtype
  * `_CELL_TYPE_INDEX_TO_STR` (fieldcompare/mesh/_cell_type_maps.py) -> Fc.Gen.wCellTypeIndexToStr
Both keep the literal order of the dict (lookup semantics - first match / last key wins - live in
FcModel/VtuWriter.lean)."""
from __future__ import annotations

PROPERTIES = ['C13', 'C18']   # properties whose proofs depend on these declarations
import ast


def _find_assign(tree, name):
    for node in ast.walk(tree):
        if isinstance(node, ast.Assign) and any(isinstance(t, ast.Name) and t.id == name for t in node.targets):
            return node.value
        if isinstance(node, ast.AnnAssign) and isinstance(node.target, ast.Name) and node.target.id == name:
            return node.value
    raise ValueError(f"assignment to {name} not found")


def extract(src) -> dict:
    helpers = ast.parse(src("fieldcompare/io/vtk/_helpers.py"))
    d = _find_assign(helpers, "_VTK_TYPE_TO_DTYPE")
    if not isinstance(d, ast.Dict):
        raise ValueError("_VTK_TYPE_TO_DTYPE is not a dict literal")
    vtk = []
    for k, v in zip(d.keys, d.values):
        if not (isinstance(k, ast.Constant) and isinstance(k.value, str)):
            raise ValueError("non-literal key in _VTK_TYPE_TO_DTYPE")
        if isinstance(v, ast.Attribute):          # np.int8
            dt = v.attr
        elif isinstance(v, ast.Name):
            dt = v.id
        elif isinstance(v, ast.Constant) and isinstance(v.value, str):
            dt = v.value
        else:
            raise ValueError("unsupported value in _VTK_TYPE_TO_DTYPE")
        vtk.append([k.value, dt])
    maps = ast.parse(src("fieldcompare/mesh/_cell_type_maps.py"))
    c = _find_assign(maps, "_CELL_TYPE_INDEX_TO_STR")
    if not isinstance(c, ast.Dict):
        raise ValueError("_CELL_TYPE_INDEX_TO_STR is not a dict literal")
    cells = []
    for k, v in zip(c.keys, c.values):
        if not (isinstance(k, ast.Constant) and isinstance(k.value, int) and isinstance(v, ast.Constant)
                and isinstance(v.value, str)):
            raise ValueError("non-literal entry in _CELL_TYPE_INDEX_TO_STR")
        cells.append([k.value, v.value])
    return {"vtk": vtk, "cells": cells}


def _s(x: str) -> str:
    return '"' + x.replace("\\", "\\\\").replace('"', '\\"') + '"'


def render(facts) -> str:
    vtk = ", ".join(f"({_s(a)}, {_s(b)})" for a, b in facts["vtk"])
    cells = ", ".join(f"({a}, {_s(b)})" for a, b in facts["cells"])
    return (f"def wVtkTypeToDtype : List (String × String) := [{vtk}]\n"
            f"def wCellTypeIndexToStr : List (Nat × String) := [{cells}]\n")
