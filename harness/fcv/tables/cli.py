"""Literal tables of the CLI layer, extracted from the source *text* (ast only, fieldcompare is never imported):

  * members and the literal "falsy" sets of the enums TestStatus / FieldComparisonStatus
    (`__bool__`:  `return self not in [ … ]`), and the falsy list of `TestSuite.__bool__._is_true`,
  * the truth table of `_bool_to_exit_code` (its return expression is evaluated by a tiny evaluator over
    the few node kinds it may consist of),
  * the status -> child-element table of `_junit._add_test_case` (if/elif chain on `test.status == TestStatus.X`
    with `_set_with_message(testcase, "<tag>", …)` calls) and the status -> count-attribute table of
    `as_junit_xml_element`,
  * the literal default relative mesh tolerance (`default_mesh_relative_tolerance`) as an exact unit count,
  * the annotation separator of `_format` and the literal default absolute tolerance of `_select_predicate`.

All names start with `cli` (the generated file is shared by all extractors)."""
from __future__ import annotations

PROPERTIES = ['C04', 'C20']   # properties whose proofs depend on these declarations
import ast
from fractions import Fraction

UNIT = 1074


def _lean_str(s: str) -> str:
    return '"' + s.replace("\\", "\\\\").replace('"', '\\"') + '"'


def _lean_strs(l) -> str:
    return "[" + ", ".join(_lean_str(x) for x in l) + "]"


def _class(tree, name):
    for n in ast.walk(tree):
        if isinstance(n, ast.ClassDef) and n.name == name:
            return n
    raise ValueError(f"class {name} not found")


def _func(node, name):
    for n in ast.walk(node):
        if isinstance(n, (ast.FunctionDef,)) and n.name == name:
            return n
    raise ValueError(f"function {name} not found")


def _enum_members(cls) -> list[str]:
    out = []
    for st in cls.body:
        if isinstance(st, ast.Assign) and len(st.targets) == 1 and isinstance(st.targets[0], ast.Name):
            out.append(st.targets[0].id)
    return out


def _not_in_list(fn, enum_name: str, subject: str) -> list[str]:
    """body must be (docstring +) `return <subject> not in [Enum.a, Enum.b, …]` -> ['a', 'b', …]"""
    body = [s for s in fn.body if not (isinstance(s, ast.Expr) and isinstance(s.value, ast.Constant))]
    if len(body) != 1 or not isinstance(body[0], ast.Return):
        raise ValueError(f"{fn.name}: unexpected body")
    e = body[0].value
    if isinstance(e, ast.UnaryOp) and isinstance(e.op, ast.Not) and isinstance(e.operand, ast.Compare) \
            and len(e.operand.ops) == 1 and isinstance(e.operand.ops[0], ast.In):
        # `not x in [...]` is the same decision as `x not in [...]`
        e = ast.Compare(left=e.operand.left, ops=[ast.NotIn()], comparators=e.operand.comparators)
    if not (isinstance(e, ast.Compare) and len(e.ops) == 1 and isinstance(e.ops[0], ast.NotIn)
            and isinstance(e.left, ast.Name) and e.left.id == subject
            and isinstance(e.comparators[0], (ast.List, ast.Tuple))):
        raise ValueError(f"{fn.name}: unexpected return expression")
    out = []
    for el in e.comparators[0].elts:
        if not (isinstance(el, ast.Attribute) and isinstance(el.value, ast.Name) and el.value.id == enum_name):
            raise ValueError(f"{fn.name}: unexpected list element")
        out.append(el.attr)
    return out


def _eval_bool_expr(e, env):
    """evaluator for `_bool_to_exit_code`'s return expression"""
    if isinstance(e, ast.Constant):
        return e.value
    if isinstance(e, ast.Name):
        return env[e.id]
    if isinstance(e, ast.UnaryOp) and isinstance(e.op, ast.Not):
        return not _eval_bool_expr(e.operand, env)
    if isinstance(e, ast.UnaryOp) and isinstance(e.op, ast.USub):
        return -_eval_bool_expr(e.operand, env)
    if isinstance(e, ast.IfExp):
        return _eval_bool_expr(e.body if _eval_bool_expr(e.test, env) else e.orelse, env)
    if isinstance(e, ast.BinOp) and isinstance(e.op, (ast.Sub, ast.Add)):
        l, r = _eval_bool_expr(e.left, env), _eval_bool_expr(e.right, env)
        return l - r if isinstance(e.op, ast.Sub) else l + r
    if isinstance(e, ast.Call) and isinstance(e.func, ast.Name) and e.func.id in ("int", "bool") and len(e.args) == 1:
        v = _eval_bool_expr(e.args[0], env)
        return int(v) if e.func.id == "int" else bool(v)
    raise ValueError("unsupported expression in _bool_to_exit_code")


class _NoReturn(Exception):
    pass


def _eval_bool_body(stmts, env):
    """evaluator for `_bool_to_exit_code`'s BODY (not only a single top-level `return <expr>`): docstring, `pass`,
    assignments to a name (plain / annotated), `if/elif/else`, `return <expr>`.  Anything else is rejected.
    Raises _NoReturn when the statements fall through."""
    for s in stmts:
        if isinstance(s, ast.Pass) or (isinstance(s, ast.Expr) and isinstance(s.value, ast.Constant)):
            continue
        if isinstance(s, ast.Return):
            if s.value is None:
                raise ValueError("bare return in _bool_to_exit_code")
            return _eval_bool_expr(s.value, env)
        if isinstance(s, ast.Assign) and len(s.targets) == 1 and isinstance(s.targets[0], ast.Name):
            env[s.targets[0].id] = _eval_bool_expr(s.value, env)
            continue
        if isinstance(s, ast.AnnAssign) and isinstance(s.target, ast.Name):
            if s.value is not None:
                env[s.target.id] = _eval_bool_expr(s.value, env)
            continue
        if isinstance(s, ast.If):
            try:
                return _eval_bool_body(s.body if _eval_bool_expr(s.test, env) else s.orelse, env)
            except _NoReturn:
                continue
        raise ValueError(f"unsupported statement in _bool_to_exit_code: {type(s).__name__}")
    raise _NoReturn()


def eval_bool_to_exit_code(fn) -> tuple:
    """(exit code for True, exit code for False) of the def `_bool_to_exit_code`"""
    if len(fn.args.args) != 1:
        raise ValueError("_bool_to_exit_code: unexpected shape")
    arg = fn.args.args[0].arg
    out = []
    for v in (True, False):
        try:
            r = _eval_bool_body(fn.body, {arg: v})
        except _NoReturn:
            raise ValueError("_bool_to_exit_code: may fall off the end") from None
        except KeyError as e:
            raise ValueError(f"_bool_to_exit_code: unbound name {e}") from None
        if isinstance(r, bool):
            r = int(r)
        if not isinstance(r, int):
            raise ValueError("_bool_to_exit_code: non-integer result")
        out.append(r)
    return tuple(out)


def _status_of_test(cmp) -> str | None:
    """`test.status == TestStatus.X` / `t.status == TestStatus.X` -> 'X'  (`is` instead of `==` is the same decision:
    TestStatus does not define `__eq__` - checked in `extract` - so equality of its members IS identity)"""
    if (isinstance(cmp, ast.Compare) and len(cmp.ops) == 1 and isinstance(cmp.ops[0], (ast.Eq, ast.Is))
            and isinstance(cmp.left, ast.Attribute) and cmp.left.attr == "status"
            and isinstance(cmp.comparators[0], ast.Attribute)
            and isinstance(cmp.comparators[0].value, ast.Name) and cmp.comparators[0].value.id == "TestStatus"):
        return cmp.comparators[0].attr
    return None


def _find_add_test_case(junit):
    """the private function of _junit.py that writes one <testcase>: located by STRUCTURE (its name is a local choice):
    the only module-level def whose body contains an if-chain that starts with `<x>.status == TestStatus.<m>`"""
    cands = [n for n in junit.body if isinstance(n, ast.FunctionDef)
             and any(isinstance(s, ast.If) and _status_of_test(s.test) is not None for s in n.body)]
    if len(cands) != 1:
        raise ValueError(f"_junit.py: expected exactly one function with a TestStatus if-chain, found {len(cands)}")
    return cands[0]


def _tag_helpers(junit) -> set:
    """names of the module-level helpers `h(parent, tag, …)` of _junit.py that add a child `SubElement(parent, tag)`"""
    out = set()
    for n in junit.body:
        if isinstance(n, ast.FunctionDef) and len(n.args.args) >= 2:
            p0, p1 = n.args.args[0].arg, n.args.args[1].arg
            for c in ast.walk(n):
                if isinstance(c, ast.Call) and isinstance(c.func, ast.Name) and c.func.id == "SubElement" \
                        and len(c.args) >= 2 and isinstance(c.args[0], ast.Name) and c.args[0].id == p0 \
                        and isinstance(c.args[1], ast.Name) and c.args[1].id == p1:
                    out.add(n.name)
    return out


def _plain(e) -> bool:
    """constant / name / attribute chain / f-string of such: evaluating it has no effect"""
    if isinstance(e, (ast.Constant, ast.Name)):
        return True
    if isinstance(e, ast.Attribute):
        return _plain(e.value)
    if isinstance(e, ast.JoinedStr):
        return all(isinstance(v, ast.Constant) or (isinstance(v, ast.FormattedValue) and _plain(v.value)) for v in e.values)
    return False


def _junit_children(fn, helpers=("_set_with_message",)) -> dict[str, list[str]]:
    """if/elif chain of _add_test_case: status -> list of child tags added via _set_with_message"""
    chain = [s for s in fn.body if isinstance(s, ast.If)]
    if len(chain) != 1:
        raise ValueError("_add_test_case: expected exactly one if-chain")
    out: dict[str, list[str]] = {}
    node = chain[0]
    while node is not None:
        st = _status_of_test(node.test)
        if st is None:
            # the trailing `elif not test:` branch (TestResult is a dataclass and always truthy): no status branch
            break
        tags = []
        for s in node.body:
            if isinstance(s, (ast.Assign, ast.AnnAssign)) and s.value is not None and _plain(s.value) \
                    and all(isinstance(t, ast.Name) for t in (s.targets if isinstance(s, ast.Assign) else [s.target])):
                continue        # `msg = "…"` / `out = stdout.text`: a local for a text, adds no child element
            if (isinstance(s, ast.Expr) and isinstance(s.value, ast.Call) and isinstance(s.value.func, ast.Name)
                    and s.value.func.id in helpers and len(s.value.args) >= 2):
                a = s.value.args[1]
                if not isinstance(a, ast.Constant):
                    raise ValueError("_add_test_case: non-literal tag")
                tags.append(a.value)
            else:
                raise ValueError("_add_test_case: unexpected statement in a status branch")
        if st in out:
            raise ValueError("_add_test_case: duplicate status branch")
        out[st] = tags
        node = node.orelse[0] if (len(node.orelse) == 1 and isinstance(node.orelse[0], ast.If)) else None
    return out


def _count_of(v, local) -> str:
    """which tests an expression counts: '*' = every test, 'X' = the tests with `status == TestStatus.X`.
    Understood: `sum(1 for t in suite [if c])`, `len([t for t in suite [if c]])`, `len(list(suite))`, `len(suite)`,
    `sum(x)` / `len(x)` of such a comprehension bound to a local, a local bound once to one of these, `str(...)` around it."""
    if isinstance(v, ast.Name) and v.id in local:
        return _count_of(local[v.id], {k: e for k, e in local.items() if k != v.id})
    if isinstance(v, ast.Call) and isinstance(v.func, ast.Name) and v.func.id in ("str", "int") and len(v.args) == 1 \
            and not v.keywords:
        return _count_of(v.args[0], local)
    if not (isinstance(v, ast.Call) and isinstance(v.func, ast.Name) and v.func.id in ("sum", "len") and len(v.args) == 1
            and not v.keywords):
        raise ValueError("not a count")
    inner = v.args[0]
    if isinstance(inner, ast.Name) and inner.id in local:
        inner = local[inner.id]
    if v.func.id == "len":
        if isinstance(inner, ast.Call) and isinstance(inner.func, ast.Name) and inner.func.id in ("list", "tuple") \
                and len(inner.args) == 1 and isinstance(inner.args[0], ast.Name):
            return "*"                                         # len(list(suite))
        if isinstance(inner, ast.Name):
            return "*"                                         # len(suite)
        if not isinstance(inner, (ast.ListComp, ast.GeneratorExp)):
            raise ValueError("len of something that is not a comprehension over the tests")
    else:
        if not (isinstance(inner, (ast.ListComp, ast.GeneratorExp)) and isinstance(inner.elt, ast.Constant)
                and inner.elt.value == 1):
            raise ValueError("sum of something that is not `1 for … in …`")
    if len(inner.generators) != 1 or inner.generators[0].is_async or not isinstance(inner.generators[0].iter, ast.Name):
        raise ValueError("unexpected generator")
    ifs = inner.generators[0].ifs
    if not ifs:
        return "*"
    if len(ifs) == 1 and _status_of_test(ifs[0]) is not None:
        return _status_of_test(ifs[0])
    raise ValueError("unexpected filter")


def _junit_counts(fn) -> dict[str, str]:
    """as_junit_xml_element: attribute -> status counted (`sum(1 for t in suite if t.status == TestStatus.X)`),
    'tests' -> '*' (`sum(1 for _ in suite)`); see `_count_of` for the spellings understood"""
    out = {}
    count, value = {}, {}
    for n in ast.walk(fn):
        if isinstance(n, ast.Assign) and len(n.targets) == 1 and isinstance(n.targets[0], ast.Name):
            count[n.targets[0].id] = count.get(n.targets[0].id, 0) + 1
            value[n.targets[0].id] = n.value
        elif isinstance(n, (ast.AnnAssign, ast.AugAssign)) and isinstance(n.target, ast.Name):
            count[n.target.id] = count.get(n.target.id, 0) + (1 if isinstance(n, ast.AnnAssign) and n.value is not None else 2)
            if isinstance(n, ast.AnnAssign) and n.value is not None:
                value[n.target.id] = n.value
        elif isinstance(n, (ast.For, ast.comprehension)):
            for x in ast.walk(n.target):
                if isinstance(x, ast.Name):
                    count[x.id] = count.get(x.id, 0) + 2
    local = {k: v for k, v in value.items() if count.get(k) == 1}
    for s in ast.walk(fn):
        if (isinstance(s, ast.Call) and isinstance(s.func, ast.Attribute) and s.func.attr == "set"
                and len(s.args) == 2 and isinstance(s.args[0], ast.Constant)):
            key = s.args[0].value
            if key not in ("tests", "errors", "failures", "skipped"):
                continue
            try:
                out[key] = _count_of(s.args[1], local)
            except ValueError as e:
                raise ValueError(f"as_junit_xml_element: unexpected value for attribute {key}: {e}") from None
    if set(out) != {"tests", "errors", "failures", "skipped"}:
        raise ValueError("as_junit_xml_element: count attributes not found")
    return out


def _float_units(x: float) -> int:
    fr = Fraction(x) * (1 << UNIT)
    if fr.denominator != 1 or fr < 0:
        raise ValueError("literal is not a non-negative binary64 number")
    return int(fr)


def _falsy(trees, cls, enum_name: str, members: list) -> list[str]:
    """falsy members of a status enum: the literal list of `return self not in [...]`, else `__bool__` EVALUATED on every member
    (fcv/pyeval.py: set literal, `is not`, `!=`, chains …)"""
    from . import status as _st
    try:
        return _not_in_list(_func(cls, "__bool__"), enum_name, "self")
    except ValueError:
        try:
            return _st._falsy(trees, cls, enum_name, members)
        except _st.ExtractError as e:
            raise ValueError(str(e)) from None


def extract(src) -> dict:
    ts = ast.parse(src("fieldcompare/_cli/_test_suite.py"))
    status = _class(ts, "TestStatus")
    suite = _class(ts, "TestSuite")
    fdc = ast.parse(src("fieldcompare/_field_data_comparison.py"))
    fcs = _class(fdc, "FieldComparisonStatus")
    from . import status as _status_tables
    from ..pylite_tr import resolve_reexport
    from ..pyeval import defines_own_eq
    if defines_own_eq(status):
        raise ValueError("TestStatus defines its own __eq__/__hash__: the `==`/`is` patterns of this extractor do not apply")
    common = resolve_reexport(src, "fieldcompare/_cli/_common.py", "_bool_to_exit_code")[1]
    b2e = _func(common, "_bool_to_exit_code")
    exit_true, exit_false = eval_bool_to_exit_code(b2e)     # whole body is evaluated (early returns, locals)
    junit = ast.parse(src("fieldcompare/_cli/_junit.py"))
    mesh = ast.parse(src("fieldcompare/mesh/_mesh.py"))
    dmr = _func(mesh, "default_mesh_relative_tolerance")
    lit = [s for s in dmr.body if isinstance(s, ast.Return)][0].value
    if not (isinstance(lit, ast.Constant) and isinstance(lit.value, float)):
        raise ValueError("default_mesh_relative_tolerance: not a float literal")
    fmt = ast.parse(src("fieldcompare/_format.py"))
    sep = None
    for s in fmt.body:
        tgt = s.targets[0] if isinstance(s, ast.Assign) else (s.target if isinstance(s, ast.AnnAssign) else None)
        if isinstance(tgt, ast.Name) and tgt.id == "_ANNOTATION_SEPARATOR" and isinstance(s.value, ast.Constant):
            sep = s.value.value
    if not isinstance(sep, str) or not sep:
        raise ValueError("_ANNOTATION_SEPARATOR not found")
    return {
        "test_status": _enum_members(status),
        "test_status_falsy": _falsy([ts, fdc], status, "TestStatus", _enum_members(status)),
        "suite_falsy": _status_tables.suite_helper_falsy([fdc, ts], ts, suite, _enum_members(status), ValueError),
        "fc_status": _enum_members(fcs),
        "fc_status_falsy": _falsy([ts, fdc], fcs, "FieldComparisonStatus", _enum_members(fcs)),
        "exit_true": int(exit_true), "exit_false": int(exit_false),
        "junit_children": _junit_children(_find_add_test_case(junit), _tag_helpers(junit)),
        "junit_counts": _junit_counts(_func(junit, "as_junit_xml_element")),
        "mesh_rel_tol_units": _float_units(lit.value),
        "annotation_sep": sep,
    }


def render(f) -> str:
    ch = f["junit_children"]
    lines = [
        f"def cliTestStatusMembers : List String := {_lean_strs(f['test_status'])}",
        f"def cliTestStatusFalsy : List String := {_lean_strs(f['test_status_falsy'])}",
        f"def cliSuiteFalsy : List String := {_lean_strs(f['suite_falsy'])}",
        f"def cliFcStatusMembers : List String := {_lean_strs(f['fc_status'])}",
        f"def cliFcStatusFalsy : List String := {_lean_strs(f['fc_status_falsy'])}",
        f"def cliExitOfTrue : Int := {f['exit_true']}",
        f"def cliExitOfFalse : Int := {f['exit_false']}",
        "def cliJunitChildren : List (String × List String) := ["
        + ", ".join(f"({_lean_str(k)}, {_lean_strs(ch[k])})" for k in sorted(ch)) + "]",
        "def cliJunitCounts : List (String × String) := ["
        + ", ".join(f"({_lean_str(k)}, {_lean_str(f['junit_counts'][k])})" for k in sorted(f["junit_counts"])) + "]",
        f"def cliMeshDefaultRelTol : Nat := {f['mesh_rel_tol_units']}",
        f"def cliAnnotationSep : String := {_lean_str(f['annotation_sep'])}",
    ]
    return "\n".join(lines) + "\n"
