"""PyLite translation (fcv/pylite_tr.py) of the small functions anchored in C06: bodies re-translated from the
source text on every run into `Fc.Gen.c06<Name>Src : Fc.PyLite.Fn`; theorems `Fc.C06_source_*` in
lean/FcProofs/Props/C06_Source.lean."""
from .. import pylite_tr as T

PROPERTIES = ["C06"]
IMPORTS = ["FcModel.PyLite"]
FUNCS = [
    ("c06FilterExternal", T.TR, "_filter_external_indices"),
    ("c06MapExternal", T.TR, "_map_external_indices"),
]


def extract(src) -> dict:
    return T.extract_funcs(src, FUNCS, scoped_comp=True)


def render(facts) -> str:
    return T.render_funcs(facts, FUNCS)
