"""PyLite translation (fcv/pylite_tr.py, phase 6 `orch=True`) of the control flow of `predicates/_predicates.py: _check_shapes,
ExactEquality._check, ExactEquality.__call__`, anchored in C09.  The numpy kernels, `_reshape` (itself `C01_source_reshape`) and the result
constructors are externals.  Bodies re-translated from the source text on every run into `Fc.Gen.c09o<Name>Src`; theorems
`Fc.C09_source_exact_equality_*` in lean/FcProofs/Props/C09_ExactEquality.lean (notes/PHASE6_A10.md)."""
from .. import pylite_tr as T

PROPERTIES = ["C09"]
IMPORTS = ["FcModel.PyLite"]
FUNCS = [
    ("c09oCheckShapes", T.PR, "_check_shapes"),
    ("c09oExactCheck", T.PR, "ExactEquality._check"),
    ("c09oExactCall", T.PR, "ExactEquality.__call__"),
]


def extract(src) -> dict:
    return T.extract_funcs(src, FUNCS, scoped_comp=True, orch=True)


def render(facts) -> str:
    return T.render_funcs(facts, FUNCS)
