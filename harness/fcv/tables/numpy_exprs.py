"""Translator for the element-wise numpy code of `_numpy_utils.fuzzy_equal` (and the helpers it
calls) from the source TEXT into the Lean expression language `Fc.NExpr/NStmt` (FcModel/NExpr.lean).

Anything the translator does not understand raises TranslationError: the run then counts as
"proof obligation broken" (the tie between source and theorem is lost), never as a pass."""
from __future__ import annotations

PROPERTIES = ['C01']   # properties whose proofs depend on these declarations
import ast


class TranslationError(Exception):
    pass


_UFUNC = {"abs": ("abs", 1), "absolute": ("abs", 1), "negative": ("neg", 1),
          "maximum": ("maximum", 2), "minimum": ("minimum", 2), "subtract": ("sub", 2), "add": ("add", 2),
          "multiply": ("mul", 2), "less_equal": ("lessEqual", 2), "less": ("less", 2),
          "greater_equal": ("greaterEqual", 2), "greater": ("greater", 2)}
_BINOP = {ast.Sub: "sub", ast.Add: "add", ast.Mult: "mul"}
_CMPOP = {ast.LtE: "lessEqual", ast.Lt: "less", ast.GtE: "greaterEqual", ast.Gt: "greater"}


def _find_func(tree, name):
    for node in ast.walk(tree):
        if isinstance(node, ast.FunctionDef) and node.name == name:
            return node
    raise TranslationError(f"function {name} not found")


def _single_return_expr(fn):
    body = [s for s in fn.body if not (isinstance(s, ast.Expr) and isinstance(s.value, ast.Constant))]
    if len(body) != 1 or not isinstance(body[0], ast.Return):
        raise TranslationError(f"{fn.name}: expected a single return statement")
    return body[0].value


class _Tr:
    def __init__(self, tree):
        self.tree = tree

    def helper(self, name, args):
        """inline a module-level one-line helper (select_max_values, abs_array, …)"""
        fn = _find_func(self.tree, name)
        params = [a.arg for a in fn.args.args]
        if len(params) != len(args):
            raise TranslationError(f"{name}: arity")
        expr = _single_return_expr(fn)
        return self.expr(expr, dict(zip(params, args)))

    def expr(self, e, subst=None):
        subst = subst or {}
        if isinstance(e, ast.Name):
            return subst.get(e.id, ("var", e.id))
        if isinstance(e, ast.BinOp) and type(e.op) in _BINOP:
            return (_BINOP[type(e.op)], self.expr(e.left, subst), self.expr(e.right, subst))
        if isinstance(e, ast.UnaryOp) and isinstance(e.op, ast.USub):
            return ("neg", self.expr(e.operand, subst))
        if isinstance(e, ast.Compare) and len(e.ops) == 1 and type(e.ops[0]) in _CMPOP:
            return (_CMPOP[type(e.ops[0])], self.expr(e.left, subst), self.expr(e.comparators[0], subst))
        if isinstance(e, ast.Call) and not e.keywords:
            f = e.func
            args = [self.expr(a, subst) for a in e.args]
            if isinstance(f, ast.Attribute) and isinstance(f.value, ast.Name) and f.value.id == "np":
                if f.attr in _UFUNC and _UFUNC[f.attr][1] == len(args):
                    return (_UFUNC[f.attr][0],) + tuple(args)
                raise TranslationError(f"unsupported numpy call np.{f.attr}/{len(args)}")
            if isinstance(f, ast.Name):
                if f.id == "abs" and len(args) == 1:
                    return ("abs", args[0])
                return self.helper(f.id, args)
        raise TranslationError(f"unsupported expression: {ast.dump(e)[:120]}")

    def body(self, fn, skip_calls=()):
        out = []
        for s in fn.body:
            if isinstance(s, ast.Expr) and isinstance(s.value, ast.Constant):
                continue                                   # docstring
            if isinstance(s, ast.FunctionDef):
                continue                                   # nested validation helper
            if isinstance(s, ast.Expr) and isinstance(s.value, ast.Call) and isinstance(s.value.func, ast.Name) \
                    and s.value.func.id in skip_calls:
                continue                                   # tolerance-shape validation (modelled separately)
            if isinstance(s, ast.Assign) and len(s.targets) == 1 and isinstance(s.targets[0], ast.Name):
                out.append(("assign", s.targets[0].id, self.expr(s.value)))
            elif isinstance(s, ast.AnnAssign) and isinstance(s.target, ast.Name) and s.value is not None and s.simple:
                out.append(("assign", s.target.id, self.expr(s.value)))      # `x: Array = …` (annotation is not semantics)
            elif isinstance(s, ast.AugAssign) and isinstance(s.target, ast.Name) and isinstance(s.op, ast.Mult):
                out.append(("imul", s.target.id, self.expr(s.value)))
            elif isinstance(s, ast.Return):
                out.append(("ret", self.expr(s.value)))
            else:
                raise TranslationError(f"unsupported statement: {ast.dump(s)[:120]}")
        return out


def extract(src) -> dict:
    tree = ast.parse(src("fieldcompare/_numpy_utils.py"))
    tr = _Tr(tree)
    fn = _find_func(tree, "fuzzy_equal")
    nested = [s.name for s in fn.body if isinstance(s, ast.FunctionDef)]
    params = [a.arg for a in fn.args.args]
    return {"fuzzy_equal": {"params": params, "body": tr.body(fn, skip_calls=tuple(nested))}}


def _lean_expr(e) -> str:
    if e[0] == "var":
        return f'(.var "{e[1]}")'
    return "(." + e[0] + " " + " ".join(_lean_expr(x) for x in e[1:]) + ")"


def _lean_stmt(s) -> str:
    if s[0] == "ret":
        return f".ret {_lean_expr(s[1])}"
    return f'.{s[0]} "{s[1]}" {_lean_expr(s[2])}'


def render(facts) -> str:
    fe = facts["fuzzy_equal"]
    lines = ["/-- translated from the source text of `fieldcompare/_numpy_utils.py: fuzzy_equal` -/",
             "def fuzzyEqualParams : List String := [" + ", ".join(f'"{p}"' for p in fe["params"]) + "]",
             "def fuzzyEqualBody : List Fc.NStmt := ["]
    lines += ["  " + _lean_stmt(s) + ("," if i + 1 < len(fe["body"]) else "") for i, s in enumerate(fe["body"])]
    lines.append("]")
    return "\n".join(lines)
