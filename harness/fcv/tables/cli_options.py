"""Option tables of the command-line interface (phase 5, notes/PHASE5_plumbing.md): which argparse destinations the two
sub-commands declare, with which keys their `_run` functions (and the helpers they hand the argument dict to) read it, and
which destination feeds which keyword of `FileComparisonOptions(...)` / `MeshFieldsComparator(...)`.

Everything is located by STRUCTURE in the source text (ast; fieldcompare is never imported):
  * the entry points of a sub-command are found in `_cli/_main.py`: in the function that calls
    `<x>.add_parser("<file|dir>", …)`, the function called with the new parser declares the arguments and the value of
    `set_defaults(func=…)` runs the mode (import aliases are resolved; the conventional names `_add_arguments` / `_run`
    are the fall-back);
  * declared destinations: every `<parser>.add_argument(...)` reachable from the declaring function through calls that
    pass the parser on (`_add_*_args(parser)`, also imported from the other mode's module); the destination follows
    argparse's rule (`dest=`, else the positional name as it is, else the first long option without `--` and with `-`
    replaced by `_`, else the first short option);
  * keys read: every `<args>["k"]` / `<args>.get("k"[, d])` where `<args>` is the dict parameter of the run function, a
    local alias of it, or the corresponding parameter of a function it is passed to (transitively).  A key that is not a
    string constant is an extraction failure (the table cannot be trusted then);
  * wiring: for every keyword of a `FileComparisonOptions(...)` call in those functions the sorted set of keys read in its
    value, where names of local variables are replaced by the (single) expression they were assigned in the same function
    (`relative_tolerances=_rel_tol_map`); wrappers (`bool(...)`, conditional expressions, `PatternFilter(...)`) do not
    matter.  `kind` is `direct` when the value is, up to `bool(...)`, a single read, `negated` for `not <read>`, else
    `expr`.  Positional arguments are mapped through the field order of the dataclass;
  * `MeshFieldsComparator(...)` in `_cli/_file_comparison.py`: keyword ↦ the `self._opts.<field>` it is given.

Rendered as Lean string tables `Fc.Gen.opt…`; the theorems over them (`decide`) are in
lean/FcProofs/Props/C04_Plumbing.lean, C12_Plumbing.lean, C17_Plumbing.lean."""
from __future__ import annotations
import ast

PROPERTIES = ["C04", "C12", "C17"]
IMPORTS: list = []

MAIN = "fieldcompare/_cli/_main.py"
MODE_FILES = {"_file_mode": "fieldcompare/_cli/_file_mode.py", "_dir_mode": "fieldcompare/_cli/_dir_mode.py"}
FCMP = "fieldcompare/_cli/_file_comparison.py"
OPTIONS_CLASS = "FileComparisonOptions"
COMPARATOR = "MeshFieldsComparator"
MODES = {"file": "_file_mode", "dir": "_dir_mode"}


class OptionTableError(Exception):
    pass


# ------------------------------------------------------------------ module index
class Mod:
    def __init__(self, name: str, tree: ast.Module):
        self.name, self.tree = name, tree
        self.funcs = {n.name: n for n in tree.body if isinstance(n, ast.FunctionDef)}
        self.imports = {}       # local name -> (module base name, original name)
        for n in tree.body:
            if isinstance(n, ast.ImportFrom) and n.module:
                for a in n.names:
                    self.imports[a.asname or a.name] = (n.module.split(".")[-1], a.name)


class Index:
    def __init__(self, src):
        self.mods = {}
        for name, rel in list(MODE_FILES.items()) + [("_main", MAIN), ("_file_comparison", FCMP)]:
            self.mods[name] = Mod(name, ast.parse(src(rel)))

    def resolve(self, mod: Mod, name: str):
        """-> (Mod, FunctionDef) of a function visible under `name` in `mod`, or None"""
        seen = set()
        while (mod.name, name) not in seen:
            seen.add((mod.name, name))
            if name in mod.funcs:
                return mod, mod.funcs[name]
            if name in mod.imports and mod.imports[name][0] in self.mods:
                base, orig = mod.imports[name]
                mod, name = self.mods[base], orig
                continue
            return None
        return None


def _params(fn: ast.FunctionDef) -> list:
    return [a.arg for a in fn.args.posonlyargs + fn.args.args]


def _passed_positions(call: ast.Call, names: set) -> list:
    """[(index or keyword, name)] of the arguments of `call` that are one of `names`"""
    out = []
    for i, a in enumerate(call.args):
        if isinstance(a, ast.Name) and a.id in names:
            out.append((i, a.id))
    for k in call.keywords:
        if k.arg and isinstance(k.value, ast.Name) and k.value.id in names:
            out.append((k.arg, k.value.id))
    return out


def _callee_param(fn: ast.FunctionDef, pos) -> str | None:
    ps = _params(fn)
    if isinstance(pos, int):
        return ps[pos] if pos < len(ps) else None
    return pos if pos in ps + [a.arg for a in fn.args.kwonlyargs] else None


# ------------------------------------------------------------------ entry points
def _add_parser_mode(n):
    """`<x>.add_parser("file"|"dir", …)` -> the mode, else None"""
    if isinstance(n, ast.Call) and isinstance(n.func, ast.Attribute) and n.func.attr == "add_parser" and n.args \
            and isinstance(n.args[0], ast.Constant) and n.args[0].value in MODES:
        return n.args[0].value
    return None


def entry_points(ix: Index) -> dict:
    """{mode: ((Mod, declaring fn), (Mod, run fn))}"""
    main = ix.mods["_main"]
    out = {}
    for fn in main.funcs.values():
        # (1) the parser of a sub-command bound to a variable: `p = <x>.add_parser("<mode>", …)`; then the declaring function
        # is the one called with `p`, the run function the value of `p.set_defaults(func=…)` - whatever else the function
        # does (both sub-commands may be set up in one function)
        for st in ast.walk(fn):
            if isinstance(st, ast.Assign) and len(st.targets) == 1 and isinstance(st.targets[0], ast.Name) \
                    and _add_parser_mode(st.value) is not None:
                mode, var = _add_parser_mode(st.value), st.targets[0].id
                if sum(1 for x in ast.walk(fn) if isinstance(x, ast.Name) and x.id == var
                       and isinstance(x.ctx, ast.Store)) != 1:
                    continue
                decl = run = None
                for c in ast.walk(fn):
                    if not isinstance(c, ast.Call):
                        continue
                    if isinstance(c.func, ast.Attribute) and c.func.attr == "set_defaults" \
                            and isinstance(c.func.value, ast.Name) and c.func.value.id == var:
                        for k in c.keywords:
                            if k.arg == "func" and isinstance(k.value, ast.Name):
                                run = run or ix.resolve(main, k.value.id)
                    elif isinstance(c.func, ast.Name) and ix.resolve(main, c.func.id) and _passed_positions(c, {var}):
                        decl = decl or ix.resolve(main, c.func.id)
                if decl and run and mode not in out:
                    out[mode] = (decl, run)
    for fn in main.funcs.values():
        for n in ast.walk(fn):
            if _add_parser_mode(n) is not None and _add_parser_mode(n) not in out:
                if sum(1 for x in ast.walk(fn) if _add_parser_mode(x) is not None) != 1:
                    continue        # several sub-commands in one function and no parser variable: cannot be told apart
                mode = n.args[0].value
                decl = run = None
                for c in ast.walk(fn):
                    if not isinstance(c, ast.Call):
                        continue
                    if isinstance(c.func, ast.Attribute) and c.func.attr == "set_defaults":
                        for k in c.keywords:
                            if k.arg == "func" and isinstance(k.value, ast.Name):
                                run = ix.resolve(main, k.value.id)
                    elif isinstance(c.func, ast.Name) and ix.resolve(main, c.func.id) and c is not n:
                        decl = decl or ix.resolve(main, c.func.id)
                if decl and run:
                    out[mode] = (decl, run)
    for mode, base in MODES.items():
        if mode not in out:
            m = ix.mods[base]
            if "_add_arguments" in m.funcs and "_run" in m.funcs:
                out[mode] = ((m, m.funcs["_add_arguments"]), (m, m.funcs["_run"]))
            else:
                raise OptionTableError(f"entry points of sub-command `{mode}` not found")
    return out


# ------------------------------------------------------------------ declared destinations
def _dest_of(call: ast.Call) -> tuple:
    flags = []
    for a in call.args:
        if not (isinstance(a, ast.Constant) and isinstance(a.value, str)):
            raise OptionTableError("add_argument with a non-literal name")
        flags.append(a.value)
    kw = {k.arg: k.value for k in call.keywords if k.arg}
    action = kw["action"].value if "action" in kw and isinstance(kw["action"], ast.Constant) else "store"
    if "dest" in kw:
        if not (isinstance(kw["dest"], ast.Constant) and isinstance(kw["dest"].value, str)):
            raise OptionTableError("add_argument with a non-literal dest")
        return kw["dest"].value, flags, action
    if not flags:
        raise OptionTableError("add_argument without a name")
    if not flags[0].startswith("-"):
        return flags[0], flags, action                   # positional: the name as it is
    longs = [f for f in flags if f.startswith("--")]
    first = longs[0][2:] if longs else flags[0].lstrip("-")
    return first.replace("-", "_"), flags, action


def declared(ix: Index, mod: Mod, fn: ast.FunctionDef) -> list:
    """[(dest, [option strings], action)] in order of declaration"""
    out, seen = [], set()

    def visit(mod, fn, parser_names):
        if (mod.name, fn.name) in seen:
            return
        seen.add((mod.name, fn.name))
        calls = sorted((n for n in ast.walk(fn) if isinstance(n, ast.Call)), key=lambda n: (n.lineno, n.col_offset))
        for c in calls:
            if isinstance(c.func, ast.Attribute) and c.func.attr == "add_argument" and isinstance(c.func.value, ast.Name) \
                    and c.func.value.id in parser_names:
                out.append(_dest_of(c))
            elif isinstance(c.func, ast.Name):
                passed = _passed_positions(c, parser_names)
                target = ix.resolve(mod, c.func.id)
                if passed and target:
                    names = {_callee_param(target[1], pos) for pos, _ in passed} - {None}
                    if names:
                        visit(target[0], target[1], names)

    ps = _params(fn)
    if not ps:
        raise OptionTableError(f"{fn.name}: no parser parameter")
    visit(mod, fn, {ps[0]})
    if not out:
        raise OptionTableError(f"{fn.name}: no add_argument call found")
    return out


# ------------------------------------------------------------------ keys read, wiring
def _key_of_read(n, args_names: set):
    """`<args>["k"]` / `<args>.get("k", …)` -> key, a non-constant key -> OptionTableError, anything else -> None"""
    if isinstance(n, ast.Subscript) and isinstance(n.value, ast.Name) and n.value.id in args_names \
            and isinstance(n.ctx, ast.Load):
        k = n.slice
        if isinstance(k, ast.Constant) and isinstance(k.value, str):
            return k.value
        raise OptionTableError(f"line {n.lineno}: the argument dict is read with a key that is not a string constant")
    if isinstance(n, ast.Call) and isinstance(n.func, ast.Attribute) and n.func.attr == "get" \
            and isinstance(n.func.value, ast.Name) and n.func.value.id in args_names:
        if n.args and isinstance(n.args[0], ast.Constant) and isinstance(n.args[0].value, str):
            return n.args[0].value
        raise OptionTableError(f"line {n.lineno}: the argument dict is read with a key that is not a string constant")
    return None


def _strip_bool(e):
    while isinstance(e, ast.Call) and isinstance(e.func, ast.Name) and e.func.id == "bool" and len(e.args) == 1 \
            and not e.keywords:
        e = e.args[0]
    return e


def _guarded_assignments(fn: ast.FunctionDef) -> dict:
    """local name -> [every expression that can influence its value]: for a name that is only bound by plain / annotated
    assignments to the bare name, ALL assigned expressions plus the tests of the `if`/`while` statements these assignments are
    nested in (`if c: x = A / else: x = B` carries the same information as `x = A if c else B`).  Names bound in any other way
    (loop targets, augmented assignment, tuple targets, `with`, `except`, walrus) are left out."""
    values, bad = {}, set()

    def visit(stmts, guards):
        for s in stmts:
            if isinstance(s, (ast.FunctionDef, ast.ClassDef, ast.Lambda)):
                continue
            if isinstance(s, (ast.Assign, ast.AnnAssign)):
                tgts = s.targets if isinstance(s, ast.Assign) else [s.target]
                for t in tgts:
                    if isinstance(t, ast.Name) and s.value is not None:
                        values.setdefault(t.id, []).extend([s.value] + list(guards))
                    else:
                        bad.update(x.id for x in ast.walk(t) if isinstance(x, ast.Name) and isinstance(x.ctx, ast.Store))
            elif isinstance(s, ast.AugAssign):
                bad.update(x.id for x in ast.walk(s.target) if isinstance(x, ast.Name))
            elif isinstance(s, (ast.If, ast.While)):
                visit(s.body, guards + [s.test])
                visit(s.orelse, guards + [s.test])
            elif isinstance(s, (ast.For, ast.AsyncFor)):
                bad.update(x.id for x in ast.walk(s.target) if isinstance(x, ast.Name))
                visit(s.body, guards)
                visit(s.orelse, guards)
            elif isinstance(s, (ast.With, ast.AsyncWith)):
                for item in s.items:
                    if item.optional_vars is not None:
                        bad.update(x.id for x in ast.walk(item.optional_vars) if isinstance(x, ast.Name))
                visit(s.body, guards)
            elif isinstance(s, ast.Try):
                for h in s.handlers:
                    if h.name:
                        bad.add(h.name)
                    visit(h.body, guards)
                visit(s.body, guards)
                visit(s.orelse, guards)
                visit(s.finalbody, guards)
            for x in ast.walk(s) if not isinstance(s, (ast.If, ast.While, ast.For, ast.With, ast.Try)) else []:
                if isinstance(x, ast.NamedExpr) and isinstance(x.target, ast.Name):
                    bad.add(x.target.id)
                if isinstance(x, ast.comprehension):
                    bad.update(y.id for y in ast.walk(x.target) if isinstance(y, ast.Name))
    visit(fn.body, [])
    return {k: v for k, v in values.items() if k not in bad}


def _assignments(fn: ast.FunctionDef) -> dict:
    """local name -> its single assigned expression (names assigned more than once / by loops are left out)"""
    count, value = {}, {}
    for n in ast.walk(fn):
        targets = []
        if isinstance(n, ast.Assign):
            targets = [t for t in n.targets]
        elif isinstance(n, (ast.AnnAssign, ast.AugAssign)):
            targets = [n.target]
        elif isinstance(n, (ast.For, ast.comprehension)):
            targets = [n.target]
        for t in targets:
            for x in ast.walk(t):
                if isinstance(x, ast.Name):
                    count[x.id] = count.get(x.id, 0) + 1
                    if isinstance(n, ast.Assign) and len(n.targets) == 1 and isinstance(t, ast.Name) or \
                            (isinstance(n, ast.AnnAssign) and n.value is not None and isinstance(t, ast.Name)):
                        value[x.id] = n.value
    return {k: v for k, v in value.items() if count.get(k) == 1}


def reads_and_wiring(ix: Index, mod: Mod, fn: ast.FunctionDef, option_fields: list) -> tuple:
    """-> (keys read in order of first occurrence, {options keyword: (sorted keys, kind)})"""
    reads, wiring, seen = [], {}, set()

    def keys_in(e, args_names, assigned, depth=0) -> list:
        ks = []
        for n in ast.walk(e):
            k = _key_of_read(n, args_names)
            if k is not None and k not in ks:
                ks.append(k)
            if isinstance(n, ast.Name) and isinstance(n.ctx, ast.Load) and depth < 8:  # noqa: PLR2004
                if n.id in assigned:
                    more = keys_in(assigned[n.id], args_names, assigned, depth + 1)
                elif n.id in assigned.multi:
                    # bound by several assignments / under conditions: everything that can influence the value
                    more = [k2 for v in assigned.multi[n.id] for k2 in keys_in(v, args_names, assigned, depth + 1)]
                elif n.id in assigned.params:
                    more = assigned.params[n.id][0]          # a parameter: the keys read in the argument at the call site
                else:
                    more = []
                for k2 in more:
                    if k2 not in ks:
                        ks.append(k2)
        return ks

    def kind_of(e, args_names, assigned, depth=0) -> str:
        e = _strip_bool(e)
        if isinstance(e, ast.Name) and e.id in assigned and depth < 8:      # noqa: PLR2004
            return kind_of(assigned[e.id], args_names, assigned, depth + 1)
        if isinstance(e, ast.Name) and e.id in assigned.params and e.id not in assigned.multi:
            return assigned.params[e.id][1]
        if _key_of_read(e, args_names) is not None:
            return "direct"
        if isinstance(e, ast.UnaryOp) and isinstance(e.op, ast.Not) \
                and kind_of(e.operand, args_names, assigned, depth) == "direct":
            return "negated"
        return "expr"

    class Assigned(dict):
        """single-assignment locals (the dict itself) + `multi`: locals bound several times / under conditions
        (name -> all influencing expressions) + `params`: parameter -> (keys, kind) of the argument at the call site"""

    def visit(mod, fn, args_names, param_values=None):
        key = (mod.name, fn.name, tuple(sorted(args_names)))
        if key in seen:
            return
        seen.add(key)
        args_names = set(args_names)
        changed = True
        while changed:                                   # local aliases `a = args`
            changed = False
            for n in ast.walk(fn):
                if isinstance(n, ast.Assign) and isinstance(n.value, ast.Name) and n.value.id in args_names:
                    for t in n.targets:
                        if isinstance(t, ast.Name) and t.id not in args_names:
                            args_names.add(t.id)
                            changed = True
        assigned = Assigned({k: v for k, v in _assignments(fn).items() if k not in args_names})
        assigned.multi = {k: v for k, v in _guarded_assignments(fn).items() if k not in args_names and k not in assigned}
        rebound = {x.id for x in ast.walk(fn) if isinstance(x, ast.Name) and isinstance(x.ctx, ast.Store)}
        assigned.params = {k: v for k, v in (param_values or {}).items()
                           if k not in args_names and k not in rebound and k in _params(fn)}
        nodes = sorted((n for n in ast.walk(fn) if hasattr(n, "lineno")), key=lambda n: (n.lineno, n.col_offset))
        for n in nodes:
            k = _key_of_read(n, args_names)
            if k is not None and k not in reads:
                reads.append(k)
            if isinstance(n, ast.Call) and isinstance(n.func, ast.Name):
                if n.func.id == OPTIONS_CLASS:
                    pairs = [(option_fields[i] if i < len(option_fields) else f"#{i}", a) for i, a in enumerate(n.args)]
                    pairs += [(k.arg, k.value) for k in n.keywords if k.arg]
                    if any(k.arg is None for k in n.keywords):
                        raise OptionTableError(f"{fn.name}: {OPTIONS_CLASS}(**…) cannot be tabulated")
                    for field, val in pairs:
                        row = (sorted(keys_in(val, args_names, assigned)), kind_of(val, args_names, assigned))
                        if field in wiring and wiring[field] != row:
                            raise OptionTableError(f"{OPTIONS_CLASS}.{field} is fed differently at two places")
                        wiring[field] = row
                else:
                    passed = _passed_positions(n, args_names)
                    target = ix.resolve(mod, n.func.id)
                    if passed and target and target[0].name in MODE_FILES:
                        names = {_callee_param(target[1], pos) for pos, _ in passed} - {None}
                        if names:
                            # the other arguments of the call: what the callee's parameters stand for
                            pv = {}
                            if not any(isinstance(a, ast.Starred) for a in n.args) and all(k.arg for k in n.keywords):
                                for pos, a in list(enumerate(n.args)) + [(k.arg, k.value) for k in n.keywords]:
                                    pname = _callee_param(target[1], pos)
                                    if pname is not None and pname not in names:
                                        pv[pname] = (keys_in(a, args_names, assigned), kind_of(a, args_names, assigned))
                            visit(target[0], target[1], names, pv)

    ps = _params(fn)
    if not ps:
        raise OptionTableError(f"{fn.name}: no argument-dict parameter")
    visit(mod, fn, {ps[0]})
    if not wiring:
        raise OptionTableError(f"no {OPTIONS_CLASS}(...) call reachable from {fn.name}")
    return reads, wiring


def option_fields(ix: Index) -> list:
    for n in ix.mods["_file_comparison"].tree.body:
        if isinstance(n, ast.ClassDef) and n.name == OPTIONS_CLASS:
            return [s.target.id for s in n.body if isinstance(s, ast.AnnAssign) and isinstance(s.target, ast.Name)]
    raise OptionTableError(f"class {OPTIONS_CLASS} not found")


def comparator_wiring(ix: Index) -> list:
    """[(keyword of MeshFieldsComparator(...), options field it is given)]"""
    out = []
    tree = ix.mods["_file_comparison"].tree
    fields = set(option_fields(ix))
    for fn in [f for f in ast.walk(tree) if isinstance(f, ast.FunctionDef)]:
        # `opts = self._opts`: a local bound exactly once to `self.<attr>` stands for that attribute
        aliases = {name for name, v in _assignments(fn).items()
                   if isinstance(v, ast.Attribute) and isinstance(v.value, ast.Name) and v.value.id == "self"}
        for n in ast.walk(fn):
            if isinstance(n, ast.Call) and isinstance(n.func, ast.Name) and n.func.id == COMPARATOR:
                for k in n.keywords:
                    v = _strip_bool(k.value)
                    if k.arg and isinstance(v, ast.Attribute) and isinstance(v.value, ast.Attribute) \
                            and isinstance(v.value.value, ast.Name) and v.value.value.id == "self":
                        out.append((k.arg, v.attr))
                    elif k.arg and isinstance(v, ast.Attribute) and isinstance(v.value, ast.Name) \
                            and v.value.id in aliases and v.attr in fields:
                        out.append((k.arg, v.attr))
    if not out:
        raise OptionTableError(f"no {COMPARATOR}(…) call with option keywords found")
    return sorted(set(out))


# ------------------------------------------------------------------ extractor interface
def extract(src) -> dict:
    ix = Index(src)
    fields = option_fields(ix)
    facts = {"fields": fields, "comparator": comparator_wiring(ix), "modes": {}}
    for mode, ((dm, dfn), (rm, rfn)) in entry_points(ix).items():
        decl = declared(ix, dm, dfn)
        reads, wiring = reads_and_wiring(ix, rm, rfn, fields)
        facts["modes"][mode] = {"declared": decl, "reads": reads,
                                "wiring": [(f, wiring[f][0], wiring[f][1]) for f in fields if f in wiring]
                                          + [(f, wiring[f][0], wiring[f][1]) for f in sorted(wiring) if f not in fields]}
    return facts


def _s(s: str) -> str:
    return '"' + s.replace("\\", "\\\\").replace('"', '\\"') + '"'


def _sl(xs) -> str:
    return "[" + ", ".join(_s(x) for x in xs) + "]"


def render(facts) -> str:
    out = [f"def optFields : List String := {_sl(facts['fields'])}",
           "def optComparatorWiring : List (String × String) := ["
           + ", ".join(f"({_s(k)}, {_s(f)})" for k, f in facts["comparator"]) + "]"]
    for mode, cap in (("file", "File"), ("dir", "Dir")):
        m = facts["modes"][mode]
        dests = []
        for d, _, _ in m["declared"]:
            if d not in dests:
                dests.append(d)
        out.append(f"def opt{cap}Dests : List String := {_sl(dests)}")
        out.append(f"def opt{cap}Flags : List (String × String) := ["
                   + ", ".join(f"({_s(fl)}, {_s(d)})" for d, fls, _ in m["declared"] for fl in fls) + "]")
        out.append(f"def opt{cap}StoreTrue : List String := {_sl([d for d, _, a in m['declared'] if a == 'store_true'])}")
        out.append(f"def opt{cap}Reads : List String := {_sl(sorted(m['reads']))}")
        out.append(f"def opt{cap}Wiring : List (String × List String) := ["
                   + ", ".join(f"({_s(f)}, {_sl(ks)})" for f, ks, _ in m["wiring"]) + "]")
        out.append(f"def opt{cap}WiringKind : List (String × String) := ["
                   + ", ".join(f"({_s(f)}, {_s(kind)})" for f, _, kind in m["wiring"]) + "]")
    return "\n".join(out) + "\n"
