"""PyLite translation (fcv/pylite_tr.py) of the small functions anchored in C15: bodies re-translated from the
source text on every run into `Fc.Gen.c15<Name>Src : Fc.PyLite.Fn`; theorems `Fc.C15_source_*` in
lean/FcProofs/Props/C15_Source.lean."""
from .. import pylite_tr as T

PROPERTIES = ["C15"]
IMPORTS = ["FcModel.PyLite"]
FUNCS = [
    ("c15TestSuiteBool", T.TS, "TestSuite.__bool__"),
    ("c15TestSuiteStatus", T.TS, "TestSuite.status"),
    ("c15MergedResult", T.FC, "FileComparison._compare_field_sequences._merge_test_suites._merged_result"),
]


def extract(src) -> dict:
    return T.extract_funcs(src, FUNCS)


def render(facts) -> str:
    return T.render_funcs(facts, FUNCS)
