"""PyLite translation (fcv/pylite_tr.py) of the small functions anchored in C16: bodies re-translated from the
source text on every run into `Fc.Gen.c16<Name>Src : Fc.PyLite.Fn`; theorems `Fc.C16_source_*` in
lean/FcProofs/Props/C16_Source.lean."""
from .. import pylite_tr as T

PROPERTIES = ["C16"]
IMPORTS = ["FcModel.PyLite"]
FUNCS = [
    ("c16IsCompatibleWith", "fieldcompare/mesh/_cell_type.py", "CellType.is_compatible_with"),
]


def extract(src) -> dict:
    return T.extract_funcs(src, FUNCS, scoped_comp=True)


def render(facts) -> str:
    return T.render_funcs(facts, FUNCS)
