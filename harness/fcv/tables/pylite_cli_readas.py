"""PyLite translation (fcv/pylite_tr.py) of the `--read-as` plumbing of the CLI (`fieldcompare/_cli/_common.py`: the lookup
`FileTypeMap.__call__` and the grouping loop of `_make_file_type_map`), anchored in C12 (a file of an unsupported format is
compared iff one of the `--read-as` patterns maps it): bodies re-translated from the source text on every run into
`Fc.Gen.cli<Name>Src : Fc.PyLite.Fn`; theorems `Fc.C12_source_*` in lean/FcProofs/Props/C12_Plumbing.lean
(phase 5, notes/PHASE5_plumbing.md).  Separate from pylite_cli.py so that a change of the `--read-as` handling, which the
quantifier of C04 does not mention, does not break C04's obligations."""
from .. import pylite_tr as T

PROPERTIES = ["C12"]
IMPORTS = ["FcModel.PyLite"]
FUNCS = [
    ("cliFileTypeMapCall", T.CM, "FileTypeMap.__call__"),
    ("cliMakeFileTypeMap", T.CM, "_make_file_type_map"),
    ("cliFileTypeMapInit", T.CM, "FileTypeMap.__init__"),
]


# `_split_regex` (the second nested def: the READER{opts}:PATTERN grammar, string methods only) is an external of the
# translation - the theorem is about the grouping loop and states what it assumes about the split
OPAQUE = {"cliMakeFileTypeMap": [("_split_regex", 1)]}


def extract(src) -> dict:
    return T.extract_funcs(src, FUNCS, scoped_comp=True, plumbing=True, opaque=OPAQUE)


def render(facts) -> str:
    return T.render_funcs(facts, FUNCS)
