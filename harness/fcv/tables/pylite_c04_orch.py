"""PyLite translation (fcv/pylite_tr.py, phase 6 `orch=True`) of `FileComparison._select_predicate` (`_cli/_file_comparison.py`):
which tolerance reaches which field's predicate, anchored in C04 and C09.  Body re-translated from the source text on every run into
`Fc.Gen.c04oSelectPredicateSrc`; theorem `Fc.C04_source_select_predicate` in lean/FcProofs/Props/C04_Orchestration.lean, re-exported
as `C09_source_select_predicate` (notes/PHASE6_A7.md)."""
from .. import pylite_tr as T

PROPERTIES = ["C04", "C09"]
IMPORTS = ["FcModel.PyLite"]
FUNCS = [
    ("c04oSelectPredicate", T.FC, "FileComparison._select_predicate"),
]


def extract(src) -> dict:
    return T.extract_funcs(src, FUNCS, scoped_comp=True, orch=True)


def render(facts) -> str:
    return T.render_funcs(facts, FUNCS)
