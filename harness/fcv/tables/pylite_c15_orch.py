"""PyLite translation (fcv/pylite_tr.py, phase 6 `orch=True`) of the SEQUENCE orchestration, anchored in C15 and C18 (both
compare time series step by step): `FieldDataSequence.__init__ / __iter__ / number_of_steps` (`fieldcompare/_field_sequence.py`;
the source object `self._source` is STATEFUL: its `reset / step / get` calls are the externals `.reset! / .step! / .get!` returning
(result, new source)) and `FileComparison._compare_field_sequences` with its nested `_merge_test_suites` / `_merged_result`
(`_cli/_file_comparison.py`).  Bodies re-translated from the source text on every run into `Fc.Gen.c15o<Name>Src`; theorems
`Fc.C15_source_*` in lean/FcProofs/Props/C15_Orchestration.lean, re-exported as `C18_source_*` (notes/PHASE6_A3.md)."""
from .. import pylite_tr as T

PROPERTIES = ["C15", "C18"]
IMPORTS = ["FcModel.PyLite"]
FS = "fieldcompare/_field_sequence.py"
CFS = "FileComparison._compare_field_sequences"
FUNCS = [
    ("c15oSeqInit", FS, "FieldDataSequence.__init__"),
    ("c15oSeqNumSteps", FS, "FieldDataSequence.number_of_steps"),
    ("c15oSeqIter", FS, "FieldDataSequence.__iter__"),
    ("c15oMergedResult", T.FC, CFS + "._merge_test_suites._merged_result"),
    ("c15oMergeTestSuites", T.FC, CFS + "._merge_test_suites"),
    ("c15oCompareSequences", T.FC, CFS),
]


def extract(src) -> dict:
    return T.extract_funcs(src, FUNCS, scoped_comp=True, orch=True, stateful=("_source",))


def render(facts) -> str:
    return T.render_funcs(facts, FUNCS)
