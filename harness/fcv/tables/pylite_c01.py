"""PyLite translation (fcv/pylite_tr.py) of the small functions anchored in C01: bodies re-translated from the
source text on every run into `Fc.Gen.c01<Name>Src : Fc.PyLite.Fn`; theorems `Fc.C01_source_*` in
lean/FcProofs/Props/C01_Source.lean."""
from .. import pylite_tr as T

PROPERTIES = ["C01", "C10"]
IMPORTS = ["FcModel.PyLite"]
FUNCS = [
    ("c01Reshape", T.PR, "_reshape"),
]


def extract(src) -> dict:
    return T.extract_funcs(src, FUNCS)


def render(facts) -> str:
    return T.render_funcs(facts, FUNCS)
