"""PyLite translation (fcv/pylite_tr.py) of the small functions anchored in C03: bodies re-translated from the
source text on every run into `Fc.Gen.c03<Name>Src : Fc.PyLite.Fn`; theorems `Fc.C03_source_*` in
lean/FcProofs/Props/C03_Source.lean."""
from .. import pylite_tr as T

PROPERTIES = ["C03"]
IMPORTS = ["FcModel.PyLite"]
FUNCS = [
    ("c03WithoutCompatibles", "fieldcompare/mesh/_mesh_equal.py", "_without_compatibles"),
    ("c03FindCompatible", "fieldcompare/mesh/_mesh_equal.py", "_find_compatible"),
]


def extract(src) -> dict:
    return T.extract_funcs(src, FUNCS, scoped_comp=True)


def render(facts) -> str:
    return T.render_funcs(facts, FUNCS)
