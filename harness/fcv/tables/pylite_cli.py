"""PyLite translation (fcv/pylite_tr.py) of the option-plumbing glue of the CLI (`fieldcompare/_cli/_common.py`), anchored in
C04 (file mode) and C12 (directory mode uses the same objects): bodies re-translated from the source text on every run into
`Fc.Gen.cli<Name>Src : Fc.PyLite.Fn`; theorems `Fc.C04_source_*` in lean/FcProofs/Props/C04_Plumbing.lean and
`Fc.C12_source_*` in lean/FcProofs/Props/C12_Plumbing.lean (phase 5, notes/PHASE5_plumbing.md)."""
from .. import pylite_tr as T

PROPERTIES = ["C04", "C12"]
IMPORTS = ["FcModel.PyLite"]
FUNCS = [
    ("cliFieldToleranceMapCall", T.CM, "FieldToleranceMap.__call__"),
    ("cliPatternFilterCall", T.CM, "PatternFilter.__call__"),
    ("cliIncludeAll", T.CM, "_include_all"),
    ("cliExcludeAll", T.CM, "_exclude_all"),
    ("cliParseFieldTolerances", T.CM, "_parse_field_tolerances"),
    ("cliPatternFilterInit", T.CM, "PatternFilter.__init__"),
    ("cliFieldToleranceMapInit", T.CM, "FieldToleranceMap.__init__"),
]


def extract(src) -> dict:
    return T.extract_funcs(src, FUNCS, scoped_comp=True, plumbing=True)


def render(facts) -> str:
    return T.render_funcs(facts, FUNCS)
