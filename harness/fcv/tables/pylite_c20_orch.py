"""PyLite translation (fcv/pylite_tr.py, phase 6 `orch=True`) of the JUnit report `fieldcompare/_cli/_junit.py`, anchored in C20:
`as_junit_xml_element`, `_add_test_case`, `_set_with_message`, `_as_string_or`.  The XML element construction (`Element`,
`SubElement`, `.set`) are externals; calls whose result is discarded are the effect trace.  Bodies re-translated from the source
text on every run into `Fc.Gen.c20o<Name>Src`; theorems `Fc.C20_source_*` in lean/FcProofs/Props/C20_Orchestration.lean
(notes/PHASE6_A4.md)."""
from .. import pylite_tr as T

PROPERTIES = ["C20"]
IMPORTS = ["FcModel.PyLite"]
JU = "fieldcompare/_cli/_junit.py"
FUNCS = [
    ("c20oAsStringOr", JU, "_as_string_or"),
    ("c20oSetWithMessage", JU, "_set_with_message"),
    ("c20oAddTestCase", JU, "_add_test_case"),
    ("c20oJunitElement", JU, "as_junit_xml_element"),
]


def extract(src) -> dict:
    return T.extract_funcs(src, FUNCS, scoped_comp=True, orch=True)


def render(facts) -> str:
    return T.render_funcs(facts, FUNCS)
