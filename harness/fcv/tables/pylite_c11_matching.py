"""PyLite translation (fcv/pylite_tr.py) of `_matching.find_matches`, anchored in C11 and in C12 (directory mode matches the
relative paths with it; `Fc.C12_source_find_matches` in lean/FcProofs/Props/C12_Source.lean): body re-translated from the
source text on every run into `Fc.Gen.c11<Name>Src : Fc.PyLite.Fn`; theorems `Fc.C11_source_*` in
lean/FcProofs/Props/C11_Source.lean."""
from .. import pylite_tr as T

PROPERTIES = ["C11", "C12"]
IMPORTS = ["FcModel.PyLite"]
FUNCS = [
    ("c11FindMatches", "fieldcompare/_matching.py", "find_matches"),
]


def extract(src) -> dict:
    return T.extract_funcs(src, FUNCS, scoped_comp=True)


def render(facts) -> str:
    return T.render_funcs(facts, FUNCS)
