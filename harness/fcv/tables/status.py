"""Status enums, their literal "falsy" sets and the merged-suite-status rules, re-extracted from the
source text (ast; fieldcompare is never imported here).

Lean rendering (namespace Fc.Gen):

  inductive FieldComparisonStatus | passed | failed | …          members of the enum, in source order
  def FieldComparisonStatus.falsy : List FieldComparisonStatus     literal list of `__bool__`: `self not in [...]`
  def suitePassedBucket : FieldComparisonStatus                     `c.status == FieldComparisonStatus.<x>` of the suite ctor
  inductive SuiteStatus …, def SuiteStatus.falsy                    (`Status` enum of _field_data_comparison.py)
  inductive TestStatus …, def TestStatus.falsy                      (`TestStatus.__bool__`)
  def testSuiteFalsy : List TestStatus                              (`TestSuite.__bool__._is_true`)
  def testSuiteDerived : TestStatus × TestStatus                    `TestSuite.status`: (value if self, value otherwise)
  def mergedRules : List (TestStatus × TestStatus)                  `_merged_result`: ordered `if any(r == X …): return Y`
  def mergedDefaultIsNone : Bool                                    final `return None`
  def exitCodeIsNot : Bool                                          `_bool_to_exit_code` is `int(not value)`

Anything the extractor does not recognise raises: the tables are then not regenerated, the stale
file no longer matches the code and the run reports it (vcheck notes `gen_tables failed`)."""
from __future__ import annotations

PROPERTIES = ['C11', 'C15']   # properties whose proofs depend on these declarations
import ast

FDC = "fieldcompare/_field_data_comparison.py"
TS = "fieldcompare/_cli/_test_suite.py"
FC = "fieldcompare/_cli/_file_comparison.py"
CM = "fieldcompare/_cli/_common.py"


class ExtractError(ValueError):
    pass


def _class(tree, name):
    for n in ast.walk(tree):
        if isinstance(n, ast.ClassDef) and n.name == name:
            return n
    raise ExtractError(f"class {name} not found")


def _func(node, name):
    for n in ast.walk(node):
        if isinstance(n, ast.FunctionDef) and n.name == name:
            return n
    raise ExtractError(f"function {name} not found")


def _members(cls) -> list[str]:
    out = []
    for st in cls.body:
        if isinstance(st, ast.Assign) and len(st.targets) == 1 and isinstance(st.targets[0], ast.Name):
            out.append(st.targets[0].id)
    if not out:
        raise ExtractError(f"enum {cls.name} has no members")
    return out


def _attr_member(node, enum: str) -> str:
    if isinstance(node, ast.Attribute) and isinstance(node.value, ast.Name) and node.value.id == enum:
        return node.attr
    raise ExtractError(f"expected {enum}.<member>, got {ast.dump(node)}")


def _not_in_list(fn, subject: str, enum: str) -> list[str]:
    """body is `return <subject> not in [E.a, E.b]` (list or tuple)"""
    rets = [n for n in ast.walk(fn) if isinstance(n, ast.Return)]
    if len(rets) != 1:
        raise ExtractError(f"{fn.name}: expected exactly one return")
    v = rets[0].value
    if isinstance(v, ast.UnaryOp) and isinstance(v.op, ast.Not) and isinstance(v.operand, ast.Compare) \
            and len(v.operand.ops) == 1 and isinstance(v.operand.ops[0], ast.In):
        # `not x in [...]` is the same decision as `x not in [...]`
        v = ast.Compare(left=v.operand.left, ops=[ast.NotIn()], comparators=v.operand.comparators)
    if not (isinstance(v, ast.Compare) and len(v.ops) == 1 and isinstance(v.ops[0], ast.NotIn)
            and isinstance(v.left, ast.Name) and v.left.id == subject
            and isinstance(v.comparators[0], (ast.List, ast.Tuple))):
        raise ExtractError(f"{fn.name}: not of the form `{subject} not in [...]`: {ast.dump(v)}")
    return [_attr_member(e, enum) for e in v.comparators[0].elts]


def _early_return_form(body: list) -> list:
    """`if A: r = X / elif B: r = Y / else: r = Z ; return r` (a result variable, optionally declared by a bare
    annotation `r: T` or initialised by `r = Z` instead of the `else`) rewritten as the equivalent
    `if A: return X / if B: return Y / return Z`.  Any other body is returned unchanged."""
    stmts = [s for s in body if not (isinstance(s, ast.AnnAssign) and s.value is None)
             and not (isinstance(s, ast.Expr) and isinstance(s.value, ast.Constant))]
    if not (len(stmts) >= 2 and isinstance(stmts[-1], ast.Return) and isinstance(stmts[-1].value, ast.Name)):
        return body
    var = stmts[-1].value.id

    def assigned(block):
        """the expression of a block that consists of `var = <expr>` only"""
        if len(block) == 1 and isinstance(block[0], ast.Assign) and len(block[0].targets) == 1 \
                and isinstance(block[0].targets[0], ast.Name) and block[0].targets[0].id == var:
            return block[0].value
        if len(block) == 1 and isinstance(block[0], ast.AnnAssign) and isinstance(block[0].target, ast.Name) \
                and block[0].target.id == var and block[0].value is not None:
            return block[0].value
        return None

    default = None
    rest = stmts[:-1]
    if len(rest) == 2:                       # r = Z ; if … elif … (no else)
        default = assigned(rest[:1])
        rest = rest[1:]
        if default is None:
            return body
    if not (len(rest) == 1 and isinstance(rest[0], ast.If)):
        return body
    out, node = [], rest[0]
    while True:
        val = assigned(node.body)
        if val is None:
            return body
        out.append(ast.If(test=node.test, body=[ast.Return(value=val)], orelse=[]))
        if len(node.orelse) == 1 and isinstance(node.orelse[0], ast.If):
            node = node.orelse[0]
            continue
        if node.orelse:
            if default is not None:
                return body
            default = assigned(node.orelse)
            if default is None:
                return body
        break
    if default is None:
        return body
    return out + [ast.Return(value=default)]


def extract(src) -> dict:
    fdc = ast.parse(src(FDC))
    ts = ast.parse(src(TS))
    fc = ast.parse(src(FC))
    cm = ast.parse(src(CM))
    facts = {}
    # --- FieldComparisonStatus / Status
    fcs = _class(fdc, "FieldComparisonStatus")
    facts["fcs_members"] = _members(fcs)
    facts["fcs_falsy"] = _not_in_list(_func(fcs, "__bool__"), "self", "FieldComparisonStatus")
    st = _class(fdc, "Status")
    facts["status_members"] = _members(st)
    facts["status_falsy"] = _not_in_list(_func(st, "__bool__"), "self", "Status")
    # suite constructor: first test is `c.status == FieldComparisonStatus.<x>`
    init = _func(_class(fdc, "FieldComparisonSuite"), "__init__")
    bucket = None
    for n in ast.walk(init):
        if isinstance(n, ast.If) and isinstance(n.test, ast.Compare) and isinstance(n.test.ops[0], ast.Eq) \
                and isinstance(n.test.left, ast.Attribute) and n.test.left.attr == "status":
            bucket = _attr_member(n.test.comparators[0], "FieldComparisonStatus")
            # shape of the three-way split: if ==passed / elif not c / else
            if not (len(n.orelse) == 1 and isinstance(n.orelse[0], ast.If)
                    and isinstance(n.orelse[0].test, ast.UnaryOp) and isinstance(n.orelse[0].test.op, ast.Not)
                    and n.orelse[0].orelse):
                raise ExtractError("FieldComparisonSuite.__init__: unexpected bucket structure")
            break
    if bucket is None:
        raise ExtractError("FieldComparisonSuite.__init__: bucket test not found")
    facts["suite_passed_bucket"] = bucket
    # --- TestStatus / TestSuite
    tst = _class(ts, "TestStatus")
    facts["ts_members"] = _members(tst)
    facts["ts_falsy"] = _not_in_list(_func(tst, "__bool__"), "self", "TestStatus")
    suite = _class(ts, "TestSuite")
    # the nested helper of TestSuite.__bool__ is located by structure (its name / parameter name are local choices)
    nested = [n for n in _func(suite, "__bool__").body if isinstance(n, ast.FunctionDef)]
    if len(nested) != 1 or len(nested[0].args.args) != 1:
        raise ExtractError("TestSuite.__bool__: expected exactly one nested one-parameter helper")
    facts["testsuite_falsy"] = _not_in_list(nested[0], nested[0].args.args[0].arg, "TestStatus")
    stf = _func(suite, "status")
    derived = None
    for n in ast.walk(stf):
        if isinstance(n, ast.Return) and isinstance(n.value, ast.IfExp):
            t = n.value
            if not (isinstance(t.test, ast.Name) and t.test.id == "self"):
                raise ExtractError("TestSuite.status: unexpected condition")
            derived = [_attr_member(t.body, "TestStatus"), _attr_member(t.orelse, "TestStatus")]
    # the same decision written as statements:  if self: return A  (else:) return B
    for i, n in enumerate(stf.body):
        if derived is None and isinstance(n, ast.If) and isinstance(n.test, ast.Name) and n.test.id == "self" \
                and len(n.body) == 1 and isinstance(n.body[0], ast.Return):
            other = n.orelse if n.orelse else stf.body[i + 1:i + 2]
            if len(other) == 1 and isinstance(other[0], ast.Return):
                derived = [_attr_member(n.body[0].value, "TestStatus"), _attr_member(other[0].value, "TestStatus")]
    if derived is None:
        raise ExtractError("TestSuite.status: conditional return not found")
    facts["testsuite_derived"] = derived
    # --- _merged_result
    mr = _func(fc, "_merged_result")
    rules = []
    default_none = False
    pair_names = set()      # `results = (r1, r2)` / `[r1, r2]` bound to a local name before the rules
    for stmt in _early_return_form(mr.body):
        if isinstance(stmt, ast.Expr) and isinstance(stmt.value, ast.Constant):
            continue                                            # docstring
        if isinstance(stmt, ast.Assign) and len(stmt.targets) == 1 and isinstance(stmt.targets[0], ast.Name) \
                and isinstance(stmt.value, (ast.List, ast.Tuple)) \
                and [getattr(e, "id", None) for e in stmt.value.elts] == ["r1", "r2"]:
            pair_names.add(stmt.targets[0].id)
            continue
        if isinstance(stmt, ast.If):
            call = stmt.test
            if not (isinstance(call, ast.Call) and isinstance(call.func, ast.Name) and call.func.id == "any"
                    and len(call.args) == 1 and isinstance(call.args[0], ast.GeneratorExp)):
                raise ExtractError("_merged_result: unexpected test")
            g = call.args[0]
            cmp_ = g.elt
            if not (isinstance(cmp_, ast.Compare) and isinstance(cmp_.ops[0], ast.Eq)
                    and isinstance(cmp_.left, ast.Name)):
                raise ExtractError("_merged_result: unexpected comparison")
            it = g.generators[0].iter
            over_pair = (isinstance(it, (ast.List, ast.Tuple)) and [getattr(e, "id", None) for e in it.elts] == ["r1", "r2"]) \
                or (isinstance(it, ast.Name) and it.id in pair_names)
            if not (over_pair and not g.generators[0].ifs):
                raise ExtractError("_merged_result: not over [r1, r2]")
            x = _attr_member(cmp_.comparators[0], "TestStatus")
            if not (len(stmt.body) == 1 and isinstance(stmt.body[0], ast.Return) and not stmt.orelse):
                raise ExtractError("_merged_result: unexpected branch body")
            rules.append([x, _attr_member(stmt.body[0].value, "TestStatus")])
        elif isinstance(stmt, ast.Return):
            default_none = isinstance(stmt.value, ast.Constant) and stmt.value.value is None
            if not default_none:
                raise ExtractError("_merged_result: final return is not None")
        else:
            raise ExtractError("_merged_result: unexpected statement")
    facts["merged_rules"] = rules
    facts["merged_default_none"] = default_none
    # --- _bool_to_exit_code: `return int(not value)`
    be = _func(cm, "_bool_to_exit_code")
    # evaluated, not pattern-matched (same evaluator as tables/cli.py): `int(not value)`, `0 if value else 1`, `1 - int(value)` …
    from .cli import eval_bool_to_exit_code
    try:
        table = eval_bool_to_exit_code(be)
    except ValueError as e:
        raise ExtractError(f"_bool_to_exit_code: {e}") from None
    facts["exit_code_is_not"] = (table == (0, 1))
    return facts


def _ind(name, members):
    return (f"inductive {name} where\n" + "".join(f"  | {m}\n" for m in members)
            + "  deriving DecidableEq, Repr, Inhabited\n")


def _lst(enum, xs):
    return "[" + ", ".join(f"{enum}.{x}" for x in xs) + "]"


def render(f) -> str:
    out = []
    out.append(_ind("FieldComparisonStatus", f["fcs_members"]))
    out.append(f"def FieldComparisonStatus.all : List FieldComparisonStatus := {_lst('FieldComparisonStatus', f['fcs_members'])}")
    out.append(f"def FieldComparisonStatus.falsy : List FieldComparisonStatus := {_lst('FieldComparisonStatus', f['fcs_falsy'])}")
    out.append(f"def suitePassedBucket : FieldComparisonStatus := FieldComparisonStatus.{f['suite_passed_bucket']}")
    out.append("")
    out.append(_ind("SuiteStatus", f["status_members"]))
    out.append(f"def SuiteStatus.falsy : List SuiteStatus := {_lst('SuiteStatus', f['status_falsy'])}")
    out.append("")
    out.append(_ind("TestStatus", f["ts_members"]))
    out.append(f"def TestStatus.all : List TestStatus := {_lst('TestStatus', f['ts_members'])}")
    out.append(f"def TestStatus.falsy : List TestStatus := {_lst('TestStatus', f['ts_falsy'])}")
    out.append(f"def testSuiteFalsy : List TestStatus := {_lst('TestStatus', f['testsuite_falsy'])}")
    d = f["testsuite_derived"]
    out.append(f"def testSuiteDerived : TestStatus × TestStatus := (TestStatus.{d[0]}, TestStatus.{d[1]})")
    rules = ", ".join(f"(TestStatus.{x}, TestStatus.{y})" for x, y in f["merged_rules"])
    out.append(f"def mergedRules : List (TestStatus × TestStatus) := [{rules}]")
    out.append(f"def mergedDefaultIsNone : Bool := {'true' if f['merged_default_none'] else 'false'}")
    out.append(f"def exitCodeIsNot : Bool := {'true' if f['exit_code_is_not'] else 'false'}")
    return "\n".join(out) + "\n"
