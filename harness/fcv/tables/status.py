"""Status enums, their literal "falsy" sets and the merged-suite-status rules, re-extracted from the
source text (ast; fieldcompare is never imported here).

Lean rendering (namespace Fc.Gen):

  inductive FieldComparisonStatus | passed | failed | …          members of the enum, in source order
  def FieldComparisonStatus.falsy : List FieldComparisonStatus     literal list of `__bool__`: `self not in [...]`
  def suitePassedBucket : FieldComparisonStatus                     `c.status == FieldComparisonStatus.<x>` of the suite ctor
  inductive SuiteStatus …, def SuiteStatus.falsy                    (`Status` enum of _field_data_comparison.py)
  inductive TestStatus …, def TestStatus.falsy                      (`TestStatus.__bool__`)
  def testSuiteFalsy : List TestStatus                              (`TestSuite.__bool__._is_true`)
  def testSuiteDerived : TestStatus × TestStatus                    `TestSuite.status`: (value if self, value otherwise)
  def mergedRules : List (TestStatus × TestStatus)                  `_merged_result`: ordered `if any(r == X …): return Y`
  def mergedDefaultIsNone : Bool                                    final `return None`
  def exitCodeIsNot : Bool                                          `_bool_to_exit_code` is `int(not value)`

Anything the extractor does not recognise raises: the tables are then not regenerated, the stale
file no longer matches the code and the run reports it (vcheck notes `gen_tables failed`)."""
from __future__ import annotations

PROPERTIES = ['C11', 'C15']   # properties whose proofs depend on these declarations
import ast

FDC = "fieldcompare/_field_data_comparison.py"
TS = "fieldcompare/_cli/_test_suite.py"
FC = "fieldcompare/_cli/_file_comparison.py"
CM = "fieldcompare/_cli/_common.py"


class ExtractError(ValueError):
    pass


def _evaluator(trees):
    """fcv/pyeval.py over the enum classes of the given files (classes with their own __eq__/__hash__ are left out: for them
    equality is not identity and the evaluator must not be used)"""
    from .. import pyeval
    enums = {}
    for tree in trees:
        for n in ast.walk(tree):
            if isinstance(n, ast.ClassDef) and any(isinstance(b, ast.Name) and b.id == "Enum" for b in n.bases) \
                    and not pyeval.defines_own_eq(n):
                enums[n.name] = _members(n)
    return pyeval, enums


def _falsy(trees, cls, enum: str, members: list) -> list[str]:
    """falsy members of a status enum: the literal list of `return self not in [...]` if `__bool__` is written that way,
    otherwise obtained by EVALUATING `__bool__` on every member (set literal, `is not`, `!=`, chains, … - fcv/pyeval.py)"""
    fn = _func(cls, "__bool__")
    try:
        return _not_in_list(fn, "self", enum)
    except ExtractError as first:
        pyeval, enums = _evaluator(trees)
        if enum not in enums or len(fn.args.args) != 1:
            raise first
        try:
            return pyeval.falsy_members(pyeval.Evaluator(enums), fn, enum, members)
        except pyeval.Unsupported as e:
            raise ExtractError(f"{enum}.__bool__: {first}; not evaluable either: {e}") from None


def _class(tree, name):
    for n in ast.walk(tree):
        if isinstance(n, ast.ClassDef) and n.name == name:
            return n
    raise ExtractError(f"class {name} not found")


def _func(node, name):
    for n in ast.walk(node):
        if isinstance(n, ast.FunctionDef) and n.name == name:
            return n
    raise ExtractError(f"function {name} not found")


def _members(cls) -> list[str]:
    out = []
    for st in cls.body:
        if isinstance(st, ast.Assign) and len(st.targets) == 1 and isinstance(st.targets[0], ast.Name):
            out.append(st.targets[0].id)
    if not out:
        raise ExtractError(f"enum {cls.name} has no members")
    return out


def _attr_member(node, enum: str) -> str:
    if isinstance(node, ast.Attribute) and isinstance(node.value, ast.Name) and node.value.id == enum:
        return node.attr
    raise ExtractError(f"expected {enum}.<member>, got {ast.dump(node)}")


def _not_in_list(fn, subject: str, enum: str) -> list[str]:
    """body is `return <subject> not in [E.a, E.b]` (list or tuple)"""
    rets = [n for n in ast.walk(fn) if isinstance(n, ast.Return)]
    if len(rets) != 1:
        raise ExtractError(f"{fn.name}: expected exactly one return")
    v = rets[0].value
    if isinstance(v, ast.UnaryOp) and isinstance(v.op, ast.Not) and isinstance(v.operand, ast.Compare) \
            and len(v.operand.ops) == 1 and isinstance(v.operand.ops[0], ast.In):
        # `not x in [...]` is the same decision as `x not in [...]`
        v = ast.Compare(left=v.operand.left, ops=[ast.NotIn()], comparators=v.operand.comparators)
    if not (isinstance(v, ast.Compare) and len(v.ops) == 1 and isinstance(v.ops[0], ast.NotIn)
            and isinstance(v.left, ast.Name) and v.left.id == subject
            and isinstance(v.comparators[0], (ast.List, ast.Tuple))):
        raise ExtractError(f"{fn.name}: not of the form `{subject} not in [...]`: {ast.dump(v)}")
    return [_attr_member(e, enum) for e in v.comparators[0].elts]


def _early_return_form(body: list) -> list:
    """`if A: r = X / elif B: r = Y / else: r = Z ; return r` (a result variable, optionally declared by a bare
    annotation `r: T` or initialised by `r = Z` instead of the `else`) rewritten as the equivalent
    `if A: return X / if B: return Y / return Z`.  Any other body is returned unchanged."""
    stmts = [s for s in body if not (isinstance(s, ast.AnnAssign) and s.value is None)
             and not (isinstance(s, ast.Expr) and isinstance(s.value, ast.Constant))]
    if not (len(stmts) >= 2 and isinstance(stmts[-1], ast.Return) and isinstance(stmts[-1].value, ast.Name)):
        return body
    var = stmts[-1].value.id

    def assigned(block):
        """the expression of a block that consists of `var = <expr>` only"""
        if len(block) == 1 and isinstance(block[0], ast.Assign) and len(block[0].targets) == 1 \
                and isinstance(block[0].targets[0], ast.Name) and block[0].targets[0].id == var:
            return block[0].value
        if len(block) == 1 and isinstance(block[0], ast.AnnAssign) and isinstance(block[0].target, ast.Name) \
                and block[0].target.id == var and block[0].value is not None:
            return block[0].value
        return None

    default = None
    rest = stmts[:-1]
    if len(rest) == 2:                       # r = Z ; if … elif … (no else)
        default = assigned(rest[:1])
        rest = rest[1:]
        if default is None:
            return body
    if not (len(rest) == 1 and isinstance(rest[0], ast.If)):
        return body
    out, node = [], rest[0]
    while True:
        val = assigned(node.body)
        if val is None:
            return body
        out.append(ast.If(test=node.test, body=[ast.Return(value=val)], orelse=[]))
        if len(node.orelse) == 1 and isinstance(node.orelse[0], ast.If):
            node = node.orelse[0]
            continue
        if node.orelse:
            if default is not None:
                return body
            default = assigned(node.orelse)
            if default is None:
                return body
        break
    if default is None:
        return body
    return out + [ast.Return(value=default)]


def _is_failure_is_not_bool(fc_cls) -> bool:
    """FieldComparison: `__bool__` is `return not self.is_failure` and the property `is_failure` is `return not self.status`
    (then `c.is_failure` and `not c` are the same test)"""
    def single_return(fn):
        body = [s for s in fn.body if not (isinstance(s, ast.Expr) and isinstance(s.value, ast.Constant))]
        return body[0].value if len(body) == 1 and isinstance(body[0], ast.Return) else None

    def not_self_attr(e, attr):
        return isinstance(e, ast.UnaryOp) and isinstance(e.op, ast.Not) and isinstance(e.operand, ast.Attribute) \
            and e.operand.attr == attr and isinstance(e.operand.value, ast.Name) and e.operand.value.id == "self"
    try:
        return not_self_attr(single_return(_func(fc_cls, "__bool__")), "is_failure") \
            and not_self_attr(single_return(_func(fc_cls, "is_failure")), "status")
    except ExtractError:
        return False


def _merged_rules_by_pattern(mr):
    pair = [a.arg for a in mr.args.args]
    if len(pair) != 2:      # noqa: PLR2004
        raise ExtractError("_merged_result: expected two parameters")
    rules = []
    default_none = False
    pair_names = set()      # `results = (r1, r2)` / `[r1, r2]` bound to a local name before the rules
    for stmt in _early_return_form(mr.body):
        if isinstance(stmt, ast.Expr) and isinstance(stmt.value, ast.Constant):
            continue                                            # docstring
        if isinstance(stmt, ast.Assign) and len(stmt.targets) == 1 and isinstance(stmt.targets[0], ast.Name) \
                and isinstance(stmt.value, (ast.List, ast.Tuple)) \
                and [getattr(e, "id", None) for e in stmt.value.elts] == pair:
            pair_names.add(stmt.targets[0].id)
            continue
        if isinstance(stmt, ast.If):
            call = stmt.test
            if not (isinstance(call, ast.Call) and isinstance(call.func, ast.Name) and call.func.id == "any"
                    and len(call.args) == 1 and isinstance(call.args[0], ast.GeneratorExp)):
                raise ExtractError("_merged_result: unexpected test")
            g = call.args[0]
            cmp_ = g.elt
            if not (isinstance(cmp_, ast.Compare) and isinstance(cmp_.ops[0], ast.Eq)
                    and isinstance(cmp_.left, ast.Name)):
                raise ExtractError("_merged_result: unexpected comparison")
            it = g.generators[0].iter
            over_pair = (isinstance(it, (ast.List, ast.Tuple)) and [getattr(e, "id", None) for e in it.elts] == pair) \
                or (isinstance(it, ast.Name) and it.id in pair_names)
            if not (over_pair and not g.generators[0].ifs):
                raise ExtractError("_merged_result: not over [r1, r2]")
            x = _attr_member(cmp_.comparators[0], "TestStatus")
            if not (len(stmt.body) == 1 and isinstance(stmt.body[0], ast.Return) and not stmt.orelse):
                raise ExtractError("_merged_result: unexpected branch body")
            rules.append([x, _attr_member(stmt.body[0].value, "TestStatus")])
        elif isinstance(stmt, ast.Return):
            default_none = isinstance(stmt.value, ast.Constant) and stmt.value.value is None
            if not default_none:
                raise ExtractError("_merged_result: final return is not None")
        else:
            raise ExtractError("_merged_result: unexpected statement")
    return rules, default_none


def suite_helper_falsy(trees, ts_tree, suite, members: list, err) -> list[str]:
    """falsy list of the status helper of `TestSuite.__bool__` (shared with tables/cli.py)"""
    bool_fn = _func(suite, "__bool__")
    nested = [n for n in bool_fn.body if isinstance(n, ast.FunctionDef)]
    outer_funcs = {n.name: n for n in ts_tree.body if isinstance(n, ast.FunctionDef)}
    if len(nested) == 1 and len(nested[0].args.args) == 1:
        helper = nested[0]
    elif not nested:
        called = {c.func.id for c in ast.walk(bool_fn) if isinstance(c, ast.Call) and isinstance(c.func, ast.Name)
                  and len(c.args) == 1 and not c.keywords and c.func.id in outer_funcs
                  and len(outer_funcs[c.func.id].args.args) == 1}
        if len(called) != 1:
            raise err("TestSuite.__bool__: expected exactly one (nested or module-level) one-parameter helper")
        helper = outer_funcs[called.pop()]
    else:
        raise err("TestSuite.__bool__: expected exactly one nested one-parameter helper")
    try:
        return _not_in_list(helper, helper.args.args[0].arg, "TestStatus")
    except ExtractError as first:
        pyeval, enums = _evaluator(trees)
        if "TestStatus" not in enums:
            raise err(str(first)) from None
        try:
            return pyeval.falsy_members(pyeval.Evaluator(enums, outer_funcs), helper, "TestStatus", members)
        except pyeval.Unsupported as e:
            raise err(f"TestSuite.__bool__ helper: {first}; not evaluable either: {e}") from None


def merged_rules_by_evaluation(trees, mr, members: list):
    """`_merged_result(a, b)` EVALUATED on every pair of (TestStatus member | None) and summarised as the ordered rule list
    `[(X, Y)]` + default None that `mergedRules` stands for (result = Y of the first rule whose X equals a or b, else None).
    The rules are synthesised from the table (Y from (X, None); order from the mixed pairs) and then VERIFIED against all
    (n+1)^2 entries: if the function is not of that kind the extraction fails."""
    pyeval, enums = _evaluator(trees)
    if "TestStatus" not in enums or len(mr.args.args) != 2:      # noqa: PLR2004
        raise ExtractError("_merged_result: not evaluable (shape)")
    vals = [pyeval.Sym("TestStatus", m) for m in members] + [None]
    table = {}
    try:
        for a in vals:
            for b in vals:
                r = pyeval.Evaluator(enums).call(mr, [a, b])
                if not (r is None or (isinstance(r, pyeval.Sym) and r.cls == "TestStatus")):
                    raise ExtractError("_merged_result: returns something that is not a TestStatus / None")
                table[(a, b)] = r
    except pyeval.Unsupported as e:
        raise ExtractError(f"_merged_result: not evaluable: {e}") from None
    if table[(None, None)] is not None:
        raise ExtractError("_merged_result: final result for (None, None) is not None")
    active = [x for x in vals[:-1] if table[(x, None)] is not None]

    def before(x, y):       # rule of x fires before the rule of y
        return table[(x, y)] == table[(x, None)] and table[(y, x)] == table[(x, None)]
    import functools
    order = sorted(active, key=functools.cmp_to_key(lambda x, y: -1 if before(x, y) and not before(y, x) else
                                                    (1 if before(y, x) and not before(x, y) else 0)))
    rules = [(x, table[(x, None)]) for x in order]

    def by_rules(a, b):
        for x, y in rules:
            if a == x or b == x:
                return y
        return None
    for (a, b), r in table.items():
        if by_rules(a, b) != r:
            raise ExtractError(f"_merged_result: not a priority-rule function (differs at {a}, {b})")
    return [[x.name, y.name] for x, y in rules]


def extract(src) -> dict:
    fdc = ast.parse(src(FDC))
    ts = ast.parse(src(TS))
    fc = ast.parse(src(FC))
    cm = ast.parse(src(CM))
    facts = {}
    # --- FieldComparisonStatus / Status
    fcs = _class(fdc, "FieldComparisonStatus")
    facts["fcs_members"] = _members(fcs)
    facts["fcs_falsy"] = _falsy([fdc, ts], fcs, "FieldComparisonStatus", facts["fcs_members"])
    st = _class(fdc, "Status")
    facts["status_members"] = _members(st)
    facts["status_falsy"] = _falsy([fdc, ts], st, "Status", facts["status_members"])
    # suite constructor: first test is `c.status == FieldComparisonStatus.<x>`
    init = _func(_class(fdc, "FieldComparisonSuite"), "__init__")
    bucket = None
    for n in ast.walk(init):
        if isinstance(n, ast.If) and isinstance(n.test, ast.Compare) and isinstance(n.test.ops[0], ast.Eq) \
                and isinstance(n.test.left, ast.Attribute) and n.test.left.attr == "status":
            bucket = _attr_member(n.test.comparators[0], "FieldComparisonStatus")
            # shape of the three-way split: if ==passed / elif not c / else
            second = n.orelse[0].test if len(n.orelse) == 1 and isinstance(n.orelse[0], ast.If) else None
            negated = isinstance(second, ast.UnaryOp) and isinstance(second.op, ast.Not)
            if not negated and isinstance(second, ast.Attribute) and second.attr == "is_failure" \
                    and _is_failure_is_not_bool(_class(fdc, "FieldComparison")):
                negated = True      # `elif c.is_failure`: by the two definitions just checked the same test as `elif not c`
            if not (second is not None and negated and n.orelse[0].orelse):
                raise ExtractError("FieldComparisonSuite.__init__: unexpected bucket structure")
            break
    if bucket is None:
        raise ExtractError("FieldComparisonSuite.__init__: bucket test not found")
    facts["suite_passed_bucket"] = bucket
    # --- TestStatus / TestSuite
    tst = _class(ts, "TestStatus")
    facts["ts_members"] = _members(tst)
    facts["ts_falsy"] = _falsy([fdc, ts], tst, "TestStatus", facts["ts_members"])
    suite = _class(ts, "TestSuite")
    # the helper of TestSuite.__bool__ is located by structure (its name / parameter name / nesting level are local
    # choices): the only nested one-parameter def, else the only module-level one-parameter def that `__bool__` calls
    facts["testsuite_falsy"] = suite_helper_falsy([fdc, ts], ts, suite, facts["ts_members"], ExtractError)
    stf = _func(suite, "status")
    derived = None
    for n in ast.walk(stf):
        if isinstance(n, ast.Return) and isinstance(n.value, ast.IfExp):
            t = n.value
            if not (isinstance(t.test, ast.Name) and t.test.id == "self"):
                raise ExtractError("TestSuite.status: unexpected condition")
            derived = [_attr_member(t.body, "TestStatus"), _attr_member(t.orelse, "TestStatus")]
    # the same decision written as statements:  if self: return A  (else:) return B
    for i, n in enumerate(stf.body):
        if derived is None and isinstance(n, ast.If) and isinstance(n.test, ast.Name) and n.test.id == "self" \
                and len(n.body) == 1 and isinstance(n.body[0], ast.Return):
            other = n.orelse if n.orelse else stf.body[i + 1:i + 2]
            if len(other) == 1 and isinstance(other[0], ast.Return):
                derived = [_attr_member(n.body[0].value, "TestStatus"), _attr_member(other[0].value, "TestStatus")]
    if derived is None:
        raise ExtractError("TestSuite.status: conditional return not found")
    facts["testsuite_derived"] = derived
    # --- _merged_result
    mr = _func(fc, "_merged_result")
    try:
        rules, default_none = _merged_rules_by_pattern(mr)
    except ExtractError:
        rules, default_none = merged_rules_by_evaluation([fdc, ts], mr, facts["ts_members"]), True
    facts["merged_rules"] = rules
    facts["merged_default_none"] = default_none
    # --- _bool_to_exit_code: `return int(not value)`
    from ..pylite_tr import resolve_reexport
    be = _func(resolve_reexport(src, CM, "_bool_to_exit_code")[1], "_bool_to_exit_code")
    # evaluated, not pattern-matched (same evaluator as tables/cli.py): `int(not value)`, `0 if value else 1`, `1 - int(value)` …
    from .cli import eval_bool_to_exit_code
    try:
        table = eval_bool_to_exit_code(be)
    except ValueError as e:
        raise ExtractError(f"_bool_to_exit_code: {e}") from None
    facts["exit_code_is_not"] = (table == (0, 1))
    return facts


def _ind(name, members):
    return (f"inductive {name} where\n" + "".join(f"  | {m}\n" for m in members)
            + "  deriving DecidableEq, Repr, Inhabited\n")


def _lst(enum, xs):
    return "[" + ", ".join(f"{enum}.{x}" for x in xs) + "]"


def render(f) -> str:
    out = []
    out.append(_ind("FieldComparisonStatus", f["fcs_members"]))
    out.append(f"def FieldComparisonStatus.all : List FieldComparisonStatus := {_lst('FieldComparisonStatus', f['fcs_members'])}")
    out.append(f"def FieldComparisonStatus.falsy : List FieldComparisonStatus := {_lst('FieldComparisonStatus', f['fcs_falsy'])}")
    out.append(f"def suitePassedBucket : FieldComparisonStatus := FieldComparisonStatus.{f['suite_passed_bucket']}")
    out.append("")
    out.append(_ind("SuiteStatus", f["status_members"]))
    out.append(f"def SuiteStatus.falsy : List SuiteStatus := {_lst('SuiteStatus', f['status_falsy'])}")
    out.append("")
    out.append(_ind("TestStatus", f["ts_members"]))
    out.append(f"def TestStatus.all : List TestStatus := {_lst('TestStatus', f['ts_members'])}")
    out.append(f"def TestStatus.falsy : List TestStatus := {_lst('TestStatus', f['ts_falsy'])}")
    out.append(f"def testSuiteFalsy : List TestStatus := {_lst('TestStatus', f['testsuite_falsy'])}")
    d = f["testsuite_derived"]
    out.append(f"def testSuiteDerived : TestStatus × TestStatus := (TestStatus.{d[0]}, TestStatus.{d[1]})")
    rules = ", ".join(f"(TestStatus.{x}, TestStatus.{y})" for x, y in f["merged_rules"])
    out.append(f"def mergedRules : List (TestStatus × TestStatus) := [{rules}]")
    out.append(f"def mergedDefaultIsNone : Bool := {'true' if f['merged_default_none'] else 'false'}")
    out.append(f"def exitCodeIsNot : Bool := {'true' if f['exit_code_is_not'] else 'false'}")
    return "\n".join(out) + "\n"
