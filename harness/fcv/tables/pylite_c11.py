"""PyLite translation (fcv/pylite_tr.py) of the small functions anchored in C11: bodies re-translated from the
source text on every run into `Fc.Gen.c11<Name>Src : Fc.PyLite.Fn`; theorems `Fc.C11_source_*` in
lean/FcProofs/Props/C11_Source.lean."""
from .. import pylite_tr as T

PROPERTIES = ["C11"]
IMPORTS = ["FcModel.PyLite"]
FUNCS = [
    ("c11FcStatusBool", T.FDC, "FieldComparisonStatus.__bool__"),
    ("c11FcSuiteBool", T.FDC, "FieldComparisonSuite.__bool__"),
    ("c11FcSuiteStatus", T.FDC, "FieldComparisonSuite.status"),
]


def extract(src) -> dict:
    return T.extract_funcs(src, FUNCS)


def render(facts) -> str:
    return T.render_funcs(facts, FUNCS)
