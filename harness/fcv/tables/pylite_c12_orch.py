"""PyLite translation (fcv/pylite_tr.py, phase 6 `orch=True`) of the directory-mode categorisation `_cli/_dir_mode.py:
_categorize_files` (the list / set logic that sorts the relative paths into compared / missing source / missing reference /
unsupported / filtered / discarded orphans), anchored in C12.  Body re-translated from the source text on every run into
`Fc.Gen.c12oCategorizeSrc`; theorem `Fc.C12_source_categorize` in lean/FcProofs/Props/C12_Orchestration.lean
(notes/PHASE6_A6.md)."""
from .. import pylite_tr as T

PROPERTIES = ["C12"]
IMPORTS = ["FcModel.PyLite"]
FUNCS = [
    ("c12oCategorize", "fieldcompare/_cli/_dir_mode.py", "_categorize_files"),
]


def extract(src) -> dict:
    return T.extract_funcs(src, FUNCS, scoped_comp=True, orch=True)


def render(facts) -> str:
    return T.render_funcs(facts, FUNCS)
