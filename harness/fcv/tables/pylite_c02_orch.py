"""PyLite translation (fcv/pylite_tr.py, phase 6 `orch=True`) of the RETRY LADDER `MeshFieldsComparator.__call__`
(`fieldcompare/mesh/_mesh_fields_comparator.py`), anchored in C02, C03, C17 and C19 (all four run meshes through it): body
re-translated from the source text on every run into `Fc.Gen.c02oLadderCallSrc : Fc.PyLite.Fn`; theorems `Fc.C02_source_ladder*`
in lean/FcProofs/Props/C02_Orchestration.lean, re-exported as `C03_/C17_/C19_source_ladder*` (notes/PHASE6_A2.md)."""
from .. import pylite_tr as T

PROPERTIES = ["C02", "C03", "C17", "C19"]
IMPORTS = ["FcModel.PyLite"]
MFC = "fieldcompare/mesh/_mesh_fields_comparator.py"
FUNCS = [
    ("c02oLadderCall", MFC, "MeshFieldsComparator.__call__"),
]


def extract(src) -> dict:
    return T.extract_funcs(src, FUNCS, scoped_comp=True, orch=True)


def render(facts) -> str:
    return T.render_funcs(facts, FUNCS)
