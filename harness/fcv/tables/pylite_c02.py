"""PyLite translation (fcv/pylite_tr.py) of the small functions anchored in C02: bodies re-translated from the
source text on every run into `Fc.Gen.c02<Name>Src : Fc.PyLite.Fn`; theorems `Fc.C02_source_*` in
lean/FcProofs/Props/C02_Source.lean."""
from .. import pylite_tr as T

PROPERTIES = ["C02"]
IMPORTS = ["FcModel.PyLite"]
FUNCS = [
    ("c02WalkTrueRanges", T.NU, "walk_adjacent_true_index_ranges"),
]


def extract(src) -> dict:
    return T.extract_funcs(src, FUNCS)


def render(facts) -> str:
    return T.render_funcs(facts, FUNCS)
