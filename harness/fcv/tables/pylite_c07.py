"""PyLite translation (fcv/pylite_tr.py) of the small functions anchored in C07: bodies re-translated from the
source text on every run into `Fc.Gen.c07<Name>Src : Fc.PyLite.Fn`; theorems `Fc.C07_source_*` in
lean/FcProofs/Props/C07_Source.lean."""
from .. import pylite_tr as T

PROPERTIES = ["C07"]
IMPORTS = ["FcModel.PyLite"]
FUNCS = [
    ("c07ExtentsToCells", T.HLP, "vtk_extents_to_cells_per_direction"),
    ("c07TotalCells", T.HLP, "number_of_total_cells_from_cells_per_direction"),
    ("c07TotalPoints", T.HLP, "number_of_total_points_from_cells_per_direction"),
]


def extract(src) -> dict:
    return T.extract_funcs(src, FUNCS)


def render(facts) -> str:
    return T.render_funcs(facts, FUNCS)
