"""PyLite translation (fcv/pylite_tr.py, phase 6 `orch=True`) of the ORCHESTRATION code of
`fieldcompare/_field_data_comparison.py`, anchored in C11: `FieldDataComparator.__call__` and the methods it calls,
`FieldComparisonSuite.__init__` and the suite's accessors.  Bodies re-translated from the source text on every run into
`Fc.Gen.c11o<Name>Src : Fc.PyLite.Fn` (a method that calls another translated method refers to the callee's definition
by name: callees first); theorems `Fc.C11_source_*` in lean/FcProofs/Props/C11_Orchestration.lean (notes/PHASE6_A.md)."""
from .. import pylite_tr as T

PROPERTIES = ["C11"]
IMPORTS = ["FcModel.PyLite"]
C = "FieldDataComparator."
S = "FieldComparisonSuite."
FUNCS = [
    ("c11oWithoutAnnotation", T.FDC, C + "_without_annotation"),
    ("c11oPerformComparison", T.FDC, C + "_perform_comparison"),
    ("c11oMakeExceptionComparison", T.FDC, C + "_make_exception_comparison"),
    ("c11oMissingSource", T.FDC, C + "_missing_source_comparisons"),
    ("c11oMissingReference", T.FDC, C + "_missing_reference_comparisons"),
    ("c11oFiltered", T.FDC, C + "_filtered_comparisons"),
    ("c11oFilterMatches", T.FDC, C + "_filter_matches"),
    ("c11oCompareMatches", T.FDC, C + "_compare_matches"),
    ("c11oComparatorCall", T.FDC, C + "__call__"),
    ("c11oSuiteInit", T.FDC, S + "__init__"),
    ("c11oSuiteIter", T.FDC, S + "__iter__"),
    ("c11oSuiteLen", T.FDC, S + "__len__"),
    ("c11oSuitePassed", T.FDC, S + "passed"),
    ("c11oSuiteFailed", T.FDC, S + "failed"),
    ("c11oSuiteSkipped", T.FDC, S + "skipped"),
    ("c11oSuiteNumPassed", T.FDC, S + "num_passed"),
    ("c11oSuiteNumFailed", T.FDC, S + "num_failed"),
    ("c11oSuiteNumSkipped", T.FDC, S + "num_skipped"),
    ("c11oSuiteDomainCheck", T.FDC, S + "domain_equality_check"),
]


def extract(src) -> dict:
    return T.extract_funcs(src, FUNCS, scoped_comp=True, orch=True)


def render(facts) -> str:
    return T.render_funcs(facts, FUNCS)
