"""PyLite translation (fcv/pylite_tr.py, phase 6 `orch=True`) of the remaining `TestSuite` methods of `_cli/_test_suite.py`
(`__init__`, `__iter__`, `name`, `num_tests`, `shortlog`, `stdout`, `cpu_time`, `with_overridden`; `__bool__` / `status` are in
pylite_c04 / pylite_c15), anchored in C20.  Bodies re-translated from the source text on every run into `Fc.Gen.c20s<Name>Src`;
theorems `Fc.C20_source_testsuite_*` in lean/FcProofs/Props/C20_TestSuite.lean (notes/PHASE6_A8.md)."""
from .. import pylite_tr as T

PROPERTIES = ["C20"]
IMPORTS = ["FcModel.PyLite"]
S = "TestSuite."
FUNCS = [
    ("c20sInit", T.TS, S + "__init__"),
    ("c20sIter", T.TS, S + "__iter__"),
    ("c20sName", T.TS, S + "name"),
    ("c20sNumTests", T.TS, S + "num_tests"),
    ("c20sShortlog", T.TS, S + "shortlog"),
    ("c20sStdout", T.TS, S + "stdout"),
    ("c20sCpuTime", T.TS, S + "cpu_time"),
    ("c20sWithOverridden", T.TS, S + "with_overridden"),
]


def extract(src) -> dict:
    return T.extract_funcs(src, FUNCS, scoped_comp=True, orch=True)


def render(facts) -> str:
    return T.render_funcs(facts, FUNCS)
