"""PyLite translation (fcv/pylite_tr.py) of the small functions anchored in C05: bodies re-translated from the
source text on every run into `Fc.Gen.c05<Name>Src : Fc.PyLite.Fn`; theorems `Fc.C05_source_*` in
lean/FcProofs/Props/C05_Source.lean."""
from .. import pylite_tr as T

PROPERTIES = ["C05"]
IMPORTS = ["FcModel.PyLite"]
FUNCS = [
    ("c05B64EncodedBytes", T.ENC, "Base64Encoder.encoded_bytes"),
]


def extract(src) -> dict:
    return T.extract_funcs(src, FUNCS)


def render(facts) -> str:
    return T.render_funcs(facts, FUNCS)
