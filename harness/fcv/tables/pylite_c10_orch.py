"""PyLite translation (fcv/pylite_tr.py, phase 6 `orch=True`) of `predicates/_predicates.py: ScaledTolerance.__init__ / _get_base_tol /
__call__`, anchored in C10 and C19 (history-freeness of the tolerance object).  The numpy kernels are externals; `a * b` on array
values is the external `mul`.  Bodies re-translated from the source text on every run into `Fc.Gen.c10o<Name>Src`; theorems
`Fc.C10_source_scaled_tolerance_*` in lean/FcProofs/Props/C10_Orchestration.lean, re-exported for C19 (notes/PHASE6_A9.md)."""
from .. import pylite_tr as T

PROPERTIES = ["C10", "C19"]
IMPORTS = ["FcModel.PyLite"]
S = "ScaledTolerance."
FUNCS = [
    ("c10oScaledInit", T.PR, S + "__init__"),
    ("c10oScaledGetBaseTol", T.PR, S + "_get_base_tol"),
    ("c10oScaledCall", T.PR, S + "__call__"),
]


def extract(src) -> dict:
    return T.extract_funcs(src, FUNCS, scoped_comp=True, orch=True, extern_ops={"Mult": "mul"})


def render(facts) -> str:
    return T.render_funcs(facts, FUNCS)
