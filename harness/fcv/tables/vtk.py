"""VTK tables for C05: the `encoded_bytes` expressions of the two encoders (translated from the source TEXT of
fieldcompare/io/vtk/_encoders.py to Lean `Int` arithmetic) and the VTK numeric type table of _helpers.py.

Python `//` is floor division -> `Int.fdiv`; unary minus, `*`, `+`, `-` map one to one; `int(x)` is the identity on
the integers the expression is applied to.  Anything else is rejected (gen_tables then reports it and the proofs over
the old table are not silently kept: the driver/proof build is what the verdict looks at)."""
from __future__ import annotations

PROPERTIES = ['C05']   # properties whose proofs depend on these declarations
import ast
import re


class Untranslatable(ValueError):
    pass


def _expr(node, env) -> str:
    if isinstance(node, ast.Name):
        if node.id not in env:
            raise Untranslatable(f"free name {node.id}")
        return env[node.id]
    if isinstance(node, ast.Constant) and isinstance(node.value, int) and not isinstance(node.value, bool):
        return f"({node.value} : Int)"
    if isinstance(node, ast.UnaryOp) and isinstance(node.op, ast.USub):
        return f"(-{_expr(node.operand, env)})"
    if isinstance(node, ast.UnaryOp) and isinstance(node.op, ast.UAdd):
        return _expr(node.operand, env)
    if isinstance(node, ast.BinOp):
        a, b = _expr(node.left, env), _expr(node.right, env)
        if isinstance(node.op, ast.FloorDiv):
            return f"(Int.fdiv {a} {b})"
        if isinstance(node.op, ast.Mod):
            return f"(Int.fmod {a} {b})"
        if isinstance(node.op, ast.Mult):
            return f"({a} * {b})"
        if isinstance(node.op, ast.Add):
            return f"({a} + {b})"
        if isinstance(node.op, ast.Sub):
            return f"({a} - {b})"
        raise Untranslatable(f"operator {type(node.op).__name__}")
    if isinstance(node, ast.Call) and isinstance(node.func, ast.Name) and node.func.id == "int" \
            and len(node.args) == 1 and not node.keywords:
        return _expr(node.args[0], env)
    raise Untranslatable(ast.dump(node)[:80])


def _translate_method(cls: ast.ClassDef, name: str) -> str:
    """body = (x = <expr>)* ; return <expr>   over the single non-self parameter, as a Lean term in `n`"""
    fn = next((n for n in cls.body if isinstance(n, ast.FunctionDef) and n.name == name), None)
    if fn is None:
        raise Untranslatable(f"{cls.name}.{name} not found")
    params = [a.arg for a in fn.args.args if a.arg != "self"]
    if len(params) != 1:
        raise Untranslatable(f"{cls.name}.{name}: expected one parameter")
    env = {params[0]: "n"}
    for st in fn.body:
        if isinstance(st, ast.Expr) and isinstance(st.value, ast.Constant):
            continue  # docstring
        if isinstance(st, ast.Assert):
            continue  # the value returned when the assertion holds (the whole body incl. assertions: pylite_c05)
        if isinstance(st, ast.AnnAssign) and isinstance(st.target, ast.Name) and st.value is not None:
            env[st.target.id] = _expr(st.value, env)
            continue
        if isinstance(st, ast.Assign) and len(st.targets) == 1 and isinstance(st.targets[0], ast.Name):
            env[st.targets[0].id] = _expr(st.value, env)
            continue
        if isinstance(st, ast.Return) and st.value is not None:
            return _expr(st.value, env)
        raise Untranslatable(f"{cls.name}.{name}: statement {type(st).__name__}")
    raise Untranslatable(f"{cls.name}.{name}: no return")


def _dtype_entry(node) -> tuple[str, int]:
    """np.int8 -> ("i", 1), np.uint16 -> ("u", 2), np.float32 -> ("f", 4)"""
    if not (isinstance(node, ast.Attribute) and isinstance(node.value, ast.Name) and node.value.id == "np"):
        raise Untranslatable("dtype entry is not np.<name>")
    m = re.fullmatch(r"(int|uint|float)(8|16|32|64)", node.attr)
    if not m:
        raise Untranslatable(f"dtype np.{node.attr}")
    return {"int": "i", "uint": "u", "float": "f"}[m.group(1)], int(m.group(2)) // 8


# ---------------------------------------------------------------- dtype handed to numpy by the three value readers

_VALUE_READERS = (("ascii", "_get_inline_ascii_data_array_values", "fromstring"),
                  ("binary", "_get_inline_binary_data_array_values", "frombuffer"),
                  ("appended", "_get_appended_data_array_values", "frombuffer"))


def _dtype_uses_byte_order(cls: ast.ClassDef, method: str, npfunc: str) -> bool:
    """Does the dtype argument of the `np.<npfunc>(…)` call in `cls.method` depend on the file's byte order
    (`self._byte_order` / `.newbyteorder(…)`), directly, through local variables, or through other methods /
    properties of the class (followed transitively)?  Anything that does not have this shape is rejected."""
    methods = {n.name: n for n in cls.body if isinstance(n, ast.FunctionDef)}
    if method not in methods:
        raise Untranslatable(f"{cls.name}.{method} not found")
    fn = methods[method]
    calls = [n for n in ast.walk(fn) if isinstance(n, ast.Call) and isinstance(n.func, ast.Attribute)
             and n.func.attr == npfunc and isinstance(n.func.value, ast.Name) and n.func.value.id == "np"]
    if len(calls) != 1:
        raise Untranslatable(f"{cls.name}.{method}: expected exactly one np.{npfunc} call, found {len(calls)}")
    call = calls[0]
    dt = next((k.value for k in call.keywords if k.arg == "dtype"), None)
    if dt is None:
        if len(call.args) < 2:
            raise Untranslatable(f"{cls.name}.{method}: np.{npfunc} without dtype")
        dt = call.args[1]

    def local_env(f):
        env = {}
        for n in ast.walk(f):
            if isinstance(n, ast.Assign) and len(n.targets) == 1 and isinstance(n.targets[0], ast.Name):
                env.setdefault(n.targets[0].id, []).append(n.value)
        return env

    seen = set()

    def uses(node, env) -> bool:
        for n in ast.walk(node):
            if isinstance(n, ast.Attribute) and n.attr in ("_byte_order", "newbyteorder", "byteswap"):
                return True
            if isinstance(n, ast.Attribute) and isinstance(n.value, ast.Name) and n.value.id == "self" \
                    and n.attr in methods and n.attr not in seen:
                seen.add(n.attr)
                m = methods[n.attr]
                if any(uses(st, local_env(m)) for st in m.body):
                    return True
            if isinstance(n, ast.Name) and n.id in env:
                vals = env.pop(n.id)
                if any(uses(v, env) for v in vals):
                    return True
        return False

    return uses(dt, local_env(fn))


def extract(src) -> dict:
    enc = ast.parse(src("fieldcompare/io/vtk/_encoders.py"))
    classes = {n.name: n for n in enc.body if isinstance(n, ast.ClassDef)}
    facts = {}
    for cls, key in (("Base64Encoder", "b64"), ("NoEncoder", "raw")):
        if cls not in classes:
            raise Untranslatable(f"class {cls} not found")
        facts[f"encoded_bytes_{key}"] = _translate_method(classes[cls], "encoded_bytes")
    helpers = ast.parse(src("fieldcompare/io/vtk/_helpers.py"))
    table = None
    for n in helpers.body:
        tgt = n.targets[0] if (isinstance(n, ast.Assign) and len(n.targets) == 1) else \
            (n.target if isinstance(n, ast.AnnAssign) else None)          # `NAME = {…}` or `NAME: Dict[…] = {…}`
        if isinstance(tgt, ast.Name) and tgt.id == "_VTK_TYPE_TO_DTYPE" and isinstance(n.value, ast.Dict):
            table = []
            for k, v in zip(n.value.keys, n.value.values):
                if not (isinstance(k, ast.Constant) and isinstance(k.value, str)):
                    raise Untranslatable("vtk type key")
                kind, size = _dtype_entry(v)
                table.append([k.value, kind, size])
    if table is None:
        raise Untranslatable("_VTK_TYPE_TO_DTYPE not found")
    facts["vtk_types"] = table
    reader = ast.parse(src("fieldcompare/io/vtk/_xml_reader.py"))
    rcls = next((n for n in reader.body if isinstance(n, ast.ClassDef) and n.name == "VTKXMLReader"), None)
    if rcls is None:
        raise Untranslatable("class VTKXMLReader not found")
    facts["dtype_byte_order"] = [[key, _dtype_uses_byte_order(rcls, meth, npf)] for key, meth, npf in _VALUE_READERS]
    return facts


def render(facts: dict) -> str:
    rows = ", ".join(f'("{n}", "{k}", {s})' for n, k, s in facts["vtk_types"])
    return "\n".join([
        "/-- Base64Encoder.encoded_bytes, translated from the source text (`//` = floor division) -/",
        f"def encodedBytesB64 (n : Int) : Int := {facts['encoded_bytes_b64']}",
        "/-- NoEncoder.encoded_bytes -/",
        f"def encodedBytesRaw (n : Int) : Int := {facts['encoded_bytes_raw']}",
        "/-- _VTK_TYPE_TO_DTYPE: (VTK name, kind i/u/f, item size in bytes) -/",
        f"def vtkTypes : List (String × String × Nat) := [{rows}]",
        "/-- per value reader of VTKXMLReader (ascii / inline binary / appended): does the dtype handed to numpy",
        "    depend on the file's byte_order attribute?  (from the source text, helper methods followed) -/",
        "def vtkDtypeByteOrder : List (String × Bool) := ["
        + ", ".join(f'("{k}", {"true" if v else "false"})' for k, v in facts["dtype_byte_order"]) + "]",
    ]) + "\n"
