"""PyLite translation (fcv/pylite_tr.py) of the small functions anchored in C04: bodies re-translated from the
source text on every run into `Fc.Gen.c04<Name>Src : Fc.PyLite.Fn`; theorems `Fc.C04_source_*` in
lean/FcProofs/Props/C04_Source.lean."""
from .. import pylite_tr as T

PROPERTIES = ["C04"]
IMPORTS = ["FcModel.PyLite"]
FUNCS = [
    ("c04BoolToExitCode", T.CM, "_bool_to_exit_code"),
    ("c04ParseStatus", T.FC, "FileComparison._parse_status"),
    ("c04TestStatusBool", T.TS, "TestStatus.__bool__"),
    ("c04TestSuiteBool", T.TS, "TestSuite.__bool__"),
    ("c04TestSuiteStatus", T.TS, "TestSuite.status"),
    ("c04MergedResult", T.FC, "FileComparison._compare_field_sequences._merge_test_suites._merged_result"),
]


def extract(src) -> dict:
    return T.extract_funcs(src, FUNCS)


def render(facts) -> str:
    return T.render_funcs(facts, FUNCS)
