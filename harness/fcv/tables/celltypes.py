"""Table extractor for the cell-type logic of `mesh_equal` (C03, C16).

From the *source text* (ast, never import):
  * fieldcompare/mesh/_cell_type_maps.py : the dict literal `_CELL_TYPE_INDEX_TO_STR`  (id -> name)
  * fieldcompare/mesh/_cell_type.py      : `class CellTypes` attributes `x = CellType.from_name("NAME")`,
                                           the module-level calls `_insert_compatibles(CellTypes.a, CellTypes.b)`
                                           (each call enters both directed pairs, as the function body does),
                                           the index maps of `_reorder_quad_pixel` / `_reorder_hex_voxel`
  * fieldcompare/mesh/_mesh.py           : the float literal returned by `default_mesh_relative_tolerance`
  * fieldcompare/mesh/_structured_mesh.py: the `[CellTypes.a, CellTypes.b, CellTypes.c]` lists of the `_cell_type`
                                           methods of StructuredMesh / RectilinearMesh / ImageMesh

Rendered into `namespace Fc.Gen.C16`:
  cellTypeTable : List (Nat × String)      compatIdPairs : List (Nat × Nat)     compatPairs : List (String × String)
  reorderQuadPixel reorderHexVoxel : List Nat        meshDefaultRelTol : Nat  (units of 2^-1074, exact)
  structuredCellTypes rectilinearCellTypes imageCellTypes : List String
"""
from __future__ import annotations

PROPERTIES = ['C03', 'C16']   # properties whose proofs depend on these declarations
import ast
from fractions import Fraction


def _f2u(x: float) -> int:
    n, d = float(x).as_integer_ratio()
    return n * ((1 << 1074) // d)


def _dict_literal(tree, name):
    for node in ast.walk(tree):
        if isinstance(node, (ast.Assign, ast.AnnAssign)):
            targets = node.targets if isinstance(node, ast.Assign) else [node.target]
            if any(isinstance(t, ast.Name) and t.id == name for t in targets) and isinstance(node.value, ast.Dict):
                return {ast.literal_eval(k): ast.literal_eval(v) for k, v in zip(node.value.keys, node.value.values)}
    raise ValueError(f"dict literal {name} not found")


def _celltypes_attr(node):
    """`CellTypes.<attr>` -> attr"""
    if isinstance(node, ast.Attribute) and isinstance(node.value, ast.Name) and node.value.id == "CellTypes":
        return node.attr
    raise ValueError("expected CellTypes.<name>")


def _index_map_of(tree, fn_name):
    for node in tree.body:
        if isinstance(node, ast.FunctionDef) and node.name == fn_name:
            for sub in ast.walk(node):
                if isinstance(sub, ast.Call) and getattr(sub.func, "id", None) == "make_array" and sub.args \
                        and isinstance(sub.args[0], ast.List):
                    return [int(ast.literal_eval(e)) for e in sub.args[0].elts]
    raise ValueError(f"index map of {fn_name} not found")


def _cell_type_list(tree, cls_name):
    for node in tree.body:
        if isinstance(node, ast.ClassDef) and node.name == cls_name:
            for sub in node.body:
                if isinstance(sub, ast.FunctionDef) and sub.name == "_cell_type":
                    for r in ast.walk(sub):
                        if isinstance(r, (ast.List, ast.Tuple)) and r.elts \
                                and all(isinstance(e, ast.Attribute) for e in r.elts):
                            return [_celltypes_attr(e) for e in r.elts]
    raise ValueError(f"_cell_type list of {cls_name} not found")


def extract(src) -> dict:
    maps = ast.parse(src("fieldcompare/mesh/_cell_type_maps.py"))
    idx2str = _dict_literal(maps, "_CELL_TYPE_INDEX_TO_STR")
    ct = ast.parse(src("fieldcompare/mesh/_cell_type.py"))
    attr2name = {}
    for node in ct.body:
        if isinstance(node, ast.ClassDef) and node.name == "CellTypes":
            for a in node.body:
                if isinstance(a, ast.Assign) and isinstance(a.value, ast.Call) and a.value.args:
                    f = a.value.func
                    if isinstance(f, ast.Attribute) and f.attr == "from_name":
                        attr2name[a.targets[0].id] = ast.literal_eval(a.value.args[0])
    str2idx = {v: k for k, v in idx2str.items()}
    compat = {}   # the dict `_COMPATIBLES` as the module-level calls build it
    for node in ct.body:
        if isinstance(node, ast.Expr) and isinstance(node.value, ast.Call) \
                and getattr(node.value.func, "id", None) == "_insert_compatibles":
            a, b = (str2idx[attr2name[_celltypes_attr(x)]] for x in node.value.args)
            for i1, i2 in ((a, b), (b, a)):
                compat.setdefault(i1, [])
                if i2 not in compat[i1]:
                    compat[i1].append(i2)
    pairs = [(i1, i2) for i1 in compat for i2 in compat[i1]]
    mesh = ast.parse(src("fieldcompare/mesh/_mesh.py"))
    rel = None
    for node in mesh.body:
        if isinstance(node, ast.FunctionDef) and node.name == "default_mesh_relative_tolerance":
            for sub in ast.walk(node):
                if isinstance(sub, ast.Return):
                    rel = float(ast.literal_eval(sub.value))
    if rel is None:
        raise ValueError("default_mesh_relative_tolerance not found")
    sm = ast.parse(src("fieldcompare/mesh/_structured_mesh.py"))
    return {
        "table": sorted(idx2str.items()),
        "pairs": pairs,
        "reorder_quad_pixel": _index_map_of(ct, "_reorder_quad_pixel"),
        "reorder_hex_voxel": _index_map_of(ct, "_reorder_hex_voxel"),
        "rel_units": _f2u(rel),
        "rel_repr": repr(rel),
        "structured": [attr2name[a] for a in _cell_type_list(sm, "StructuredMesh")],
        "rectilinear": [attr2name[a] for a in _cell_type_list(sm, "RectilinearMesh")],
        "image": [attr2name[a] for a in _cell_type_list(sm, "ImageMesh")],
    }


def _s(x: str) -> str:
    return '"' + x.replace("\\", "\\\\").replace('"', '\\"') + '"'


def render(f: dict) -> str:
    name = dict(f["table"])
    out = ["namespace C16"]
    out.append("/-- `_CELL_TYPE_INDEX_TO_STR` of fieldcompare/mesh/_cell_type_maps.py -/")
    out.append("def cellTypeTable : List (Nat × String) := [")
    out.append(",\n".join(f"  ({i}, {_s(n)})" for i, n in f["table"]))
    out.append("]")
    out.append("/-- directed entries of `_COMPATIBLES` after the module-level `_insert_compatibles` calls -/")
    out.append("def compatIdPairs : List (Nat × Nat) := [" + ", ".join(f"({a}, {b})" for a, b in f["pairs"]) + "]")
    out.append("def compatPairs : List (String × String) := ["
               + ", ".join(f"({_s(name[a])}, {_s(name[b])})" for a, b in f["pairs"]) + "]")
    out.append("def reorderQuadPixel : List Nat := [" + ", ".join(map(str, f["reorder_quad_pixel"])) + "]")
    out.append("def reorderHexVoxel : List Nat := [" + ", ".join(map(str, f["reorder_hex_voxel"])) + "]")
    out.append(f"/-- `default_mesh_relative_tolerance()` = {f['rel_repr']} in units of 2^-1074 (exact) -/")
    out.append(f"def meshDefaultRelTol : Nat := {f['rel_units']}")
    for k, nm in (("structured", "structuredCellTypes"), ("rectilinear", "rectilinearCellTypes"),
                  ("image", "imageCellTypes")):
        out.append(f"def {nm} : List String := [" + ", ".join(_s(x) for x in f[k]) + "]")
    out.append("end C16")
    return "\n".join(out) + "\n"
