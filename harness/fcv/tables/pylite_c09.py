"""PyLite translation (fcv/pylite_tr.py) of the small functions anchored in C09: bodies re-translated from the
source text on every run into `Fc.Gen.c09<Name>Src : Fc.PyLite.Fn`; theorems `Fc.C09_source_*` in
lean/FcProofs/Props/C09_Source.lean."""
from .. import pylite_tr as T

PROPERTIES = ["C09"]
IMPORTS = ["FcModel.PyLite"]
FUNCS = [
    ("c09DefaultEqualityCall", T.PR, "DefaultEquality.__call__"),
]


def extract(src) -> dict:
    return T.extract_funcs(src, FUNCS)


def render(facts) -> str:
    return T.render_funcs(facts, FUNCS)
