"""Table extractors.  Every module `fcv/tables/<name>.py` defines

    extract(src) -> dict      src(relpath) returns the text of /repo/<relpath>; use `ast`, never import
    render(facts) -> str      Lean declarations (inside `namespace Fc.Gen`), deterministic

gen_tables concatenates the renderings of all modules in alphabetical order into FcGen/Tables.lean."""
