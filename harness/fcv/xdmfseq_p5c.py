"""Phase-5 package C helper for C15: real XDMF time series (written with meshio's `TimeSeriesWriter`, heavy data in
HDF5 / inlined XML / raw binary files) read through `fieldcompare.io.read`, driven with histories of `next()` calls on
iterators of ONE sequence object, the yielded steps compared field by field with the data written.

Nothing here looks at private names of fieldcompare: the sequence is used through `iter()`/`next()`/`number_of_steps`,
the expected content of a step is `fieldcompare.mesh.meshio_utils.from_meshio` (public converter, the same one the
single-file reader uses) applied to the very arrays handed to the writer."""
from __future__ import annotations
import os
import shutil
import tempfile

FORMATS = ("HDF", "XML", "Binary")


def available_formats():
    try:
        import meshio  # noqa: F401
    except ImportError:
        return []
    fmts = ["XML", "Binary"]
    try:
        import h5py  # noqa: F401
        fmts.insert(0, "HDF")
    except ImportError:
        pass
    return fmts


def step_data(s: int):
    """(point_data, cell_data) written for step s: scalar / vector / tensor point fields and the cell marker `step`;
    every value is a small dyadic rational (exact in every storage format)"""
    import numpy as np
    npts = 6
    pd = {"u": np.array([s + 0.25 * k for k in range(npts)]),
          "vec": np.array([[s + 0.5 * k, -1.0 * s] for k in range(npts)]),
          "ten": np.array([[[s + k, 0.5], [0.25 * s, 1.0 * k]] for k in range(npts)])}
    cd = {"step": [np.array([float(s), float(s)]), np.array([float(s)])],
          "c": [np.array([s + 0.5, s + 1.5]), np.array([2.0 * s])]}
    return pd, cd


def mesh_arrays():
    import numpy as np
    pts = np.array([[0.0, 0.0], [1.0, 0.0], [1.0, 1.0], [0.0, 1.0], [2.0, 0.0], [2.0, 1.0]])
    cells = [("quad", np.array([[0, 1, 2, 3], [1, 4, 5, 2]])), ("triangle", np.array([[0, 1, 2]]))]
    return pts, cells


class XdmfFiles:
    """temporary directory holding one time series per (format, length); the process works INSIDE that directory
    while the object is open (meshio's writer puts the heavy-data files into the cwd and its reader resolves raw
    binary files relative to the cwd)"""

    def __init__(self):
        self.dir = tempfile.mkdtemp(prefix="fcv_c15x5_")
        self._cwd = os.getcwd()
        os.chdir(self.dir)
        self._have = {}

    def path(self, fmt: str, n: int) -> str:
        import meshio
        key = (fmt, n)
        if key not in self._have:
            name = f"ts_{fmt}_{n}.xdmf"
            pts, cells = mesh_arrays()
            with meshio.xdmf.TimeSeriesWriter(name, data_format=fmt) as w:
                w.write_points_cells(pts, cells)
                for s in range(n):
                    pd, cd = step_data(s)
                    w.write_data(float(s), point_data=pd, cell_data=cd)
            self._have[key] = os.path.join(self.dir, name)
        return self._have[key]

    def close(self):
        os.chdir(self._cwd)
        shutil.rmtree(self.dir, ignore_errors=True)


_expected = {}


def expected_fields(s: int) -> dict:
    """{field name: values} of step s as ONE data set: the arrays written, converted by fieldcompare's own
    meshio converter (names of cell fields etc. are whatever that converter produces)"""
    if s not in _expected:
        import meshio
        from fieldcompare.mesh import meshio_utils
        pts, cells = mesh_arrays()
        pd, cd = step_data(s)
        fields = meshio_utils.from_meshio(meshio.Mesh(pts, cells, point_data=pd, cell_data=cd))
        _expected[s] = {f.name: f.values for f in fields}
    return _expected[s]


def content_problem(item, s: int):
    """None if the yielded step `item` carries exactly the fields written for step s, else a description"""
    import numpy as np
    exp = expected_fields(s)
    try:
        got = {f.name: np.asarray(f.values) for f in item}
    except Exception as e:      # lazily read heavy data may fail here
        return f"reading the fields of step {s} raised {type(e).__name__}"
    if set(got) != set(exp):
        return f"step {s}: field names {sorted(got)} != written {sorted(exp)}"
    for name in sorted(exp):
        if got[name].shape != np.asarray(exp[name]).shape or not np.array_equal(got[name], exp[name]):
            return f"step {s}: values of field {name!r} differ from the data written"
    return None


def drive(seq, G: int, hist, step_id):
    """run the history of next() calls on G iterators of the ONE object `seq`;
    -> (events [[g, ev, None]], content problems [str])"""
    gens = [iter(seq) for _ in range(G)]
    out, probs = [], []
    for g in hist:
        try:
            item = next(gens[g])
            s = step_id(item)
            ev = f"y{s}"
            p = content_problem(item, s)
            if p is not None:
                probs.append(p)
        except StopIteration:
            ev = "stop"
        except IndexError:
            ev = "raise"
        except Exception as e:
            ev = f"raised-out:{type(e).__name__}"
        out.append([g, ev, None])
    return out, probs


def directed_histories(n: int):
    """[(G, hist, style)] — call histories on one sequence object; generator g is created up front (like
    `FieldDataSequence.__iter__`, nothing happens before its first next())"""
    full, hs = n + 1, []
    hs.append((2, [0] * full + [1] * full, "full-full"))
    hs.append((3, [0] * full + [1] * full + [2] * full, "full-full-full"))
    hs.append((2, [0] * n + [1] * full, "suspended-at-last-then-full"))
    hs.append((2, [0] * (n + 2) + [1] * (n + 2), "overdriven-overdriven"))
    for k in sorted({1, n - 1, n // 2} - {0, n}):
        hs.append((3, [0] * k + [1] * full + [2] * full, f"partial-full-full"))
    hs.append((3, [0] * full + [1] * max(1, n - 1) + [2] * full, "full-partial-full"))
    hs.append((2, [0, 1] * full, "zip-interleaved"))
    hs.append((3, [0] * full + [1, 2] * full, "full-then-zip-interleaved"))
    return hs
