"""Phase 5, package B: hand-written ascii `.vtu` files whose cell types are INTERLEAVED in file order.

The files written by `fieldcompare.io.write` / meshio group the cells by type, so the per-type index maps of
the reader are contiguous ranges there.  VTK / ParaView / DUNE writers emit the cells in mesh order
(triangle, quad, triangle, ...).  This module

  * describes such a file as a plain JSON-serialisable *file mesh* (`fm`):
        {"points": [[x, y, z], ...],                       # python floats, always 3 columns (VTK)
         "cells":  [[vtk_type_id, [corner, ...]], ...],    # in FILE order
         "pf": [{"name", "dt", "ncomp", "v": flat list}],  # one row per point
         "cf": [{"name", "dt", "ncomp", "v": flat list}]}  # one row per cell, in FILE order
  * writes it as ascii VTU text (`vtu_text`),
  * reads that text back with the harness' own reference parser (`c18files.ref_vtk_content`; nothing of
    fieldcompare is imported here) into the arrays the file states (`parse_vtu`),
  * turns these arrays into a logical mesh of `fcv.meshgen` (cells and cell data grouped per type) either
    with the Lean model of the VTU layout (`layout_line` -> driver op `c05vtu` = `Fc.vtuLayout` +
    `Fc.splitCellData`; `lm_from_layout`) or with the independent Python grouping `group_py`,
  * provides renumberings (points / cells of the file) and enumerated single-site modifications of a file mesh,
  * provides small base meshes (2-D strips of quads / triangle pairs with boundary lines and vertices, a 3-D
    column of hexahedra / tetrahedra with boundary faces) in several interleaved file orders.
"""
from __future__ import annotations
import copy

import numpy as np

from . import c18files, meshgen

# VTK cell type ids (VTK file format standard) of the linear cells used here
VTK_ID = {"VERTEX": 1, "LINE": 3, "TRIANGLE": 5, "QUAD": 9, "TETRA": 10, "HEXAHEDRON": 12}
ID_NAME = {v: k for k, v in VTK_ID.items()}
VTK_DT = {"f64": "Float64", "f32": "Float32", "i32": "Int32", "i64": "Int64"}
DT_VTK = {v: k for k, v in VTK_DT.items()}


# ------------------------------------------------------------------ writing

def _fmt(dt, x) -> str:
    return repr(float(x)) if dt in ("f64", "f32") else str(int(x))


def _array(name, dt, ncomp, vals, indent="        ") -> str:
    nm = f' Name="{name}"' if name is not None else ""
    txt = " ".join(_fmt(dt, x) for x in vals)
    return (f'{indent}<DataArray type="{VTK_DT[dt]}"{nm} NumberOfComponents="{ncomp}" format="ascii">\n'
            f'{indent}  {txt}\n{indent}</DataArray>\n')


def vtu_text(fm) -> str:
    conn, offs, types = [], [], []
    for t, row in fm["cells"]:
        conn += list(row)
        offs.append(len(conn))
        types.append(t)
    s = '<?xml version="1.0"?>\n<VTKFile type="UnstructuredGrid" version="0.1" byte_order="LittleEndian">\n'
    s += "  <UnstructuredGrid>\n"
    s += f'    <Piece NumberOfPoints="{len(fm["points"])}" NumberOfCells="{len(types)}">\n'
    s += "      <PointData>\n" + "".join(_array(f["name"], f["dt"], f["ncomp"], f["v"]) for f in fm["pf"]) + "      </PointData>\n"
    s += "      <CellData>\n" + "".join(_array(f["name"], f["dt"], f["ncomp"], f["v"]) for f in fm["cf"]) + "      </CellData>\n"
    s += "      <Points>\n" + _array("Coordinates", "f64", 3, [c for p in fm["points"] for c in p]) + "      </Points>\n"
    s += "      <Cells>\n" + _array("connectivity", "i64", 1, conn) + _array("offsets", "i64", 1, offs)
    s += f'        <DataArray type="UInt8" Name="types" NumberOfComponents="1" format="ascii">\n          ' \
         f'{" ".join(str(t) for t in types)}\n        </DataArray>\n'
    s += "      </Cells>\n    </Piece>\n  </UnstructuredGrid>\n</VTKFile>\n"
    return s


# ------------------------------------------------------------------ what the file states (own parser)

def _values(vtk_type: str, text: bytes):
    toks = text.decode("ascii").split()
    if vtk_type == "Float64":
        return [float(t) for t in toks]
    if vtk_type == "Float32":
        return [float(np.float32(float(t))) for t in toks]
    return [int(t) for t in toks]


def parse_vtu(text: str) -> dict:
    """the arrays stated by an ascii VTU text: points, connectivity, offsets, types, point / cell data (file order)"""
    parsed = c18files.ref_vtk_content(text.encode("ascii"))
    if parsed is None:
        raise ValueError("generated VTU text is not complete")
    items, _ = parsed
    out = {"pf": [], "cf": []}
    section = None
    for it in items:
        if it[0] == "open":
            if it[1] in ("PointData", "CellData", "Points", "Cells"):
                section = it[1]
            elif it[1] == "Piece":
                a = dict(it[2])
                out["npoints"], out["ncells"] = int(a["NumberOfPoints"]), int(a["NumberOfCells"])
            elif it[1] == "VTKFile":
                a = dict(it[2])
                if a.get("type") != "UnstructuredGrid" or a.get("byte_order") != "LittleEndian":
                    raise ValueError("not the kind of file this module writes")
            continue
        a = dict(it[1])
        if a.get("format") != "ascii":
            raise ValueError("only ascii arrays are written here")
        vals = _values(a["type"], it[2])
        ncomp = int(a.get("NumberOfComponents", "1"))
        if section == "Points":
            out["points"] = vals
        elif section == "Cells":
            out[{"connectivity": "conn", "offsets": "offs", "types": "types"}[a["Name"]]] = vals
        else:
            dt = DT_VTK.get(a["type"])
            if dt is None:
                raise ValueError(f"field type {a['type']} not used by this module")
            out["pf" if section == "PointData" else "cf"].append({"name": a["Name"], "dt": dt, "ncomp": ncomp, "v": vals})
    assert len(out["points"]) == 3 * out["npoints"]
    assert len(out["offs"]) == out["ncells"] and len(out["types"]) == out["ncells"]
    return out


def _tail(ncomp):
    return [] if ncomp == 1 else [ncomp]


def _lm(arr, layout, index_maps):
    """layout = [(type id, corner rows)], index_maps = [[cell index in file order]] per type"""
    n = arr["npoints"]
    lm = {"dim": 3, "points": [arr["points"][3 * i:3 * i + 3] for i in range(n)],
          "cells": [[ID_NAME[t], [list(r) for r in rows]] for t, rows in layout], "pf": [], "cf": []}
    for f in arr["pf"]:
        lm["pf"].append({"name": f["name"], "dt": f["dt"], "tail": _tail(f["ncomp"]), "v": list(f["v"])})
    for f in arr["cf"]:
        k = f["ncomp"]
        for (t, _), idxs in zip(layout, index_maps):
            v = []
            for c in idxs:
                v += f["v"][c * k:(c + 1) * k]
            lm["cf"].append({"name": f["name"], "ctype": ID_NAME[t], "dt": f["dt"], "tail": _tail(k), "v": v})
    return lm


def group_py(arr):
    """independent Python statement of the VTU semantics: cell i has type types[i] and the corners
    connectivity[offsets[i-1] : offsets[i]]; cell-data row i belongs to cell i; blocks in ascending type id"""
    starts = [0] + list(arr["offs"][:-1])
    layout, maps = [], []
    for t in sorted(set(arr["types"])):
        idxs = [i for i, ti in enumerate(arr["types"]) if ti == t]
        layout.append((t, [arr["conn"][starts[i]:arr["offs"][i]] for i in idxs]))
        maps.append(idxs)
    return _lm(arr, layout, maps)


def layout_line(arr) -> str:
    """driver op c05vtu (Lean `vtuLayout` / `splitCellData`); the single cell-data array handed over has the row
    `i` (two bytes, little-endian) for cell i, so the reply's `cd` IS the per-type index map of the model"""
    toks = ["c05vtu"]
    for key in ("conn", "offs", "types"):
        toks += [str(len(arr[key]))] + [str(i) for i in arr[key]]
    toks += ["1", str(arr["ncells"])] + ["x" + int(i).to_bytes(2, "little").hex() for i in range(arr["ncells"])]
    return " ".join(toks)


def _nats(s):
    return [] if s in ("-", "") else [int(x) for x in s.split(".")]


def lm_from_layout(arr, rep):
    """logical mesh from the Lean model's reply; None if the model rejects the arrays"""
    if "model" not in rep or rep["model"] == "E" or rep.get("cd") in (None, "E"):
        return None
    layout, maps_l = [], []
    if rep["model"] != "-":
        for part in rep["model"].split("|"):
            t, rows, idxs = part.split(":")
            layout.append((int(t), [_nats(r) for r in rows.split(";")] if rows else []))
            maps_l.append(_nats(idxs))
    maps = []
    if rep["cd"] != "-":
        for part in rep["cd"].split("|"):
            t, rows = part.split(":")
            maps.append([int.from_bytes(bytes.fromhex(r[1:]), "little") for r in rows.split(";")] if rows else [])
    if maps != maps_l:       # splitCellData gathers with the layout's own index lists
        return None
    return _lm(arr, layout, maps)


# ------------------------------------------------------------------ renumbering a file mesh

def renumber_points(fm, perm):
    """new point i is old point perm[i]"""
    inv = {old: new for new, old in enumerate(perm)}
    out = copy.deepcopy(fm)
    out["points"] = [list(fm["points"][old]) for old in perm]
    out["cells"] = [[t, [inv[c] for c in row]] for t, row in fm["cells"]]
    for f, g in zip(out["pf"], fm["pf"]):
        k = g["ncomp"]
        f["v"] = [x for old in perm for x in g["v"][old * k:(old + 1) * k]]
    return out


def renumber_cells(fm, perm):
    """new cell i is old cell perm[i] (file order)"""
    out = copy.deepcopy(fm)
    out["cells"] = [[fm["cells"][old][0], list(fm["cells"][old][1])] for old in perm]
    for f, g in zip(out["cf"], fm["cf"]):
        k = g["ncomp"]
        f["v"] = [x for old in perm for x in g["v"][old * k:(old + 1) * k]]
    return out


def interleaved(fm) -> bool:
    """some cell type does not occupy a contiguous range of the file's cell list"""
    types = [t for t, _ in fm["cells"]]
    for t in set(types):
        idx = [i for i, x in enumerate(types) if x == t]
        if idx[-1] - idx[0] + 1 != len(idx):
            return True
    return False


VARIANTS = ["same-numbering", "points-renumbered", "cells-renumbered", "points+cells-renumbered"]


def renumbered(rng, fm, variant):
    out = fm
    if "points" in variant:
        perm = list(range(len(fm["points"])))
        while perm == sorted(perm) and len(perm) > 1:
            rng.shuffle(perm)
        out = renumber_points(out, perm)
    if "cells" in variant:
        n = len(fm["cells"])
        perm = list(range(n))
        for _ in range(50):
            rng.shuffle(perm)
            if perm != sorted(perm) and interleaved(renumber_cells(out, perm)):
                break
        out = renumber_cells(out, perm)
    return copy.deepcopy(out)


# ------------------------------------------------------------------ single-site modifications (every site, enumerated)

def _changed(dt, x):
    if dt in ("i32", "i64"):
        return int(x) + 1
    if dt == "f32":
        return float(np.float32(float(x) * 1.25 + 0.5))
    return float(x) * 1.25 + 0.5


def sites(rng, fm):
    """every single entry of the file's data: each cell-field row (one component drawn), each point-field row,
    each coordinate, one corner of each cell's connectivity, the type entry of each 4-corner cell"""
    out = []
    ncell, npnt = len(fm["cells"]), len(fm["points"])
    for k, f in enumerate(fm["cf"]):
        for c in range(ncell):
            out.append(("cfield", k, c, rng.randrange(f["ncomp"])))
    for k, f in enumerate(fm["pf"]):
        for p in range(npnt):
            out.append(("pfield", k, p, rng.randrange(f["ncomp"])))
    for p in range(npnt):
        for j in range(3):
            out.append(("coord", p, j))
    for c, (_, row) in enumerate(fm["cells"]):
        others = [q for q in range(npnt) if q not in row]
        if others:
            out.append(("rewire", c, rng.randrange(len(row)), rng.choice(others)))
    for c, (t, row) in enumerate(fm["cells"]):
        if t in (VTK_ID["QUAD"], VTK_ID["TETRA"]):
            out.append(("type", c))
    return out


def apply_site(fm, site):
    """-> (modified copy, tag)"""
    m = copy.deepcopy(fm)
    kind = site[0]
    if kind in ("cfield", "pfield"):
        _, k, r, j = site
        f = m["cf" if kind == "cfield" else "pf"][k]
        i = r * f["ncomp"] + j
        f["v"][i] = _changed(f["dt"], f["v"][i])
        pos = ""
        if kind == "cfield":
            t = fm["cells"][r][0]
            same = [i for i, (tt, _) in enumerate(fm["cells"]) if tt == t]
            pos = "-in-first-run" if r < same[0] + len(same) else "-beyond-first-run"
        return m, f"{kind}-{f['dt']}{pos}"
    if kind == "coord":
        _, p, j = site
        m["points"][p][j] = m["points"][p][j] + 0.28125     # lattice spacing 1, jitter <= 0.1: far beyond any tolerance
        return m, "coord"
    if kind == "rewire":
        _, c, k, q = site
        m["cells"][c][1][k] = q
        return m, "rewire"
    if kind == "type":
        _, c = site
        t = m["cells"][c][0]
        m["cells"][c][0] = VTK_ID["TETRA"] if t == VTK_ID["QUAD"] else VTK_ID["QUAD"]
        return m, "type-entry"
    raise ValueError(site)


# ------------------------------------------------------------------ base meshes

def _fields(rng, fm, plan_p, plan_c):
    npnt, ncell = len(fm["points"]), len(fm["cells"])
    for name, dt, k in plan_p:
        fm["pf"].append({"name": name, "dt": dt, "ncomp": k, "v": meshgen._distinct_values(rng, dt, npnt * k)})
    for name, dt, k in plan_c:
        fm["cf"].append({"name": name, "dt": dt, "ncomp": k, "v": meshgen._distinct_values(rng, dt, ncell * k)})
    return fm


def _order(rng, cells, how):
    """file order of the cells: natural (mesh order), round-robin over the types, reversed round-robin, shuffled
    (re-drawn until interleaved), grouped (control: what fieldcompare / meshio write)"""
    if how == "natural":
        return cells
    by_type = {}
    for c in cells:
        by_type.setdefault(c[0], []).append(c)
    if how == "grouped":
        return [c for t in by_type for c in by_type[t]]
    if how in ("roundrobin", "roundrobin-reversed"):
        out, k = [], 0
        groups = list(by_type.values())
        while any(k < len(g) for g in groups):
            out += [g[k] for g in groups if k < len(g)]
            k += 1
        return out[::-1] if how.endswith("reversed") else out
    out = list(cells)
    for _ in range(50):
        rng.shuffle(out)
        if interleaved({"cells": out}):
            break
    return out


def strip_mesh(rng, pattern, lines=0, vertices=0, order="natural", plan_p=None, plan_c=None):
    """2 x (n+1) lattice in a coordinate plane; square i is a QUAD ('Q') or two TRIANGLEs ('T'); `lines` bottom
    edges as LINE cells and `vertices` corner points as VERTEX cells, placed in between"""
    n = len(pattern)
    axes = rng.choice([(0, 1), (0, 2), (1, 2)])
    const = rng.choice([0.0, 0.0, 1.5])
    pts = []
    for j in range(2):
        for i in range(n + 1):
            p = [const, const, const]
            p[axes[0]] = i + rng.choice([-0.0625, 0.0, 0.09375])
            p[axes[1]] = j + rng.choice([-0.0625, 0.0, 0.09375])
            pts.append(p)

    def idx(i, j):
        return j * (n + 1) + i
    cells = []
    for i, s in enumerate(pattern):
        p00, p10, p11, p01 = idx(i, 0), idx(i + 1, 0), idx(i + 1, 1), idx(i, 1)
        if s == "Q":
            cells.append([VTK_ID["QUAD"], [p00, p10, p11, p01]])
        else:
            cells.append([VTK_ID["TRIANGLE"], [p00, p10, p11]])
            cells.append([VTK_ID["TRIANGLE"], [p00, p11, p01]])
        if i < lines:
            cells.append([VTK_ID["LINE"], [p00, p10]])
        if i < vertices:
            cells.append([VTK_ID["VERTEX"], [p01]])
    fm = {"points": pts, "cells": _order(rng, cells, order), "pf": [], "cf": []}
    return _fields(rng, fm, plan_p or [("pscal", "f64", 1)], plan_c or [("cval", "f64", 1)])


def column_mesh(rng, pattern, faces=1, order="roundrobin", plan_p=None, plan_c=None):
    """a column of cubes; cube k is a HEXAHEDRON ('H') or six TETRAs ('T'); `faces` bottom faces as a QUAD and the
    top face as two TRIANGLEs"""
    n = len(pattern)
    pts, ids = [], {}
    for k in range(n + 1):
        for j in range(2):
            for i in range(2):
                ids[(i, j, k)] = len(pts)
                pts.append([i + rng.choice([0.0, 0.0625]), j + rng.choice([0.0, -0.0625]), k + rng.choice([0.0, 0.09375])])
    cells = []
    for k, s in enumerate(pattern):
        v = [ids[(a, b, k + d)] for d in (0, 1) for b in (0, 1) for a in (0, 1)]
        if s == "H":
            cells.append([VTK_ID["HEXAHEDRON"], [v[0], v[1], v[3], v[2], v[4], v[5], v[7], v[6]]])
        else:
            for tet in ([0, 1, 3, 7], [0, 1, 5, 7], [0, 2, 3, 7], [0, 2, 6, 7], [0, 4, 5, 7], [0, 4, 6, 7]):
                cells.append([VTK_ID["TETRA"], [v[q] for q in tet]])
        if k < faces:
            cells.append([VTK_ID["QUAD"], [v[0], v[1], v[3], v[2]]])
    top = [ids[(0, 0, n)], ids[(1, 0, n)], ids[(1, 1, n)], ids[(0, 1, n)]]
    cells.append([VTK_ID["TRIANGLE"], [top[0], top[1], top[2]]])
    cells.append([VTK_ID["TRIANGLE"], [top[0], top[2], top[3]]])
    fm = {"points": pts, "cells": _order(rng, cells, order), "pf": [], "cf": []}
    return _fields(rng, fm, plan_p or [("pscal", "f64", 1)], plan_c or [("cval", "f64", 1)])


def base_meshes(rng, thorough=False):
    """[(label, fm)]: enumerated structures / file orders, values and jitter from rng"""
    P1, P2 = [("pscal", "f64", 1)], [("pscal", "f64", 1), ("pvec", "f32", 3), ("pid", "i32", 1)]
    C1, C2, C3 = [("cval", "f64", 1)], [("cval", "f64", 1), ("cid", "i64", 1)], [("cvec", "f64", 3), ("cflag", "i32", 1)]
    out = [
        ("strip-TQT-natural", strip_mesh(rng, "TQT", order="natural", plan_p=P1, plan_c=C2)),
        ("strip-QTQT-lines-roundrobin", strip_mesh(rng, "QTQT", lines=2, order="roundrobin", plan_p=P2, plan_c=C1)),
        ("strip-TTQ-lines-vertices-shuffled", strip_mesh(rng, "TTQ", lines=3, vertices=2, order="shuffled", plan_p=P1, plan_c=C3)),
        ("column-HT-roundrobin", column_mesh(rng, "HT", faces=1, order="roundrobin", plan_p=P1, plan_c=C2)),
        ("strip-QTTQ-roundrobin-reversed", strip_mesh(rng, "QTTQ", lines=1, order="roundrobin-reversed", plan_p=P1, plan_c=C1)),
        ("strip-QT-grouped-control", strip_mesh(rng, "QT", lines=1, order="grouped", plan_p=P1, plan_c=C1)),
    ]
    if thorough:
        for k in range(10):
            pat = "".join(rng.choice("QT") for _ in range(rng.randint(2, 5)))
            if "Q" not in pat or "T" not in pat:
                pat = "QT" + pat
            out.append((f"strip-{pat}-shuffled-{k}", strip_mesh(rng, pat, lines=rng.randint(0, 2), vertices=rng.randint(0, 2),
                                                                  order="shuffled", plan_p=rng.choice([P1, P2]),
                                                                  plan_c=rng.choice([C1, C2, C3]))))
        for k in range(4):
            pat = rng.choice(["HT", "TH", "HTH", "THT"])
            out.append((f"column-{pat}-shuffled-{k}", column_mesh(rng, pat, faces=rng.randint(0, 2), order="shuffled",
                                                                    plan_p=rng.choice([P1, P2]), plan_c=rng.choice([C1, C2, C3]))))
    return out
