"""C18 plumbing: a small VTK-XML / CSV file encoder (every encoding the readers understand), an independent
minimal *reference parser* that decides whether a damaged file still carries the complete logical content,
and the fault generators (cuts, array / piece removal).

Nothing here imports fieldcompare.  The encoder follows the VTK XML layout:
  ascii            <DataArray format="ascii">v v v</DataArray>
  binary           base64( header ++ data )                       uncompressed, header = [nbytes]
                   base64(header) ++ base64(blocks)               compressed,  header = [nblocks, blocksize, last, c1..cn]
  appended base64  the same strings, concatenated behind `_`, offsets in characters
  appended raw     header ++ data / header ++ blocks,             offsets in bytes
"""
from __future__ import annotations
import base64
import lzma
import re
import struct
import zlib

try:
    import lz4.block as _lz4
except ImportError:      # pragma: no cover
    _lz4 = None

COMPRESS = {"zlib": (zlib.compress, "vtkZLibDataCompressor"),
            "lzma": (lzma.compress, "vtkLZMADataCompressor")}
if _lz4 is not None:
    COMPRESS["lz4"] = (lambda b: _lz4.compress(b, store_size=False), "vtkLZ4DataCompressor")

import numpy as np

VTK_TYPE = {"int8": "Int8", "int16": "Int16", "int32": "Int32", "int64": "Int64", "uint8": "UInt8",
            "uint16": "UInt16", "uint32": "UInt32", "uint64": "UInt64", "float32": "Float32", "float64": "Float64"}


class Cfg:
    def __init__(self, fmt="binary", comp=None, header="UInt64", block=48):
        assert fmt in ("ascii", "binary", "appended-base64", "appended-raw")
        self.fmt, self.comp, self.header, self.block = fmt, comp, header, block

    @property
    def label(self):
        return f"{self.fmt}{('-' + self.comp) if self.comp else ''}-{self.header}"


def _hdr(cfg, vals):
    return struct.pack("<" + ("Q" if cfg.header == "UInt64" else "I") * len(vals), *vals)


def payload_parts(cfg: Cfg, data: bytes):
    """(header bytes, body bytes) of one array in the binary formats"""
    if not cfg.comp:
        return _hdr(cfg, [len(data)]), data
    bs = cfg.block
    blocks = [data[i:i + bs] for i in range(0, len(data), bs)]
    comp = [COMPRESS[cfg.comp][0](b) for b in blocks]
    last = len(data) % bs
    return _hdr(cfg, [len(blocks), bs, last] + [len(c) for c in comp]), b"".join(comp)


def encode_inline(cfg: Cfg, data: bytes) -> bytes:
    h, b = payload_parts(cfg, data)
    if cfg.comp:
        return base64.b64encode(h) + base64.b64encode(b)
    return base64.b64encode(h + b)


def encode_raw(cfg: Cfg, data: bytes) -> bytes:
    h, b = payload_parts(cfg, data)
    return h + b


class Writer:
    """collects data arrays; produces the file bytes and the structural boundaries"""

    def __init__(self, cfg: Cfg):
        self.cfg = cfg
        self.appendix = b""

    def array(self, name, arr: np.ndarray, ncomps=None, indent="        ") -> str:
        arr = np.ascontiguousarray(arr)
        nc = ncomps if ncomps is not None else (int(np.prod(arr.shape[1:])) if arr.ndim > 1 else 1)
        attrs = f'Name="{name}" type="{VTK_TYPE[arr.dtype.name]}" NumberOfComponents="{nc}"'
        data = arr.tobytes()
        f = self.cfg.fmt
        if f == "ascii":
            flat = arr.reshape(-1)
            txt = " ".join(repr(float(x)) if arr.dtype.kind == "f" else str(int(x)) for x in flat)
            return f'{indent}<DataArray {attrs} format="ascii">\n{indent}  {txt}\n{indent}</DataArray>\n'
        if f == "binary":
            return (f'{indent}<DataArray {attrs} format="binary">\n{indent}  '
                    f'{encode_inline(self.cfg, data).decode()}\n{indent}</DataArray>\n')
        off = len(self.appendix)
        self.appendix += encode_inline(self.cfg, data) if f == "appended-base64" else encode_raw(self.cfg, data)
        return f'{indent}<DataArray {attrs} format="appended" offset="{off}"/>\n'

    def root_open(self, vtktype) -> str:
        comp = f' compressor="{COMPRESS[self.cfg.comp][1]}"' if self.cfg.comp else ""
        return (f'<?xml version="1.0"?>\n<VTKFile type="{vtktype}" version="1.0" byte_order="LittleEndian" '
                f'header_type="{self.cfg.header}"{comp}>\n')

    def finish(self, body: str) -> bytes:
        out = body.encode("ascii")
        if self.cfg.fmt.startswith("appended"):
            enc = "base64" if self.cfg.fmt == "appended-base64" else "raw"
            out += f'  <AppendedData encoding="{enc}">\n   _'.encode() + self.appendix + b"\n  </AppendedData>\n"
        return out + b"</VTKFile>\n"


# ------------------------------------------------------------------ data sets

def small_dataset(rng):
    """a mixed quad/triangle mesh with distinct field values (so that nothing can cancel)"""
    pts = np.array([[0, 0, 0], [1, 0, 0], [2, 0, 0], [0, 1, 0], [1, 1, 0], [2, 1, 0], [0, 2, 0], [1, 2, 0]], dtype=np.float64)
    pts[:, :2] += np.array([[rng.uniform(-0.05, 0.05), rng.uniform(-0.05, 0.05)] for _ in range(len(pts))])
    cells = [("QUAD", 9, [[0, 1, 4, 3], [1, 2, 5, 4]]), ("TRIANGLE", 5, [[3, 4, 6], [4, 7, 6]])]
    n, nc = len(pts), 4
    pf = {"pscal": np.array([rng.uniform(1, 2) + i for i in range(n)], dtype=np.float64),
          "pvec": np.array([[i + 0.5, -i - 0.25, rng.randint(1, 9)] for i in range(n)], dtype=np.float32)}
    cf = {"cid": np.array([rng.randint(10, 99) + 100 * i for i in range(nc)], dtype=np.int32),
          "cval": np.array([rng.uniform(5, 6) * (i + 1) for i in range(nc)], dtype=np.float64)}
    return {"points": pts, "cells": cells, "pf": pf, "cf": cf}


def vtu_bytes(ds, cfg: Cfg) -> bytes:
    w = Writer(cfg)
    conn, offs, types = [], [], []
    for _, idx, rows in ds["cells"]:
        for r in rows:
            conn += r
            offs.append(len(conn))
            types.append(idx)
    s = w.root_open("UnstructuredGrid")
    s += "  <UnstructuredGrid>\n"
    s += f'    <Piece NumberOfPoints="{len(ds["points"])}" NumberOfCells="{len(types)}">\n'
    s += "      <PointData>\n" + "".join(w.array(k, v) for k, v in ds["pf"].items()) + "      </PointData>\n"
    s += "      <CellData>\n" + "".join(w.array(k, v) for k, v in ds["cf"].items()) + "      </CellData>\n"
    s += "      <Points>\n" + w.array("Coordinates", ds["points"], 3) + "      </Points>\n"
    s += "      <Cells>\n" + w.array("connectivity", np.array(conn, dtype=np.int64)) \
        + w.array("offsets", np.array(offs, dtype=np.int64)) + w.array("types", np.array(types, dtype=np.uint8)) \
        + "      </Cells>\n"
    s += "    </Piece>\n  </UnstructuredGrid>\n"
    return w.finish(s)


def vtp_bytes(ds, cfg: Cfg) -> bytes:
    """poly data with lines and polygons (quads)"""
    w = Writer(cfg)
    pts = ds["points"]
    lines = [[0, 1], [1, 2], [2, 5]]
    polys = [[0, 1, 4, 3], [1, 2, 5, 4], [3, 4, 7, 6]]
    ncell = len(lines) + len(polys)

    def sect(tag, rows):
        conn = [i for r in rows for i in r]
        offs = list(np.cumsum([len(r) for r in rows]))
        return (f"      <{tag}>\n" + w.array("connectivity", np.array(conn, dtype=np.int64))
                + w.array("offsets", np.array(offs, dtype=np.int64)) + f"      </{tag}>\n")
    cid = np.array([7 + 11 * i for i in range(ncell)], dtype=np.int32)
    s = w.root_open("PolyData") + "  <PolyData>\n"
    s += (f'    <Piece NumberOfPoints="{len(pts)}" NumberOfVerts="0" NumberOfLines="{len(lines)}" NumberOfStrips="0" '
          f'NumberOfPolys="{len(polys)}">\n')
    s += "      <PointData>\n" + w.array("pscal", ds["pf"]["pscal"]) + "      </PointData>\n"
    s += "      <CellData>\n" + w.array("cid", cid) + "      </CellData>\n"
    s += "      <Points>\n" + w.array("Coordinates", pts, 3) + "      </Points>\n"
    s += sect("Lines", lines) + sect("Polys", polys)
    s += "    </Piece>\n  </PolyData>\n"
    return w.finish(s)


def vtp_single_bytes(ds, cfg: Cfg, kind: str = "Lines") -> bytes:
    """poly data made up of poly-lines only (`kind="Lines"`) or vertices only (`kind="Verts"`).  As VTK does, the
    (empty) connectivity / offsets arrays of the unused sections are written as well, in the order Verts, Lines,
    Strips, Polys - so the blocks of arrays that no reader ever looks at come LAST in an appended-data section."""
    assert kind in ("Lines", "Verts")
    w = Writer(cfg)
    pts = ds["points"]
    rows = {"Lines": [[0, 1], [1, 2], [2, 5]], "Verts": [[0], [3], [7]]}[kind]
    empty = np.array([], dtype=np.int64)

    def sect(tag):
        r = rows if tag == kind else []
        conn = np.array([i for row in r for i in row], dtype=np.int64) if r else empty
        offs = np.cumsum([len(row) for row in r]).astype(np.int64) if r else empty
        return (f"      <{tag}>\n" + w.array("connectivity", conn) + w.array("offsets", offs) + f"      </{tag}>\n")
    cid = np.array([7 + 11 * i for i in range(len(rows))], dtype=np.int32)
    s = w.root_open("PolyData") + "  <PolyData>\n"
    s += (f'    <Piece NumberOfPoints="{len(pts)}" NumberOfVerts="{len(rows) if kind == "Verts" else 0}" '
          f'NumberOfLines="{len(rows) if kind == "Lines" else 0}" NumberOfStrips="0" NumberOfPolys="0">\n')
    s += "      <PointData>\n" + w.array("pscal", ds["pf"]["pscal"]) + "      </PointData>\n"
    s += "      <CellData>\n" + w.array("cid", cid) + "      </CellData>\n"
    s += "      <Points>\n" + w.array("Coordinates", pts, 3) + "      </Points>\n"
    s += sect("Verts") + sect("Lines") + sect("Strips") + sect("Polys")
    s += "    </Piece>\n  </PolyData>\n"
    return w.finish(s)


def _grid_fields(w, rng_vals, npts, ncells):
    pf = np.array([rng_vals[0] + 0.5 * i for i in range(npts)], dtype=np.float64)
    cf = np.array([[rng_vals[1] + i, -i - 1.5] for i in range(ncells)], dtype=np.float32)
    return ("      <PointData>\n" + w.array("pscal", pf) + "      </PointData>\n"
            + "      <CellData>\n" + w.array("cvec", cf) + "      </CellData>\n")


def vti_bytes(vals, cfg: Cfg) -> bytes:
    w = Writer(cfg)
    s = w.root_open("ImageData")
    s += '  <ImageData WholeExtent="0 3 0 2 0 0" Origin="0.5 -1 0" Spacing="0.25 0.5 1">\n'
    s += '    <Piece Extent="0 3 0 2 0 0">\n' + _grid_fields(w, vals, 12, 6) + "    </Piece>\n  </ImageData>\n"
    return w.finish(s)


def vtr_bytes(vals, cfg: Cfg) -> bytes:
    w = Writer(cfg)
    s = w.root_open("RectilinearGrid")
    s += '  <RectilinearGrid WholeExtent="0 3 0 2 0 0">\n    <Piece Extent="0 3 0 2 0 0">\n'
    s += _grid_fields(w, vals, 12, 6)
    s += ("      <Coordinates>\n" + w.array("x", np.array([0.0, 0.5, 1.5, 3.0]) + vals[2])
          + w.array("y", np.array([0.0, 1.0, 4.0])) + w.array("z", np.array([0.0])) + "      </Coordinates>\n")
    s += "    </Piece>\n  </RectilinearGrid>\n"
    return w.finish(s)


def vts_bytes(vals, cfg: Cfg) -> bytes:
    w = Writer(cfg)
    pts = np.array([[i + 0.1 * j + vals[2], j + 0.05 * i, 0.0] for j in range(3) for i in range(4)], dtype=np.float64)
    s = w.root_open("StructuredGrid")
    s += '  <StructuredGrid WholeExtent="0 3 0 2 0 0">\n    <Piece Extent="0 3 0 2 0 0">\n'
    s += _grid_fields(w, vals, 12, 6)
    s += "      <Points>\n" + w.array("Coordinates", pts, 3) + "      </Points>\n"
    s += "    </Piece>\n  </StructuredGrid>\n"
    return w.finish(s)


def shifted(ds, dx, dv):
    out = {"points": ds["points"].copy(), "cells": ds["cells"],
           "pf": {k: (v + np.array(dv, dtype=v.dtype)) for k, v in ds["pf"].items()},
           "cf": {k: (v + np.array(int(dv) if v.dtype.kind in "iu" else dv, dtype=v.dtype)) for k, v in ds["cf"].items()}}
    out["points"][:, 0] += dx
    return out


def pvtu_bytes(piece_names) -> bytes:
    s = '<?xml version="1.0"?>\n<VTKFile type="PUnstructuredGrid" version="1.0">\n  <PUnstructuredGrid GhostLevel="0">\n'
    s += ('    <PPointData>\n      <PDataArray Name="pscal" type="Float64"/>\n'
          '      <PDataArray Name="pvec" type="Float32" NumberOfComponents="3"/>\n    </PPointData>\n')
    s += ('    <PCellData>\n      <PDataArray Name="cid" type="Int32"/>\n      <PDataArray Name="cval" type="Float64"/>\n'
          '    </PCellData>\n    <PPoints>\n      <PDataArray type="Float64" NumberOfComponents="3"/>\n    </PPoints>\n')
    for p in piece_names:
        s += f'    <Piece Source="{p}"/>\n'
    s += "  </PUnstructuredGrid>\n</VTKFile>\n"
    return s.encode()


def pvd_bytes(step_names) -> bytes:
    s = '<?xml version="1.0"?>\n<VTKFile type="Collection" version="1.0">\n  <Collection>\n'
    for i, p in enumerate(step_names):
        s += f'    <DataSet timestep="{i}.5" group="" part="0" name="" file="{p}"/>\n'
    s += "  </Collection>\n</VTKFile>\n"
    return s.encode()


def csv_bytes(rng, last="float") -> bytes:
    """float / int / string columns; `last` selects the type of the last column (the cell a cut hits first)"""
    rows = 5
    t = [0.25 * i for i in range(rows)]
    x = [repr(rng.uniform(-3, 3) * 10 ** rng.randint(-6, 6)) for _ in range(rows)]
    k = [str(rng.randint(2, 99999)) for _ in range(rows)]
    s = ["s" + "".join(rng.choice("abcxyz") for _ in range(rng.randint(2, 5))) for _ in range(rows)]
    cols = {"float": [("time", t), ("kount", k), ("label", s), ("xval", x)],
            "int": [("time", t), ("xval", x), ("label", s), ("kount", k)],
            "str": [("time", t), ("xval", x), ("kount", k), ("label", s)],
            "ulp": [("time", t), ("kount", k), ("xval", x[:-1] + ["0.30000000000000004"])]}[last]
    out = ",".join(n for n, _ in cols) + "\n"
    for r in range(rows):
        out += ",".join(str(v[r]) for _, v in cols) + "\n"
    return out.encode()


# ------------------------------------------------------------------ reference parser (independent, minimal)

_TAG = re.compile(rb"<(/?)([A-Za-z_][A-Za-z0-9_]*)((?:\s+[A-Za-z_:][A-Za-z0-9_:.-]*\s*=\s*\"[^\"<]*\")*)\s*(/?)>")
_ATTR = re.compile(rb"([A-Za-z_:][A-Za-z0-9_:.-]*)\s*=\s*\"([^\"<]*)\"")


def ref_vtk_content(content: bytes):
    """logical content of a VTK XML file as far as it is *present* in `content`:
    every complete open tag with its attributes (in order) and every data array with its complete payload;
    the appendix only if it is terminated.  Closing tags of containers carry no information and are not
    required.  Returns None if a required piece is incomplete (a started element / array / appendix)."""
    pos = content.find(b"<VTKFile")
    if pos < 0:
        return None
    items = []
    app = content.find(b"<AppendedData", pos)
    xml_end = app if app >= 0 else len(content)
    i = pos
    open_array = None
    while True:
        lt = content.find(b"<", i, xml_end)
        if lt < 0:
            rest = content[i:xml_end]
            if open_array is not None:
                return None                       # array text without its end tag
            if rest.strip():
                return None                       # dangling text
            break
        m = _TAG.match(content, lt, xml_end)
        if m is None:
            if content.startswith(b"<?", lt) or content.startswith(b"<!--", lt):
                end = content.find(b"?>" if content.startswith(b"<?", lt) else b"-->", lt, xml_end)
                if end < 0:
                    return None
                i = end + 2
                continue
            return None                           # incomplete / malformed tag
        closing, name, attrs, selfclose = m.group(1), m.group(2), m.group(3), m.group(4)
        text = content[i:lt]
        if closing:
            if name == b"DataArray":
                if open_array is None:
                    return None
                items.append(("array", open_array, b" ".join(text.split())))
                open_array = None
            elif text.strip():
                return None
        else:
            if open_array is not None:
                return None
            a = tuple((k.decode(), v.decode().strip()) for k, v in _ATTR.findall(attrs))
            if name == b"DataArray" and not selfclose:
                open_array = a
            else:
                items.append(("open", name.decode(), a))
        i = m.end()
    if open_array is not None:
        return None
    appendix = None
    if app >= 0:
        m = _TAG.match(content, app)
        if m is None:
            return None
        us = content.find(b"_", m.end())
        end = content.find(b"</AppendedData>")
        if us < 0 or end < 0 or end < us:
            return None
        appendix = (tuple((k.decode(), v.decode()) for k, v in _ATTR.findall(m.group(3))), content[us + 1:end].strip())
    return items, appendix


def _csv_cell(tok: str):
    try:
        return ("num", float(tok)) if tok.strip() != "" and tok == tok.strip() else ("str", tok)
    except ValueError:
        return ("str", tok)


def ref_csv_content(content: bytes):
    try:
        text = content.decode("utf-8")
    except UnicodeDecodeError:
        return None
    lines = [ln for ln in text.split("\n") if ln != ""]
    if not lines:
        return None
    names = lines[0].split(",")
    rows = [[_csv_cell(t) for t in ln.split(",")] for ln in lines[1:]]
    return names, rows


EPS = 2.0 ** -52


def csv_compare(full, part):
    """'same' | 'tolerance' (differs only by float cells within the default tolerance eps) | 'lost'"""
    if part is None or full is None:
        return "lost"
    if full[0] != part[0] or len(full[1]) != len(part[1]):
        return "lost"
    verdict = "same"
    for ra, rb in zip(full[1], part[1]):
        if len(ra) != len(rb):
            return "lost"
        for a, b in zip(ra, rb):
            if a == b:
                continue
            if a[0] == "num" and b[0] == "num" and abs(a[1] - b[1]) <= max(abs(a[1]), abs(b[1])) * EPS:
                verdict = "tolerance"
                continue
            return "lost"
    return verdict


def classify_cut(kind: str, full: bytes, part: bytes) -> str:
    """'same' / 'tolerance' / 'lost' for one file"""
    if kind == "csv":
        return csv_compare(ref_csv_content(full), ref_csv_content(part))
    a, b = ref_vtk_content(full), ref_vtk_content(part)
    if a is None:
        raise ValueError("reference parser cannot read the complete file")
    return "same" if a == b else "lost"


# ------------------------------------------------------------------ faults

def appended_block_offsets(content: bytes) -> set[int]:
    """byte offsets of the boundaries of the array blocks inside an <AppendedData> section: begin of every block,
    end of its length header (UInt32 / UInt64; for base64 the 8 / 12 / 16 characters a header can take) and one
    byte to either side.  Cuts right behind a length header are the ones a reader that tolerates a missing tail
    would take for an empty array."""
    app = content.find(b"<AppendedData")
    if app < 0:
        return set()
    gt = content.find(b">", app)
    us = content.find(b"_", gt + 1) if gt >= 0 else -1
    if us < 0:
        return set()
    start = us + 1
    m = re.search(rb'header_type="(UInt32|UInt64)"', content[:app])
    hb = 8 if (m and m.group(1) == b"UInt64") else 4
    out = set()
    for m in re.finditer(rb'offset="\s*(\d+)\s*"', content[:app]):
        o = start + int(m.group(1))
        for d in (0, hb, 3 * hb, 8, 12, 16, 24, 32):
            for e in (-1, 0, 1):
                if 0 <= o + d + e <= len(content):
                    out.add(o + d + e)
    return out


def structural_offsets(content: bytes) -> set[int]:
    out = {0, len(content)} | appended_block_offsets(content)
    for m in re.finditer(rb"[<>_\n,]", content):
        out.add(m.start())
        out.add(m.start() + 1)
    for k in range(max(0, len(content) - 48), len(content) + 1):
        out.add(k)
    for pat in (b"<AppendedData", b"</AppendedData>", b"</VTKFile>", b"</DataArray>"):
        j = content.find(pat)
        while j >= 0:
            for d in range(-2, len(pat) + 3):
                if 0 <= j + d <= len(content):
                    out.add(j + d)
            j = content.find(pat, j + 1)
    return out


def cut_offsets(content: bytes, thorough: bool, stride: int = 7, phase: int = 0) -> list[int]:
    """proper prefixes only: offsets 0 … len-1"""
    n = len(content)
    if thorough:
        return list(range(n))
    offs = set(range(phase % stride, n, stride)) | structural_offsets(content)
    return sorted(o for o in offs if 0 <= o < n)


_ARRAY_ELEM = re.compile(rb"[ \t]*<DataArray\b[^>]*?(?:/>|>.*?</DataArray>)[ \t]*\n?", re.S)


def array_removals(content: bytes):
    """(label, damaged content) for every single <DataArray> element removed (inline and appended formats;
    for appended formats the element is removed, the appendix keeps its bytes)"""
    xml_end = content.find(b"<AppendedData")
    xml_end = xml_end if xml_end >= 0 else len(content)
    out = []
    for m in _ARRAY_ELEM.finditer(content, 0, xml_end):
        if in_unused_section(content, m.start()):
            continue
        nm = re.search(rb'Name="([^"]*)"', m.group(0))
        out.append(((nm.group(1).decode() if nm else "?") + f"@{m.start()}", content[:m.start()] + content[m.end():]))
    return out


def in_unused_section(content: bytes, pos: int) -> bool:
    """is `pos` inside a <Verts> / <Lines> / <Strips> / <Polys> section of poly data whose piece declares zero such
    cells?  VTK writes the (empty) connectivity / offsets arrays of unused sections; they hold no data and no reader
    looks at them, so removing one of them is not a data-losing fault."""
    best = None
    for tag in (b"Verts", b"Lines", b"Strips", b"Polys"):
        o = content.rfind(b"<" + tag + b">", 0, pos)
        if o >= 0 and content.find(b"</" + tag + b">", o, pos) < 0 and (best is None or o > best[0]):
            best = (o, tag)
    if best is None:
        return False
    m = re.search(rb'NumberOf' + best[1] + rb'="\s*(\d+)\s*"', content[:pos])
    return m is not None and int(m.group(1)) == 0


def line_removals(content: bytes, pattern: bytes):
    """remove one line containing `pattern` (a <Piece Source=…/> or <DataSet …/> element)"""
    lines = content.split(b"\n")
    out = []
    for i, ln in enumerate(lines):
        if pattern in ln:
            out.append((f"line{i}", b"\n".join(lines[:i] + lines[i + 1:])))
    return out


def csv_column_removals(content: bytes):
    lines = content.decode().split("\n")
    ncol = len(lines[0].split(","))
    out = []
    for c in range(ncol):
        out.append((f"col{c}", "\n".join(",".join(t for j, t in enumerate(ln.split(",")) if j != c) if ln else ln
                                         for ln in lines).encode()))
    return out


_ARRAY_TEXT = re.compile(rb"(<DataArray\b[^>]*[^/]>)(\s*)(.*?)(\s*</DataArray>)", re.S)


def array_shortenings(content: bytes):
    """(label, damaged content): the XML stays well-formed, one inline data array loses its tail
    (ascii: the last number; base64: the last four characters) - the payload is shorter than declared"""
    out = []
    for m in _ARRAY_TEXT.finditer(content):
        text = m.group(3)
        if not text:
            continue
        if b'format="ascii"' in m.group(1):
            short = text.rsplit(b" ", 1)[0] if b" " in text else b""
        elif b'format="binary"' in m.group(1):
            short = text[:-4]
        else:
            continue
        nm = re.search(rb'Name="([^"]*)"', m.group(1))
        out.append(((nm.group(1).decode() if nm else "?") + f"@{m.start()}",
                    content[:m.start(3)] + short + content[m.end(3):]))
    return out


# ------------------------------------------------------------------ XmlLite: the document protocol of the driver

_XL_TAG = re.compile(rb"<(/?)([A-Za-z_][A-Za-z0-9_.:-]*)((?: [A-Za-z_][A-Za-z0-9_.:-]*=\"[^\"<&]*\")*)(/?)>")
_XL_ATTR = re.compile(rb" ([A-Za-z_][A-Za-z0-9_.:-]*)=\"([^\"<&]*)\"")


def _hx(b: bytes) -> str:
    return b.hex() or "-"


def _xl_attrs(raw: bytes) -> str:
    kv = _XL_ATTR.findall(raw)
    return " ".join([str(len(kv))] + [f"{_hx(k)} {_hx(v)}" for k, v in kv])


def xmllite_doc_line(content: bytes):
    """`c18ser …` line describing `content` as an XmlLite document (declaration, blanks, ONE root element with
    start / end / empty-element tags, double-quoted attributes ` k="v"`, text), or None if `content` is not of that
    restricted shape.  The driver serializes the document again; only if that reproduces `content` byte by byte
    the prefix theorem speaks about this file."""
    i, decl = 0, "none"
    if content.startswith(b"<?"):
        e = content.find(b"?>")
        if e < 0 or b"?" in content[2:e]:
            return None
        decl, i = _hx(content[2:e]), e + 2
    j = i
    while j < len(content) and content[j] in b" \n\t\r":
        j += 1
    ws1 = content[i:j]
    m = _XL_TAG.match(content, j)
    if m is None or m.group(1):
        return None
    name, attrs = m.group(2), _xl_attrs(m.group(3))
    pos = m.end()
    if m.group(4):
        body = "0"
    else:
        toks, depth = [], 1
        while depth > 0:
            lt = content.find(b"<", pos)
            if lt < 0:
                return None
            text = content[pos:lt]
            if b"&" in text:
                return None
            if text:
                toks.append(f"T {_hx(text)}")
            m = _XL_TAG.match(content, lt)
            if m is None:
                return None
            if m.group(1):
                if m.group(3) or m.group(4):
                    return None
                depth -= 1
                if depth > 0:
                    toks.append("C")
                elif m.group(2) != name:
                    return None
            elif m.group(4):
                toks.append(f"E {_hx(m.group(2))} {_xl_attrs(m.group(3))}")
            else:
                toks.append(f"O {_hx(m.group(2))} {_xl_attrs(m.group(3))}")
                depth += 1
            pos = m.end()
        body = " ".join(["1", str(len(toks))] + toks)
    ws2 = content[pos:]
    if ws2.strip(b" \n\t\r"):
        return None
    return f"c18ser {decl} {_hx(ws1)} {_hx(name)} {attrs} {body} {_hx(ws2)}"


def ascii_clean(data: bytes) -> bool:
    """printable ASCII and blanks only (the alphabet on which expat and XmlLite are compared)"""
    return all(b in (9, 10, 13) or 32 <= b < 127 for b in data)
