"""Phase 6 / package G1 (sub-worker "cli") — C04 generator extensions: dimensions of the quantifier "all pairs of files ... and
all combinations of the ... options" that `fcv.cli_scen` samples at one point only.

* presentation of ONE scenario on the command line (`sc["p6"]`, honoured by `run_file_scenario` below): `--verbosity N`,
  `--diff`, long option names, `opt=value`, options before / between / after the two positionals, option groups in a
  different order (order of the values of one option kept: "last wins" / "first match" are semantics), relative paths
  with the cwd in the parent / in the result directory, the same path as both arguments;
* a fresh process per invocation (`run_subprocess`: exactly what the console script does, `sys.exit(main())`);
* result / reference swapped (`swap_roles`): the relabeled / perturbed / retyped / shorter side is the REFERENCE;
* sizes (0, 1, ... > 1000 rows, many columns) with the deviation in the first / middle / last row (`size_scenarios`);
* `value*max` with the maximum on one side only, positive / negative (`maxside_scenarios`);
* every combination of the two --ignore-missing-*-fields flags x fields missing on neither / either / both sides x a
  failing / passing common field, names with spaces / non-ASCII letters (`ignore_matrix_scenarios`);
* the three mesh flags on meshes that NEED them (`meshflag_cases`): unconnected points on one side only (needs orphan
  removal, hence reordering), a relabeled mesh (needs reordering), a 2-d mesh against its 3-d embedding written as
  `.xdmf` through meshio (needs space-dimension matching) — search with an expectation computed here (the Lean scenario has
  no orphan points / space dimensions), every flag combination, so that each flag has its own signature.

Everything except `meshflag_cases`, `run_subprocess` and the unwritable-report runs produces ordinary `cli_scen` scenarios and
goes through C04's `evaluate` (Lean model + spec + python oracle)."""
from __future__ import annotations
import copy
import math
import os
import random
import subprocess
import sys

import numpy as np

from . import cli_scen as cs
from . import meshgen

VALUED = {"-rtol", "-atol", "--include-fields", "--exclude-fields", "--read-as", "--junit-xml", "--verbosity"}
LONG = {"-rtol": "--relative-tolerance", "-atol": "--absolute-tolerance"}
OFF_ENV = "FCV_P6G_OFF"        # set to 1: C04 skips all phase-6 G1c batches (used for the before/after mutant experiments)


PVD_CWD_ENV = "FCV_P6G_PVDCWD"  # set to 1: also run .pvd sequences with the cwd INSIDE the result directory (fails on the clean tree)


def pvd_cwd_optin() -> bool:
    return os.environ.get(PVD_CWD_ENV, "1") not in ("", "0")


def disabled() -> bool:
    return os.environ.get(OFF_ENV, "") not in ("", "0")


# ---------------------------------------------------------------- presentation of a scenario on the command line

def _groups(tokens):
    out, i = [], 0
    while i < len(tokens):
        if tokens[i] in VALUED:
            out.append([tokens[i], tokens[i + 1]])
            i += 2
        else:
            out.append([tokens[i]])
            i += 1
    return out


def _reorder(groups, seed):
    """permute the option groups; groups of the same option keep their relative order"""
    rng = random.Random(seed)
    sh = list(groups)
    rng.shuffle(sh)
    queues = {}
    for g in groups:
        queues.setdefault(g[0], []).append(g)
    return [queues[g[0]].pop(0) for g in sh]


def build_argv(sc, res, ref, jp=None):
    p6 = sc.get("p6") or {}
    groups = _groups(cs.option_argv(sc))
    if jp is not None:
        groups.append(["--junit-xml", jp])
    if p6.get("verbosity") is not None:
        groups.append(["--verbosity", str(p6["verbosity"])])
    if p6.get("diff"):
        groups.append([p6["diff"]])
    if p6.get("perm") is not None:
        groups = _reorder(groups, p6["perm"])
    toks = []
    for g in groups:
        name = LONG.get(g[0], g[0]) if p6.get("long") else g[0]
        if len(g) == 2 and p6.get("eq"):
            toks.append([name + "=" + g[1]])
        else:
            toks.append([name] + g[1:])
    lay = p6.get("layout", "std")
    flat = lambda gs: [t for g in gs for t in g]  # noqa: E731
    if lay == "opts-first":
        return ["file"] + flat(toks) + [res, ref]
    if lay == "split":
        return ["file", res] + flat(toks) + [ref]
    if lay == "mid":
        k = len(toks) // 2
        return ["file"] + flat(toks[:k]) + [res] + flat(toks[k:]) + [ref]
    return ["file", res, ref] + flat(toks)


def _paths(sc, d, res, ref):
    """-> (cwd | None, res, ref) as handed to the CLI"""
    mode = (sc.get("p6") or {}).get("paths", "abs")
    if mode == "same":
        return None, res, res
    if mode == "rel-parent":
        return d, os.path.relpath(res, d), os.path.relpath(ref, d)
    if mode == "rel-resdir":
        rd = os.path.join(d, "r")
        return rd, os.path.relpath(res, rd), os.path.relpath(ref, rd)
    return None, res, ref


def run_file_scenario(sc, wd, junit=True, check_read=True) -> dict:
    """`cli_scen.run_file_scenario` with the presentation variant `sc["p6"]`"""
    d = wd.fresh()
    old = os.getcwd()
    try:
        res, ref = cs.materialise(sc, d)
        readok = cs.read_check(sc, res, ref) if check_read else True
        if check_read and not readok and (sc.get("p6") or {}).get("empty_ok"):
            readok = _empty_check(sc, res, ref)
        jp = os.path.join(d, "report.xml") if junit else None
        cwd, a, b = _paths(sc, d, res, ref)
        argv = build_argv(sc, a, b, jp)
        if cwd is not None:
            os.chdir(cwd)
        if (sc.get("p6") or {}).get("subprocess"):
            out, rep = run_subprocess(argv, cwd), None
        else:
            out, rep = cs.run_cli(argv, jp)
        return {"out": out, "rep": rep, "parts": cs.path_parts(a), "readok": readok, "argv": argv}
    finally:
        os.chdir(old)
        wd.drop(d)


def _empty_check(sc, res, ref) -> bool:
    """side-check for header-only tables: names as written, every column empty (an empty column has no dtype to speak of)"""
    for path, data in ((res, sc["res"]), (ref, sc["ref"])):
        if data["rows"] != 0:
            if not cs.read_check(dict(sc, res=data, ref=data), path, path):
                return False
            continue
        try:
            back = cs._read_like_cli(sc, path)
        except Exception:  # noqa: BLE001
            return False
        got = [(f.name, np.asarray(f.values).shape) for f in back]
        if [g[0] for g in got] != [c["name"] for c in data["cols"]] or any(sh != (0,) for _, sh in got):
            return False
    return True


WRAPPER = "import sys; from fieldcompare._cli import main; sys.exit(main())"     # = the generated console script


def run_subprocess(argv, cwd=None) -> int:
    """process exit status of `fieldcompare <argv>` in a fresh interpreter (C locale, dumb terminal)"""
    from .core import REPO
    env = dict(os.environ, PYTHONPATH=REPO, LC_ALL="C", LANG="C", TERM="dumb", PYTHONWARNINGS="ignore")
    env.pop("PYTHONHASHSEED", None)
    r = subprocess.run([sys.executable, "-c", WRAPPER] + list(argv), cwd=cwd, env=env, stdout=subprocess.DEVNULL,
                       stderr=subprocess.DEVNULL, timeout=120)
    return r.returncode


def gen_presentation(rng):
    p6 = {}
    r = rng.random()
    if r < 0.55:
        p6["verbosity"] = rng.choice([0, 0, 1, 2, 3, 3, -1, 7])
    if rng.random() < 0.3:
        p6["diff"] = rng.choice(["-d", "--diff"])
    if rng.random() < 0.4:
        p6["long"] = True
    if rng.random() < 0.3:
        p6["eq"] = True
    if rng.random() < 0.5:
        p6["perm"] = rng.randrange(1 << 30)
    p6["layout"] = rng.choice(["std", "opts-first", "split", "mid"])
    p6["paths"] = rng.choice(["abs", "abs", "rel-parent", "rel-resdir"])
    return p6


def _eq_safe(sc) -> bool:
    """`opt=value` and reordering are only used where argparse cannot misread a value as an option"""
    vals = (sc["rtol"] or []) + (sc["atol"] or []) + (sc["incl"] or []) + (sc["excl"] or []) + (sc.get("read_as") or [])
    return not any(v.startswith("-") for v in vals)


def presentation_scenarios(rng, k):
    """random scenarios of every kind, each under a random presentation"""
    out = []
    while len(out) < k:
        sc, tags = cs.gen_scenario(rng)
        if not _eq_safe(sc):
            continue
        sc["p6"] = gen_presentation(rng)
        if "seq" in (sc["res"]["kind"], sc["ref"]["kind"]) and sc["p6"]["paths"] == "rel-resdir" and not pvd_cwd_optin():
            # suspected genuine defect (notes/PHASE6_G1c.md, "PVD step files are looked up in the cwd first"): a .pvd whose
            # step files have namesakes in the cwd is read from the cwd.  Not a known-finding class -> opt-in only
            sc["p6"]["paths"] = "rel-parent"
        out.append((sc, list(tags) + ["p6-presentation"] + _ptags(sc["p6"])))
    return out


def _ptags(p6):
    t = []
    if p6.get("verbosity") is not None:
        t.append("p6-verbosity-%s" % p6["verbosity"])
    if p6.get("diff"):
        t.append("p6-diff")
    if p6.get("long"):
        t.append("p6-long-names")
    if p6.get("eq"):
        t.append("p6-opt=value")
    if p6.get("perm") is not None:
        t.append("p6-options-permuted")
    if p6.get("layout", "std") != "std":
        t.append("p6-layout-" + p6["layout"])
    if p6.get("paths", "abs") != "abs":
        t.append("p6-paths-" + p6["paths"])
    if p6.get("subprocess"):
        t.append("p6-subprocess")
    return t


def verbosity_sweep(rng, nbase):
    """the same scenario at every verbosity level (quiet levels take other code paths in the comparison callback)"""
    out = []
    for _ in range(nbase):
        sc, tags = (cs.gen_csv_scenario if rng.random() < 0.6 else cs.gen_mesh_scenario)(rng)
        for v in (-1, 0, 1, 2, 3, 7):
            s2 = copy.deepcopy(sc)
            s2["p6"] = {"verbosity": v}
            out.append((s2, list(tags) + ["p6-verbosity-sweep", "p6-verbosity-%s" % v]))
    return out


def samefile_scenarios(rng, k):
    """RESULT and REFERENCE are the same path (readable: must pass whatever the options; unreadable: must fail)"""
    out = []
    while len(out) < k:
        sc, tags = (cs.gen_csv_scenario if rng.random() < 0.6 else cs.gen_mesh_scenario)(rng)
        if sc.get("ext") or any(d == "unsupported" for d in sc["damage"]):
            continue
        sc["ref"] = copy.deepcopy(sc["res"])
        for key in ("topo_same", "moved", "storage_same"):
            if key in sc["res"]:
                sc["res"][key] = {"topo_same": True, "moved": None, "storage_same": True}[key]
        dmg = rng.choice([None, None, "missing", "garbage"])
        if dmg == "garbage" and sc["read_as"]:
            dmg = "missing"
        sc["damage"] = [dmg, dmg]
        sc["p6"] = {"paths": "same", "verbosity": rng.choice([None, 0, 3])}
        out.append((sc, [tags[0], "p6-same-file", "p6-same-file-" + str(dmg)]))
    return out


# ---------------------------------------------------------------- roles

def swap_roles(sc):
    """the same two files with the roles exchanged (pair-level facts stay with the pair)"""
    s = copy.deepcopy(sc)
    res, ref = s["res"], s["ref"]
    if res["kind"] == "seq" or ref["kind"] == "seq" or res["kind"] != ref["kind"]:
        s["res"], s["ref"] = ref, res
    else:
        meta = {k: res.pop(k) for k in ("topo_same", "moved") if k in res}
        same = res.get("storage_same", True) and ref.get("storage_same", True)
        ref.update(meta)
        if res["kind"] == "mesh":
            ref["storage_same"] = same
        s["res"], s["ref"] = ref, res
    s["damage"] = [s["damage"][1], s["damage"][0]]
    return s


def swap_scenarios(rng, k):
    out = []
    while len(out) < k:
        sc, tags = (cs.gen_csv_scenario if rng.random() < 0.5 else cs.gen_mesh_scenario)(rng)
        out.append((swap_roles(sc), list(tags) + ["p6-role-swapped"]))
    return out


# ---------------------------------------------------------------- sizes

def _table_sc(res, ref, rtol=None, atol=None, flags=None, incl=None, excl=None):
    return {"kind": "csv", "rtol": rtol, "atol": atol, "flags": flags or {"ign_src": False, "ign_ref": False},
            "incl": incl, "excl": excl, "read_as": [cs.DSV_READER], "damage": [None, None], "res": res, "ref": ref}


def size_scenarios(rng, sizes, per_size=2, lean_max=100):
    """tables with 0 ... > 1000 rows; one deviation (float: above / below a global relative tolerance; integer: +1 under a
    loose global tolerance) in the first / middle / last row; one wide table (many fields, deviation in the last one)"""
    out = []
    for rows in sizes:
        for rep_i in range(per_size):
            cols = [{"name": n, "dt": "f64", "v": [cs._rand_float(rng) for _ in range(rows)]} for n in ("x", "p0", "T")]
            if rows > 0:
                cols.append({"name": "id", "dt": "i64", "v": [rng.randint(-1000, 10 ** 6) for _ in range(rows)]})
            ref = {"kind": "table", "rows": rows, "cols": cols}
            res = copy.deepcopy(ref)
            sc = _table_sc(res, ref, rtol=[rng.choice(["1e-6", "1e-3"])], atol=rng.choice([None, ["0"]]))
            tags = ["csv", "p6-size", "p6-rows-%d" % rows if rows < 1000 else "p6-rows-ge1000"]
            if rows == 0:
                # a header-only table: the reader gives empty columns (of whatever dtype); the relaxed side-check accepts that
                sc["p6"] = {"empty_ok": True}
                if rep_i == 1:
                    ref["rows"] = 1
                    for c in ref["cols"]:
                        c["v"] = [cs._rand_float(rng)]
                    tags.append("p6-rows-0-vs-1")
            if rows > lean_max:
                tags.append("p6-nolean")
            if rows:
                pos = rng.choice(["first", "middle", "last", "last"])
                how = rng.choice(["above", "below", "int"])
                if rows >= 1000 and rep_i < 2:
                    # every long table has a failing float deviation and a failing integer deviation in its tail
                    pos, how = rng.choice(["last", "last", "middle"]), ("above", "int")[rep_i]
                i = {"first": 0, "middle": rows // 2, "last": rows - 1}[pos]
                if how == "int":
                    res["cols"][3]["v"][i] += 1
                    sc["rtol"] = ["0.5"]
                else:
                    c = res["cols"][rng.randrange(3)]
                    rel = float(sc["rtol"][0])
                    c["v"][i] = c["v"][i] * (1.0 + rel * (4.0 if how == "above" else 0.25))
                tags += ["p6-dev-" + pos, "p6-dev-" + how]
            out.append((sc, tags))
    # many fields
    for ncols in (40,):
        rows = 3
        cols = [{"name": "f%d" % j, "dt": "f64", "v": [cs._rand_float(rng) for _ in range(rows)]} for j in range(ncols)]
        ref = {"kind": "table", "rows": rows, "cols": cols}
        for j in (0, ncols - 1):
            res = copy.deepcopy(ref)
            res["cols"][j]["v"][rows - 1] *= 1.0 + 4e-6
            out.append((_table_sc(res, copy.deepcopy(ref), rtol=["1e-6"]), ["csv", "p6-size", "p6-many-fields"]))
    return out


# ---------------------------------------------------------------- value*max: which side carries the maximum

def maxside_scenarios(rng, rounds=1):
    """`-atol [q:]0.5*max` on a column whose largest magnitude (100) occurs on ONE side only, in the one row that deviates
    (other side: 60 -> |d| = 40 <= 0.5*100 must pass; 45 -> |d| = 55 > 50 must fail), both signs, either side"""
    out = []
    for _ in range(rounds):
        for side in ("res", "ref"):
            for sign in (1.0, -1.0):
                for other, verdict in ((60.0, "pass"), (45.0, "fail")):
                    rows = rng.choice([3, 4, 6])
                    q = [cs._rand_float(rng) for _ in range(rows)]
                    x = [cs._rand_float(rng) for _ in range(rows)]
                    ref = {"kind": "table", "rows": rows, "cols": [{"name": "x", "dt": "f64", "v": x},
                                                                   {"name": "q", "dt": "f64", "v": q}]}
                    res = copy.deepcopy(ref)
                    i = rng.randrange(rows)
                    big, small = sign * 100.0, sign * other
                    res["cols"][1]["v"][i], ref["cols"][1]["v"][i] = (big, small) if side == "res" else (small, big)
                    atol = rng.choice([["0.5*max"], ["q:0.5*max"], ["1e-9", "q:0.5*max"], ["q:0.5*max", "1e-9"]])
                    sc = _table_sc(res, ref, rtol=rng.choice([None, ["0"], ["1e-12"]]), atol=atol)
                    out.append((sc, ["csv", "p6-maxside", "p6-max-on-" + side, "p6-max-" + ("neg" if sign < 0 else "pos"),
                                     "p6-maxside-" + verdict]))
    return out


# ---------------------------------------------------------------- ignore flags x missing sides

ODD_NAMES = ["extra", "Tü", "Δp", "α", "p0_old", "T_ü"]      # (the dsv reader rewrites names with spaces / punctuation)


def ignore_matrix_scenarios(rng, nbase=1):
    """for one table: {no field missing, one only in the result, one only in the reference, one on each side} x
    {common fields agree, one common field fails} x all four flag combinations (+ the failing field excluded)"""
    out = []
    for _ in range(nbase):
        rows = rng.choice([2, 3, 5])
        base = [{"name": n, "dt": "f64", "v": [cs._rand_float(rng) for _ in range(rows)]} for n in ("x", "y")]
        n_res, n_ref = rng.sample(ODD_NAMES, 2)
        for miss in ("none", "only-in-res", "only-in-ref", "both-sides"):
            for fails in (False, True):
                for excl in (None, ["y"]):
                    if excl and not fails:
                        continue
                    for a in (False, True):
                        for b in (False, True):
                            ref = {"kind": "table", "rows": rows, "cols": copy.deepcopy(base)}
                            res = copy.deepcopy(ref)
                            if fails:
                                res["cols"][1]["v"][rng.randrange(rows)] *= 1.5
                            if miss in ("only-in-res", "both-sides"):
                                res["cols"].append({"name": n_res, "dt": "f64",
                                                    "v": [cs._rand_float(rng) for _ in range(rows)]})
                            if miss in ("only-in-ref", "both-sides"):
                                ref["cols"].insert(rng.randrange(3), {"name": n_ref, "dt": rng.choice(["f64", "i64"]),
                                                                      "v": [float(j) for j in range(rows)]})
                                if ref["cols"][[c["name"] for c in ref["cols"]].index(n_ref)]["dt"] == "i64":
                                    c = ref["cols"][[c["name"] for c in ref["cols"]].index(n_ref)]
                                    c["v"] = [int(v) for v in c["v"]]
                            sc = _table_sc(res, ref, flags={"ign_src": a, "ign_ref": b}, excl=excl,
                                           rtol=rng.choice([None, ["1e-9"], [n_res + ":0.9"] if ":" not in n_res else None]))
                            out.append((sc, ["csv", "p6-ignore-matrix", "p6-missing-" + miss,
                                             "p6-ign-%d%d" % (a, b)] + (["p6-common-fails"] if fails else []) +
                                        (["p6-failing-excluded"] if excl else [])))
    return out


# ---------------------------------------------------------------- mesh flags on meshes that need them (search)

MESHIO_NAMES = {"LINE": "line", "TRIANGLE": "triangle", "QUAD": "quad"}
MFLAGS = (("dis_reorder", "--disable-mesh-reordering"), ("dis_orphan", "--disable-mesh-orphan-point-removal"),
          ("dis_spacedim", "--disable-mesh-space-dimension-matching"))


def write_xdmf(lm, path):
    """logical mesh with `dim` in (2, 3) -> XDMF (inline XML data) through meshio: keeps 2-d points 2-d"""
    import meshio
    n = len(lm["points"])
    pts = np.array(lm["points"], dtype=np.float64).reshape(n, lm["dim"])
    cells = [(MESHIO_NAMES[t], np.array(rows, dtype=np.int64)) for t, rows in lm["cells"]]
    pd = {f["name"]: np.array(f["v"], dtype=np.float64).reshape([n] + list(f["tail"])) for f in lm["pf"]}
    cd = {}
    for f in lm["cf"]:
        cd.setdefault(f["name"], {})[f["ctype"]] = np.array(f["v"], dtype=np.float64)
    cdl = {name: [per[t] for t, _ in lm["cells"]] for name, per in cd.items()}
    meshio.Mesh(pts, cells, point_data=pd, cell_data=cdl).write(path, data_format="XML")


def _embed3(lm):
    """the same mesh embedded in 3-d (z = 0), vector fields padded with a zero component"""
    out = copy.deepcopy(lm)
    out["dim"] = 3
    out["points"] = [list(p) + [0.0] for p in lm["points"]]
    for f in out["pf"]:
        if f["tail"] == [2]:
            v = f["v"]
            f["v"] = [c for i in range(len(v) // 2) for c in (v[2 * i], v[2 * i + 1], 0.0)]
            f["tail"] = [3]
    return out


def _grid2(rng):
    nx, ny = rng.choice([1, 2, 3]), rng.choice([1, 2])
    h = rng.choice([1.0, 0.5, 20.0])
    pts = [[h * i, h * j * 1.25] for j in range(ny + 1) for i in range(nx + 1)]
    idx = lambda i, j: j * (nx + 1) + i  # noqa: E731
    quads = rng.random() < 0.5
    rows = []
    for j in range(ny):
        for i in range(nx):
            q = [idx(i, j), idx(i + 1, j), idx(i + 1, j + 1), idx(i, j + 1)]
            rows += [q] if quads else [[q[0], q[1], q[2]], [q[0], q[2], q[3]]]
    t = "QUAD" if quads else "TRIANGLE"
    n = len(pts)
    lm = {"dim": 2, "points": pts, "cells": [[t, rows]],
          "pf": [{"name": "T", "dt": "f64", "tail": [], "v": [cs._rand_float(rng) for _ in range(n)]},
                 {"name": "vel", "dt": "f64", "tail": [2], "v": [cs._rand_float(rng) for _ in range(2 * n)]}],
          "cf": [{"name": "k", "ctype": t, "dt": "f64", "tail": [], "v": [cs._rand_float(rng) for _ in range(len(rows))]}]}
    return lm


def _connected(lm):
    return sorted({i for _, rows in lm["cells"] for r in rows for i in r})


def _gross(rng, lm):
    """gross deviation of a float point field at a CONNECTED point (in place)"""
    fs = [f for f in lm["pf"] if f["dt"] in ("f64", "f32")]
    if not fs:
        return False
    f = rng.choice(fs)
    rs = 1
    for s in f["tail"]:
        rs *= s
    i = rng.choice(_connected(lm)) * rs
    f["v"][i] = f["v"][i] * 3.0 + 1.0
    return True


def meshflag_cases(rng, nbase):
    """-> list of self-contained cases {"kind": "p6-meshflags", "fmt", "variant", "res", "ref" (stored logical meshes),
    "mflags", "gross", "want", "why"}"""
    out = []
    for _ in range(nbase):
        lm, _mt = cs.gen_logical_mesh(rng)
        n = len(lm["points"])
        ident = list(range(n))
        rot = ident[1:] + ident[:1]
        variants = []
        plain = meshgen.relabel(rng, lm, point_perm=ident, shuffle_blocks=False)
        variants.append(("ident", "vtu", copy.deepcopy(plain), copy.deepcopy(plain)))
        variants.append(("relabel", "vtu", meshgen.relabel(rng, lm, point_perm=rot), copy.deepcopy(plain)))
        variants.append(("relabel-ref", "vtu", copy.deepcopy(plain), meshgen.relabel(rng, lm, point_perm=rot)))
        variants.append(("orphan-res", "vtu", meshgen.relabel(rng, lm, point_perm=ident, shuffle_blocks=False,
                                                              extra_orphans=rng.choice([1, 2])), copy.deepcopy(plain)))
        variants.append(("orphan-ref", "vtu", copy.deepcopy(plain),
                         meshgen.relabel(rng, lm, point_perm=rng.choice([ident, rot]), extra_orphans=1)))
        variants.append(("orphan-diff", "vtu", meshgen.relabel(rng, lm, point_perm=ident, extra_orphans=1),
                         meshgen.relabel(rng, lm, point_perm=ident, extra_orphans=1)))
        g2 = _grid2(rng)
        variants.append(("dim23", "xdmf", copy.deepcopy(g2), _embed3(g2)))
        variants.append(("dim32", "xdmf", _embed3(g2), copy.deepcopy(g2)))
        variants.append(("dim22", "xdmf", copy.deepcopy(g2), copy.deepcopy(g2)))
        for name, fmt, res, ref in variants:
            for gross in (False, True):
                if gross and rng.random() < 0.5:
                    continue
                r2 = copy.deepcopy(res)
                if gross and not _gross(rng, r2):
                    continue
                for bits in range(8):
                    fl = {k: bool(bits >> j & 1) for j, (k, _) in enumerate(MFLAGS)}
                    c = {"kind": "p6-meshflags", "fmt": fmt, "variant": name, "res": r2, "ref": copy.deepcopy(ref),
                         "mflags": fl, "gross": gross}
                    c["want"], c["why"] = meshflag_want(c)
                    out.append(c)
    return out


def meshflag_want(c):
    """what C04 demands: ('0' | 'nz' | None, reason) — None where the statement + option help do not settle it"""
    f, v = c["mflags"], c["variant"]
    if v.startswith("dim") and v != "dim22" and f["dis_reorder"]:
        # (checked before `gross`: nothing is demanded of this combination at all)
        return (("nz", "a selected common field deviates grossly") if c["gross"] else
                (None, "2-d vs 3-d without reordering: not settled by the statement"))
    if c["gross"]:
        return "nz", "a selected common field deviates grossly at a connected point"
    if v in ("ident", "dim22"):
        return "0", "identical files: no mesh flag can make them differ"
    if v in ("relabel", "relabel-ref"):
        return (("nz", "differently ordered meshes and --disable-mesh-reordering") if f["dis_reorder"] else
                ("0", "the same mesh stored in another order; reordering enabled"))
    if v.startswith("orphan"):
        if f["dis_reorder"]:
            return "nz", "different point lists and --disable-mesh-reordering"
        if f["dis_orphan"]:
            return "nz", "unconnected points on one side only and --disable-mesh-orphan-point-removal"
        return "0", "meshes equal up to unconnected points; orphan removal + reordering enabled"
    if v in ("dim23", "dim32"):
        return (("nz", "2-d vs 3-d points and --disable-mesh-space-dimension-matching") if f["dis_spacedim"] else
                ("0", "the same mesh in 2-d and embedded in 3-d (z = 0); space-dimension matching enabled"))
    return None, "?"


def meshflag_argv(c, res, ref):
    return ["file", res, ref] + [opt for k, opt in MFLAGS if c["mflags"].get(k)]


def run_meshflag_case(c, wd):
    d = wd.fresh()
    try:
        paths = []
        for side, lm in (("r", c["res"]), ("f", c["ref"])):
            sd = os.path.join(d, side)
            os.makedirs(sd)
            if c["fmt"] == "vtu":
                cs.write_mesh(lm, os.path.join(sd, "data"))
                paths.append(os.path.join(sd, "data.vtu"))
            else:
                write_xdmf(lm, os.path.join(sd, "data.xdmf"))
                paths.append(os.path.join(sd, "data.xdmf"))
        out, _ = cs.run_cli(meshflag_argv(c, *paths))
        return out
    finally:
        wd.drop(d)


def meshflag_bad(c, out) -> bool:
    return c["want"] is not None and (cs.outcome_class(out) == "0") != (c["want"] == "0")


# ---------------------------------------------------------------- the SAME paths with new contents, one process

def gen_sequence(rng, n=4):
    """n decided CSV / mesh scenarios (python oracle '0' / 'nz' alternating where possible) to be run one after the other
    on the SAME two paths, rewritten in between: the exit code must follow the contents (no state keyed by file name,
    no verdict / tolerance / reader object surviving an invocation)"""
    kind = rng.choice(["csv", "csv", "mesh"])
    steps, want = [], rng.choice(["0", "nz"])
    tries = 0
    while len(steps) < n and tries < 400:
        tries += 1
        sc, _tags = (cs.gen_csv_scenario if kind == "csv" else cs.gen_mesh_scenario)(rng)
        if sc.get("ext") or sc["damage"] != [None, None] or cs._unknown_reader(sc):
            continue
        if cs.py_eval(sc)["exit"] != want:
            continue
        steps.append(sc)
        want = "nz" if want == "0" else "0"
    return {"kind": "p6-sequence", "fmt": kind, "steps": steps}


def run_sequence(seq, wd):
    """-> list of (outcome, expected, readok) per step; all steps use the directory (hence the paths) of the first"""
    import shutil
    d = wd.fresh()
    out = []
    try:
        for sc in seq["steps"]:
            for side in ("r", "f"):
                shutil.rmtree(os.path.join(d, side), ignore_errors=True)
            res, ref = cs.materialise(sc, d)
            readok = cs.read_check(sc, res, ref)
            o, _ = cs.run_cli(["file", res, ref] + cs.option_argv(sc))
            out.append((o, cs.py_eval(sc)["exit"], readok))
    finally:
        wd.drop(d)
    return out


def sequence_bad(results):
    """index of the first step whose exit code contradicts the oracle (None = all agree)"""
    for i, (o, want, readok) in enumerate(results):
        if readok and want is not None and (cs.outcome_class(o) == "0") != (want == "0"):
            return i
    return None
