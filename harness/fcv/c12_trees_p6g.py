"""C12, phase 6 package G: directed batches for dimensions of the quantifier ("all pairs of directory trees … all
combinations of include/exclude/ignore options"; "the same options"; "every regular file … at any depth") that the
random generator of harness/corr/c12.py samples at one point only.  See notes/PHASE6_G2_C12.md.

Every case is an ordinary C12 case `{files, opts}` (+ the optional keys `form`, `empty_dirs`, `prior`, `tags`
understood by `c12.observe`), so it is observed, handed to the Lean driver (`c12dir`), compared with the Python oracle,
shrunk and replayed exactly like the random cases.  `m` is the module harness/corr/c12.py (passed in to avoid a
circular import).

Batches (group tag in the evidence):
  p6g-forms        how the two directories are spelled (trailing slash, cwd-relative, ./, .., //) and how the trees relate
                   (side by side, identical, reference inside source, source inside reference); exit code also without
                   --junit-xml
  p6g-names        name structures: names that are prefixes of each other (run, run-2, run.old, 'run 2', run.csv), a name
                   that is a FILE in one tree and a DIRECTORY in the other, directories named like supported files,
                   upper-case extensions, the file '.csv', depth 8 with the same basename at every depth, empty directories
  p6g-many         150-400 files per tree, deviating / one-sided files at the first, 100th, 101st, last position
  p6g-passthrough  the pass-through options the random generator does not draw (-atol, --include-fields,
                   --disable-mesh-reordering, --disable-mesh-orphan-point-removal, --disable-mesh-space-dimension-matching,
                   --ignore-missing-sequence-steps, --force-sequence-comparison) with pairs whose outcome depends on them
                   (incl. .pvd sequences inside the trees)
  p6g-rerun        the SAME two paths compared again in the same process after the trees changed (files appeared,
                   vanished, changed content, changed from unsupported text to sniffed VTK)
"""
from __future__ import annotations
import itertools


# ------------------------------------------------------------------------------------------------ contents
def vtu(points, conn, offsets, types, pvals) -> str:
    n = len(points) // 3
    return ('<?xml version="1.0"?>\n<VTKFile type="UnstructuredGrid" version="0.1" byte_order="LittleEndian">\n'
            f'<UnstructuredGrid><Piece NumberOfPoints="{n}" NumberOfCells="{len(offsets)}">\n'
            f'<Points><DataArray type="Float64" NumberOfComponents="3" format="ascii">{" ".join(map(str, points))}</DataArray></Points>\n'
            f'<Cells><DataArray type="Int32" Name="connectivity" format="ascii">{" ".join(map(str, conn))}</DataArray>\n'
            f'<DataArray type="Int32" Name="offsets" format="ascii">{" ".join(map(str, offsets))}</DataArray>\n'
            f'<DataArray type="UInt8" Name="types" format="ascii">{" ".join(map(str, types))}</DataArray></Cells>\n'
            f'<PointData><DataArray type="Float64" Name="p" format="ascii">{" ".join(map(str, pvals))}</DataArray></PointData>\n'
            '<CellData></CellData>\n</Piece></UnstructuredGrid></VTKFile>\n')


# a triangle; the same triangle with its points listed in another order; the triangle + one unconnected point
VTU_TRI = vtu([0, 0, 0, 1, 0, 0, 0, 1, 0], [0, 1, 2], [3], [5], [1, 2, 3])
VTU_TRI_PERM = vtu([0, 1, 0, 0, 0, 0, 1, 0, 0], [1, 2, 0], [3], [5], [3, 1, 2])
VTU_TRI_ORPH = vtu([0, 1, 0, 0, 0, 0, 1, 0, 0, 5, 5, 0], [1, 2, 0], [3], [5], [3, 1, 2, 9])
VTU_TRI_ORPH2 = vtu([0, 0, 0, 1, 0, 0, 0, 1, 0, 5, 5, 0], [0, 1, 2], [3], [5], [1, 2, 3, 8])
CSV_ZERO = "x,y\n1.0,0.0\n3.0,4.0\n"
CSV_NEARZERO = "x,y\n1.0,0.00001\n3.0,4.0\n"


def pvd(names) -> str:
    return ('<?xml version="1.0"?>\n<VTKFile type="Collection" version="0.1">\n<Collection>\n'
            + "".join(f'<DataSet timestep="{i}" part="0" file="{f}"/>\n' for i, f in enumerate(names))
            + "</Collection>\n</VTKFile>\n")


def _opts(m, **kw):
    o = m.default_opts()
    o.update(kw)
    return o


# ------------------------------------------------------------------------------------------------ p6g-forms
SPELLINGS = ["abs", "slash", "rel", "relslash", "dot", "dotslash", "dotdot", "dbl"]
ABS_SPELLINGS = ["abs", "slash", "dotdot", "dbl"]


def _small_random_case(m, rng, max_files=9):
    while True:
        c = m.gen_case(rng)
        if len(c["files"]) <= max_files and not any(f[0].startswith("clash") for f in c["files"]):
            break
    # `--read-as` patterns are matched against the path as joined by the implementation (observation O1): keep only
    # patterns that do not depend on how the directory is spelled
    if any(not p.startswith("*") for p in m.read_as_patterns(c["opts"].get("read_as"))):
        c["opts"]["read_as"] = None
    return c


def gen_forms(m, rng, n):
    out = []
    relations = ["plain", "plain", "plain", "same", "b-in-a", "b-in-a", "a-in-b"]
    for k in range(n):
        c = _small_random_case(m, rng)
        relation = relations[k % len(relations)]
        files = c["files"]
        if relation == "same":        # one tree in both roles: every file is in both trees, with the same content
            files = [[rel, ca if ca is not None else cb, ca if ca is not None else cb] for rel, ca, cb in files]
        elif relation == "b-in-a":    # the reference tree is a sub-directory of the source tree: its files are source files too
            files = files + [[m.NEST_B + "/" + rel, cb, None] for rel, ca, cb in files if cb is not None]
        elif relation == "a-in-b":
            files = files + [[m.NEST_A + "/" + rel, None, ca] for rel, ca, cb in files if ca is not None]
        pool = ABS_SPELLINGS if relation == "a-in-b" else SPELLINGS   # (a relative source inside the reference makes
        form = {"relation": relation, "a": pool[k % len(pool)],       # two suites carry the same name: not decidable)
                "b": rng.choice(SPELLINGS), "nojunit": True}
        out.append(("p6g-forms", {"files": files, "opts": c["opts"], "form": form}))
    return out


# ------------------------------------------------------------------------------------------------ p6g-names
def name_families(m):
    E, D, T = (m.CSV_EQ, m.CSV_EQ), (m.CSV_EQ, m.CSV_DIFF), (m.TXT, m.TXT)
    A = lambda c: (c, None)      # noqa: E731
    B = lambda c: (None, c)      # noqa: E731
    deep = "d1/d2/d3/d4/d5/d6/d7"
    parts = deep.split("/")
    fam = {
        "prefix-dirs": ([["run/a.csv", *A(m.CSV_EQ)], ["run/b.csv", *E], ["run-2/b.csv", *D], ["run.old/c.csv", *E],
                         ["run 2/d.csv", *B(m.CSV_EQ)], ["run.csv", *D], ["run+/e.csv", *E], ["run/z/f.csv", *A(m.CSV_DIFF)]], []),
        "prefix-files": ([["a", *T], ["a.vtu", m.VTU_EQ, m.VTU_DIFF], ["a-b", *A(m.TXT)], ["ab/b.csv", *E],
                          ["a.vtu.csv", *E], ["a.v", *B(m.TXT)], ["a.vtu.bak", m.VTU_EQ, m.VTU_DIFF]], []),
        "file-vs-directory": ([["clash.csv", *A(m.CSV_EQ)], ["clash.csv/in.csv", *B(m.CSV_EQ)], ["d2/x", *B(m.TXT)],
                               ["d2/x/y.csv", *A(m.CSV_DIFF)], ["ok.csv", *E]], []),
        "dirs-named-like-files": ([["grid.vtu/part.csv", *D], ["table.csv/inner.csv", *E], ["table.csv/deep/t.txt", *T],
                                   ["seq.pvd/a.csv", *A(m.CSV_EQ)]], []),
        "uppercase-ext": ([["U.CSV", *D], ["M.VTU", m.VTU_EQ, m.VTU_DIFF], ["m.Vtu", m.VTU_EQ, m.VTU_EQ], ["same.csv", *E],
                           ["SAME.csv", *D], ["Same.Csv", *E], ["x.csv ", *D], ["v.2", *T]], []),
        "dot-names": ([[".csv", *D], ["sub/.csv", *E], ["..csv", *D], ["-x.csv", *D], ["--verbosity.csv", *E],
                       ["tab\there.csv", *D], ["名前/データ.csv", *D], ["a b .csv", *A(m.CSV_EQ)]], []),
        "deep-same-basename": ([["/".join(parts[:k] + ["leaf.csv"]), *(D if k == 7 else (E if k % 3 == 0 else
                                                                                     (A(m.CSV_EQ) if k % 3 == 1 else B(m.CSV_EQ))))]
                                for k in range(8)] + [[deep + "/d8/d9/other.txt", *T]], []),
        "empty-directories": ([["x.csv", *B(m.CSV_EQ)], ["s/a.csv", *D], ["s/e2/k.csv", *A(m.CSV_EQ)]],
                              [["A", "onlyA_empty"], ["B", "s/e"], ["A", "both_empty"], ["B", "both_empty"], ["A", "x.csv"],
                               ["B", "s/e2"], ["A", "e1/e2/e3"]]),
        "only-empty-directories": ([], [["A", "e"], ["B", "f/g"]]),
    }
    return fam


NAME_OPTS = [dict(), dict(ims=True, imr=True), dict(include=["*.csv"]), dict(exclude=["run*", "*leaf*", "*/*"]),
             dict(ims=True, include=["*/*"]), dict(imr=True, exclude=["*.csv"], read_as=["dsv:*.CSV", "dsv:*.csv "])]


def gen_names(m, rng, all_opts):
    out = []
    for k, (name, (files, empties)) in enumerate(sorted(name_families(m).items())):
        opts = NAME_OPTS if all_opts else [NAME_OPTS[0], NAME_OPTS[1 + (k % (len(NAME_OPTS) - 1))]]
        for o in opts:
            case = {"files": [list(f) for f in files], "opts": _opts(m, **o), "tags": ["names-" + name]}
            if empties:
                case["empty_dirs"] = [list(e) for e in empties]
            out.append(("p6g-names", case))
    return out


# ------------------------------------------------------------------------------------------------ p6g-many
def gen_many(m, rng, n_cases, sizes):
    out = []
    for k in range(n_cases):
        n = sizes[k % len(sizes)]
        files = []
        special = {0, 99, 100, n - 1, rng.randrange(n)}
        for i in range(n):
            rel = (f"m{i // 64}/" if k % 2 else "") + f"f{i:04d}.csv"
            if i in special:
                kind = (i + k) % 3
                ca, cb = [(m.CSV_EQ, m.CSV_DIFF), (m.CSV_EQ, None), (None, m.CSV_EQ)][kind]
            else:
                ca, cb = m.CSV_EQ, m.CSV_EQ
            files.append([rel, ca, cb])
        if k % 3 == 2:
            files = [f for f in files if f[1] is not None and f[2] is not None and f[1] == f[2]][: n - 3] + \
                    [[f"f{n + 5:04d}.csv", m.CSV_EQ, m.CSV_DIFF]]      # ONE differing pair, the last in name order
        o = [dict(), dict(ims=True, imr=True), dict(ims=True, imr=True)][k % 3]
        out.append(("p6g-many", {"files": files, "opts": _opts(m, **o)}))
    return out


# ------------------------------------------------------------------------------------------------ p6g-passthrough
def passthrough_tree(m):
    """one tree pair in which every pair's outcome depends on one of the pass-through options"""
    E = m.CSV_EQ
    files = [["k/eq.csv", E, E],
             ["atol.csv", CSV_ZERO, CSV_NEARZERO],                    # passes only with -atol 1e-3
             ["k/fields.csv", E, m.CSV_DIFF],                         # passes only with --include-fields x / --exclude-fields y
             ["perm.vtu", VTU_TRI, VTU_TRI_PERM],                     # fails only with --disable-mesh-reordering
             ["k/orph.vtu", VTU_TRI_ORPH2, VTU_TRI_ORPH],             # (outcome with --disable-mesh-orphan-point-removal is measured)
             ["seq/long.pvd", pvd(["p0.vtu", "p1.vtu"]), pvd(["p0.vtu", "p1.vtu", "p2.vtu"])],   # passes only with --ignore-missing-sequence-steps
             ["seq/rlong.pvd", pvd(["p0.vtu", "p1.vtu", "p2.vtu"]), pvd(["p0.vtu"])],
             ["seq/same.pvd", pvd(["p0.vtu", "p2.vtu"]), pvd(["p0.vtu", "p2.vtu"])],
             ["seq/p0.vtu", VTU_TRI, VTU_TRI], ["seq/p1.vtu", VTU_TRI, VTU_TRI_PERM], ["seq/p2.vtu", VTU_TRI, VTU_TRI]]
    return files


PASS_OPTS = [dict(), dict(atol="1e-3"), dict(atol="y:1e-3"), dict(atol="x:1e-3"), dict(atol="1e-3*max"), dict(atol="y:1e-5*max"), dict(include_fields=["x"]),
             dict(include_fields=["y"]), dict(no_reorder=True), dict(no_orphan_removal=True), dict(no_dim_match=True),
             dict(ign_steps=True), dict(force_seq=True), dict(ign_steps=True, force_seq=True),
             dict(ign_steps=True, atol="1e-3", include_fields=["x", "p"]),
             dict(no_reorder=True, no_orphan_removal=True, ign_steps=True)]


def gen_passthrough(m, rng, n_random):
    out = []
    base = passthrough_tree(m)
    for o in PASS_OPTS:
        out.append(("p6g-passthrough", {"files": [list(f) for f in base], "opts": _opts(m, **o)}))
    keys = ["atol", "include_fields", "no_reorder", "no_orphan_removal", "no_dim_match", "ign_steps", "force_seq"]
    vals = {"atol": ["1e-3", "y:1e-3", "1e-9", "1e-3*max"], "include_fields": [["x"], ["y"], ["p"], ["x", "p"]]}
    for _ in range(n_random):
        o = {}
        for k in keys:
            if rng.random() < 0.35:
                o[k] = rng.choice(vals[k]) if k in vals else True
        o["ims"], o["imr"] = rng.random() < 0.3, rng.random() < 0.3
        files = [list(f) for f in base if rng.random() < 0.8]
        for f in files:                      # some pairs one-sided
            if rng.random() < 0.1 and not f[0].startswith("seq/p"):
                f[1 + rng.randrange(2)] = None
        out.append(("p6g-passthrough", {"files": files, "opts": _opts(m, **o)}))
    return out


# ------------------------------------------------------------------------------------------------ p6g-rerun
def gen_rerun(m, rng, n_random):
    """sequences of tree states on the SAME two paths; state k is evaluated after states 0..k-1 were compared"""
    E = m.CSV_EQ
    chains = [
        # a pair that was equal starts to differ; an unsupported text file becomes a (differing) VTK file; files come and go
        [[["a.csv", E, E], ["n.txt", m.TXT, m.TXT], ["s/b.csv", E, E], ["gone.csv", E, E]],
         [["a.csv", E, m.CSV_DIFF], ["n.txt", m.VTU_EQ, m.VTU_DIFF], ["s/b.csv", E, None], ["s/new.csv", None, E]],
         [["a.csv", E, E], ["n.txt", m.TXT, m.TXT2], ["s/b.csv", E, E], ["t/u/new.csv", E, m.CSV_DIFF]]],
        # the trees swap their contents; an empty tree in between
        [[["x.csv", E, m.CSV_DIFF], ["only.csv", E, None]],
         [],
         [["x.csv", m.CSV_DIFF, E], ["only.csv", None, E], ["x.log", m.VTU_EQ, m.VTU_EQ]],
         [["x.csv", E, E], ["x.log", m.TXT, m.TXT]]],
    ]
    optsets = [dict(), dict(ims=True), dict(imr=True, include=["*.csv", "*.txt"])]
    out = []
    for ci, chain in enumerate(chains):
        for o in (optsets if ci == 0 else optsets[:2]):
            states = [{"files": [list(f) for f in fs], "opts": _opts(m, **o)} for fs in chain]
            for k in range(1, len(states)):
                out.append(("p6g-rerun", dict(states[k], prior=states[:k], form={"relation": "plain", "a": "abs", "b": "abs"})))
    for _ in range(n_random):
        states = []
        for _k in range(rng.choice([2, 2, 3])):
            c = _small_random_case(m, rng, 6)
            states.append({"files": c["files"], "opts": c["opts"]})
        spell = rng.choice(["abs", "rel", "slash"])
        out.append(("p6g-rerun", dict(states[-1], prior=states[:-1], form={"relation": "plain", "a": spell, "b": spell})))
    return out


# ------------------------------------------------------------------------------------------------
def batches(ctx, m):
    rng = ctx.rng
    thorough = ctx.tier == "thorough"
    out = []
    # (re-runs first, spellings last: a violation that needs process state from EARLIER cases - e.g. a cache keyed by a
    # cwd-relative directory name - is then reported first by a self-contained case with `prior` states)
    out += gen_rerun(m, rng, ctx.scale(10, 300))
    out += gen_names(m, rng, all_opts=thorough)
    out += gen_many(m, rng, ctx.scale(2, 9), [150, 260] if not thorough else [150, 260, 400])
    out += gen_passthrough(m, rng, ctx.scale(10, 400))
    out += gen_forms(m, rng, ctx.scale(56, 1400))
    return out
