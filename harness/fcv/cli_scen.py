"""Cluster B (CLI) plumbing shared by C04 and C20.

* abstract scenarios (plain JSON-serialisable dicts: logical data of result / reference, option tokens verbatim,
  damage kinds), generated from one `random.Random`,
* materialisation into real files in a temporary directory (CSV text written here, `.vtu` through
  `fieldcompare.io.write`, `.pvd` text written here),
* in-process execution of `fieldcompare._cli.main(argv)` with a captured logger; outcome = exit code | "raised" |
  "sysexit"; the `--junit-xml` file parsed with ElementTree into canonical suites,
* encoding of the *abstract* scenario for the Lean driver (values as exact unit integers, tokens verbatim, escaped),
* an independent Python evaluation of what C04 demands (`py_expected`), with safety margins (None = undecided).

Logical data
  table : {"kind": "table", "rows": n, "cols": [{"name", "dt": "f64"|"i64"|"str", "v": [...]}]}
  mesh  : {"kind": "mesh", "lm": <logical mesh of fcv.meshgen, points padded to 3 columns>}
"""
from __future__ import annotations
import copy
import fnmatch
import io
import math
import os
import shutil
import tempfile
import warnings
import xml.etree.ElementTree as ET
from fractions import Fraction

import numpy as np

from . import meshgen
from .num import f2u

ANNO = " @ "


# ---------------------------------------------------------------- escaping (mirror of Driver.OpsC04)

def esc(s: str) -> str:
    if s == "":
        return "%."
    return "".join(c if (c.isascii() and c.isalnum()) or c in "-_" else "%" + format(ord(c), "x") + "." for c in s)


def unesc(t: str) -> str:
    out, i = [], 0
    while i < len(t):
        if t[i] == "%":
            j = t.index(".", i)
            if j > i + 1:
                out.append(chr(int(t[i + 1:j], 16)))
            i = j + 1
        else:
            out.append(t[i])
            i += 1
    return "".join(out)


# ---------------------------------------------------------------- float() table

def float_lit(s: str) -> str:
    try:
        x = float(s)
    except ValueError:
        return "bad"
    if math.isnan(x) or math.isinf(x) or x < 0:
        return "exotic"
    return f"num {f2u(x)}"


def float_table(token_lists) -> str:
    cands = []
    for toks in token_lists:
        for s in toks or []:
            for p in s.split(":"):
                for c in (p, p.split("*max")[0]):
                    if c not in cands:
                        cands.append(c)
    return f"{len(cands)} " + " ".join(f"{esc(c)} {float_lit(c)}" for c in cands) if cands else "0"


# ---------------------------------------------------------------- running the CLI

def case_kind(tc) -> str:
    tags = [c.tag for c in tc]
    if "error" in tags:
        return "error"
    if "failure" in tags:
        return "failure"
    if "skipped" in tags:
        return "skipped"
    return "passed"


def parse_report(path):
    """None = no file; "malformed" = not well-formed / unexpected root; else list of canonical suites
    [name, [tests, failures, errors, skipped], sorted [[case name, kind]…]] (sorted)"""
    if not os.path.exists(path):
        return None
    try:
        root = ET.parse(path).getroot()
    except ET.ParseError:
        return "malformed"
    if root.tag == "testsuite":
        els = [root]
    elif root.tag == "testsuites":
        els = [e for e in root if e.tag == "testsuite"]
        if len(els) != len(list(root)):
            return "malformed"
    else:
        return "malformed"
    suites = []
    for e in els:
        try:
            counts = [int(e.attrib[k]) for k in ("tests", "failures", "errors", "skipped")]
            cases = sorted([tc.attrib["name"], case_kind(tc)] for tc in e if tc.tag == "testcase")
            suites.append([e.attrib["name"], counts, cases])
        except (KeyError, ValueError):
            return "malformed"
    return sorted(suites)


def run_cli(argv, junit_path=None):
    """-> (outcome, report)   outcome: int exit code | "raised:<Type>" | "sysexit:<code>" """
    from fieldcompare._cli import main
    from fieldcompare._cli._logger import CLILogger
    if junit_path is not None and os.path.exists(junit_path):
        os.remove(junit_path)
    buf = io.StringIO()
    with warnings.catch_warnings():
        warnings.simplefilter("ignore")
        with np.errstate(all="ignore"):
            try:
                rc = main(list(argv), CLILogger(output_stream=buf))
                out = int(rc)
            except SystemExit as e:
                out = f"sysexit:{e.code}"
            except Exception as e:  # noqa: BLE001
                out = f"raised:{type(e).__name__}"
    rep = parse_report(junit_path) if junit_path is not None else None
    return out, rep


def outcome_class(out) -> str:
    """'0' | '<n>' | 'raised' (an exception or SystemExit left main: a non-zero process status)"""
    if isinstance(out, int):
        return str(out)
    return "raised"


# ---------------------------------------------------------------- logical data helpers

def bare(name: str) -> str:
    return name.rsplit(ANNO, 1)[0]


def table_fields(t):
    """[(name, arr)] of a logical table"""
    return [(c["name"], {"dt": c["dt"], "shape": [t["rows"]], "v": list(c["v"])}) for c in t["cols"]]


def mesh_fields(lm):
    """[(name, arr)] in MeshFields order: point fields, then cell fields per type with annotation"""
    out = []
    npnt = len(lm["points"])
    for f in lm["pf"]:
        out.append((f["name"], {"dt": f["dt"], "shape": [npnt] + list(f["tail"]), "v": list(f["v"])}))
    ncells = {t: len(rows) for t, rows in lm["cells"]}
    for t, _ in lm["cells"]:
        for f in lm["cf"]:
            if f["ctype"] == t:
                out.append((f["name"] + ANNO + t,
                            {"dt": f["dt"], "shape": [ncells[t]] + list(f["tail"]), "v": list(f["v"])}))
    return out


def data_fields(d):
    return table_fields(d) if d["kind"] == "table" else mesh_fields(d["lm"])


# ---------------------------------------------------------------- writing files

def _fmt(dt, x) -> str:
    if dt == "f64":
        return repr(float(x))
    if dt == "i64":
        return str(int(x))
    return str(x)


def write_table(t, path):
    with open(path, "w") as fh:
        fh.write(",".join(c["name"] for c in t["cols"]) + "\n")
        for r in range(t["rows"]):
            fh.write(",".join(_fmt(c["dt"], c["v"][r]) for c in t["cols"]) + "\n")


def write_mesh(lm, base):
    import fieldcompare.io as fio
    return fio.write(meshgen.to_fc(lm), base)


def write_pvd(path, step_files):
    with open(path, "w") as fh:
        fh.write('<?xml version="1.0"?>\n<VTKFile type="Collection" version="0.1"><Collection>\n')
        for i, f in enumerate(step_files):
            fh.write(f'<DataSet timestep="{i}" file="{os.path.basename(f)}"/>\n')
        fh.write("</Collection></VTKFile>\n")


DSV_READER = 'dsv{"delimiter": ",", "use_names": true}'


def write_side(side_dir, stem, data, damage, ext_hint=None):
    """write one side of a scenario; returns the path handed to the CLI.
    data: logical table | mesh | {"kind": "seq", "steps": [mesh…]}"""
    os.makedirs(side_dir, exist_ok=True)
    kind = data["kind"]
    if kind == "table":
        ext = ext_hint or ".csv"
        path = os.path.join(side_dir, stem + ext)
        if damage == "missing":
            return path
        if damage == "unsupported":
            path = os.path.join(side_dir, stem + ".tbl")
            write_table(data, path)
            return path
        if damage == "garbage":
            with open(path, "w") as fh:
                fh.write("hello world\n\x00\x01")
            return path
        write_table(data, path)
        return path
    if kind == "mesh":
        path = os.path.join(side_dir, stem + ".vtu")
        if damage == "missing":
            return path
        write_mesh(data["stored"], os.path.join(side_dir, stem))
        if damage in ("truncated", "garbage"):
            txt = open(path, "rb").read()
            with open(path, "wb") as fh:
                fh.write(txt[: max(20, len(txt) // 2)] if damage == "truncated" else b"hello world")
        if damage == "unsupported":
            # table content under an extension nobody knows
            p2 = os.path.join(side_dir, stem + ".tbl")
            os.replace(path, p2)
            with open(p2, "w") as fh:
                fh.write("a,b\n1,2\n")
            return p2
        return path
    if kind == "seq":
        files = []
        for i, st in enumerate(data["steps"]):
            write_mesh(st["stored"], os.path.join(side_dir, f"{stem}_{i}"))
            files.append(os.path.join(side_dir, f"{stem}_{i}.vtu"))
        path = os.path.join(side_dir, stem + ".pvd")
        if damage == "missing":
            return path
        write_pvd(path, files)
        if damage in ("truncated", "garbage"):
            txt = open(path, "rb").read()
            with open(path, "wb") as fh:
                fh.write(txt[: len(txt) // 2] if damage == "truncated" else b"hello world")
        return path
    raise ValueError(kind)


DAMAGE_CLASS = {None: "ok", "missing": "io", "unsupported": "io", "garbage": "exc", "truncated": "exc",
                "badreader": "exc"}


def option_argv(sc) -> list[str]:
    a = []
    for t in sc["rtol"] or []:
        a += ["-rtol", t]
    for t in sc["atol"] or []:
        a += ["-atol", t]
    fl = sc["flags"]
    for key, opt in (("ign_src", "--ignore-missing-source-fields"), ("ign_ref", "--ignore-missing-reference-fields"),
                     ("ign_seq", "--ignore-missing-sequence-steps"), ("force_seq", "--force-sequence-comparison"),
                     ("dis_reorder", "--disable-mesh-reordering"), ("dis_orphan", "--disable-mesh-orphan-point-removal"),
                     ("dis_spacedim", "--disable-mesh-space-dimension-matching")):
        if fl.get(key):
            a.append(opt)
    for p in sc["incl"] or []:
        a += ["--include-fields", p]
    for p in sc["excl"] or []:
        a += ["--exclude-fields", p]
    for r in sc.get("read_as") or []:
        a += ["--read-as", r]
    return a


class Workdir:
    def __init__(self):
        self.root = tempfile.mkdtemp(prefix="fcv_cli_")
        self.n = 0

    def fresh(self) -> str:
        self.n += 1
        d = os.path.join(self.root, f"c{self.n}")
        os.makedirs(d)
        return d

    def drop(self, d):
        shutil.rmtree(d, ignore_errors=True)

    def close(self):
        shutil.rmtree(self.root, ignore_errors=True)


def materialise(sc, d):
    """write the two sides of a file-mode scenario into directory d -> (res_path, ref_path)"""
    res = write_side(os.path.join(d, "r"), "data", sc["res"], sc["damage"][0], sc.get("ext"))
    ref = write_side(os.path.join(d, "f"), "data", sc["ref"], sc["damage"][1], sc.get("ext"))
    return res, ref


def run_file_scenario(sc, wd: Workdir, junit=True, check_read=True) -> dict:
    """materialise, (side-)check the readers, run `fieldcompare file …` -> {"out", "rep", "parts", "readok"}"""
    d = wd.fresh()
    try:
        res, ref = materialise(sc, d)
        readok = read_check(sc, res, ref) if check_read else True
        jp = os.path.join(d, "report.xml") if junit else None
        argv = ["file", res, ref] + option_argv(sc) + (["--junit-xml", jp] if junit else [])
        out, rep = run_cli(argv, jp)
        return {"out": out, "rep": rep, "parts": path_parts(res), "readok": readok}
    finally:
        wd.drop(d)


def path_parts(p: str) -> list[str]:
    from pathlib import Path
    return list(Path(p).parts)


def _read_like_cli(sc, path):
    """read `path` the way the CLI will (reader selection by --read-as; only the reader specifications produced by
    the generators are understood), through the public reader functions"""
    import fieldcompare.io as fio
    for r in sc.get("read_as") or []:
        if r.startswith(DSV_READER):
            pat, kw = r[len(DSV_READER) + 1:] or "*", {"delimiter": ",", "use_names": True}
        elif r.startswith("dsv"):
            pat, kw = r[4:] or "*", {}
        else:
            raise ValueError("unknown reader specification")
        if fnmatch.fnmatch(path, pat):
            return fio.read_as("dsv", path, **kw)
    return fio.read(path)


def read_check(sc, res, ref) -> bool:
    """side-check tying the (unmodelled) text parsers: every undamaged generated file must read back, through the
    public reader, to the logical data it was written from (names, dtypes kinds, values)"""
    for path, data, dmg in ((res, sc["res"], sc["damage"][0]), (ref, sc["ref"], sc["damage"][1])):
        if dmg is not None or data["kind"] == "seq":
            continue
        if sc.get("read_as") and any(r.split("{")[0].split(":")[0] not in ("mesh", "dsv") for r in sc["read_as"]):
            continue
        try:
            back = _read_like_cli(sc, path)
        except Exception:  # noqa: BLE001
            return False
        got = [(f.name, np.asarray(f.values)) for f in back]
        want = data_fields(data if data["kind"] == "table" else {"kind": "mesh", "lm": data["stored"]})
        if sorted(g[0] for g in got) != sorted(w[0] for w in want) or len({g[0] for g in got}) != len(got):
            return False
        wd_ = dict(want)
        for n_, g in got:
            w = wd_[n_]
            if list(g.shape) != list(w["shape"]):
                return False
            if w["dt"] == "str":
                if g.dtype.kind not in "US" or [str(x) for x in g.flatten()] != [str(x) for x in w["v"]]:
                    return False
            elif w["dt"] in ("f64", "f32"):
                if g.dtype.kind != "f" or g.dtype.itemsize != (8 if w["dt"] == "f64" else 4):
                    return False
                if [float(x) for x in g.flatten()] != [float(x) for x in w["v"]]:
                    return False
            else:
                if g.dtype.kind not in "iu" or [int(x) for x in g.flatten()] != [int(x) for x in w["v"]]:
                    return False
    return True


# ---------------------------------------------------------------- abstract (model-level) scenario + encoding

def _enc_arr(arr, strtab) -> str:
    dt = arr["dt"]
    if dt in ("f64", "f32"):
        vals = [str(f2u(float(x))) for x in arr["v"]]
    elif dt == "str":
        vals = [str(strtab.setdefault(str(x), len(strtab))) for x in arr["v"]]
    else:
        vals = [str(int(x)) for x in arr["v"]]
    sh = arr["shape"]
    return " ".join([dt, str(len(sh))] + [str(s) for s in sh] + [str(len(vals))] + vals)


def _enc_fields(fields, strtab) -> str:
    return " ".join([str(len(fields))] + [f"{esc(n)} {_enc_arr(a, strtab)}" for n, a in fields])


def _enc_optstrs(l) -> str:
    if l is None:
        return "none"
    return " ".join(["some", str(len(l))] + [esc(x) for x in l])


def _enc_pair(p, strtab) -> str:
    dom = p["dom"]
    if dom[0] == "tables":
        ds = f"tables {dom[1]} {dom[2]}"
    elif dom[0] == "meshes":
        ds = f"meshes {_enc_arr(dom[1], strtab)} {_enc_arr(dom[2], strtab)} {int(dom[3])} {int(dom[4])} {dom[5]}"
    else:
        ds = "mixedkinds"
    return f"{ds} {_enc_fields(p['res'], strtab)} {_enc_fields(p['ref'], strtab)}"


def enc_scenario(m) -> str:
    """m = abstract scenario (see `abstract`)"""
    strtab = {}
    pl = m["payload"]
    if pl[0] == "single":
        ps = "single " + _enc_pair(pl[1], strtab)
    elif pl[0] == "seqs":
        ps = " ".join(["seqs", str(pl[1]), str(pl[2]), str(len(pl[3]))] + [_enc_pair(p, strtab) for p in pl[3]])
    else:
        ps = "mixed"
    b = lambda x: "1" if x else "0"  # noqa: E731
    return " ".join([
        _enc_optstrs(m["rtol"]), _enc_optstrs(m["atol"]),
        b(m["ign_src"]), b(m["ign_ref"]), b(m["ign_seq"]), b(m["force_seq"]), b(m["dis_reorder"]),
        _enc_optstrs(m["incl"]), _enc_optstrs(m["excl"]),
        m["read"][0], m["read"][1], ps,
        str(len(m["parts"]))] + [esc(x) for x in m["parts"]])


def _matched(patterns, names):
    """truth table of PatternFilter computed with the real fnmatch: bare names matched by any pattern"""
    if patterns is None:
        return None
    out = []
    for n in names:
        if any(fnmatch.fnmatch(n, p) for p in patterns) and n not in out:
            out.append(n)
    return out


def _units_rows(points):
    return {"dt": "f64", "shape": [len(points), 3], "v": [float(c) for p in points for c in p]}


def min_sep_units(points) -> int:
    """smallest max-norm distance between two distinct points, in units (exact)"""
    best = None
    us = [[f2u(c) for c in p] for p in points]
    for i in range(len(us)):
        for j in range(i + 1, len(us)):
            d = max(abs(a - b) for a, b in zip(us[i], us[j]))
            if best is None or d < best:
                best = d
    return best if best is not None else 0


def _pair_abstract(res, ref):
    if res["kind"] == "table" and ref["kind"] == "table":
        dom = ("tables", res["rows"], ref["rows"])
    elif res["kind"] == "mesh" and ref["kind"] == "mesh":
        lr, lf = res["lm"], ref["lm"]
        dom = ("meshes", _units_rows(lr["points"]), _units_rows(lf["points"]), bool(res.get("topo_same", True)),
               bool(res.get("storage_same", True)), min_sep_units(lf["points"]))
    else:
        dom = ("mixedkinds",)
    return {"dom": dom, "res": data_fields(res), "ref": data_fields(ref)}


def abstract(sc, parts) -> dict:
    """model-level scenario of a file-mode scenario `sc` whose result path has components `parts`"""
    res, ref = sc["res"], sc["ref"]
    if res["kind"] == "seq" and ref["kind"] == "seq":
        n, m = len(res["steps"]), len(ref["steps"])
        pairs = [_pair_abstract(a, b) for a, b in zip(res["steps"], ref["steps"])]
        payload = ("seqs", n, m, pairs)
        all_pairs = pairs
    elif res["kind"] == "seq" or ref["kind"] == "seq":
        payload = ("mixed",)
        all_pairs = []
    else:
        p = _pair_abstract(res, ref)
        payload = ("single", p)
        all_pairs = [p]
    names = []
    for p in all_pairs:
        for n_, _ in p["res"] + p["ref"]:
            if bare(n_) not in names:
                names.append(bare(n_))
    fl = sc["flags"]
    rd = [DAMAGE_CLASS[sc["damage"][0]], DAMAGE_CLASS[sc["damage"][1]]]
    if sc.get("read_as") and any(r.split("{")[0].split(":")[0] not in ("mesh", "dsv") for r in sc["read_as"]):
        rd = ["exc", "exc"]      # unknown reader name: ValueError from read_as on the first file
    return {"rtol": sc["rtol"], "atol": sc["atol"], "ign_src": fl.get("ign_src", False),
            "ign_ref": fl.get("ign_ref", False), "ign_seq": fl.get("ign_seq", False),
            "force_seq": fl.get("force_seq", False), "dis_reorder": fl.get("dis_reorder", False),
            "incl": _matched(sc["incl"], names), "excl": _matched(sc["excl"], names),
            "read": rd, "payload": payload, "parts": parts}


def cli_line(op: str, m: dict) -> str:
    return f"{op} {float_table([m['rtol'], m['atol']])} {enc_scenario(m)}"


# ---------------------------------------------------------------- independent Python evaluation of C04

def py_parse_tols(toks, dyn):
    """-> (named dict name -> (kind, value), default);  None when an argument is rejected (ValueError);
    "X" when all are accepted but one is exotic (negative / inf / nan)"""
    if toks is None:
        return {}, None
    named, dflt, exotic = {}, None, False
    for s in toks:
        k = s.count(":")
        if k > 1:
            return None
        name, v = (s.split(":") if k == 1 else (None, s))
        kind = "num"
        if dyn and v.endswith("*max"):
            kind, v = "scaled", v[: v.index("*max")]
        try:
            x = float(v)
        except ValueError:
            return None
        if math.isnan(x) or math.isinf(x) or x < 0:
            exotic = True
            continue
        if name is None:
            dflt = (kind, x)
        else:
            named[name] = (kind, x)
    return "X" if exotic else (named, dflt)


def py_tol_for(parsed, name):
    named, dflt = parsed
    return named[name] if name in named else dflt


EPS = {"f64": 2.0 ** -52, "f32": 2.0 ** -23}


def _field_verdict(rel, abs_, a, b):
    """'pass' | 'fail' | None (too close to the boundary to call without the exact model)"""
    da, db = a["dt"], b["dt"]
    fl_a, fl_b = da in EPS, db in EPS
    if not fl_a and not fl_b:
        if da != db:
            return None
        if a["shape"] != b["shape"]:
            return "fail"
        return "pass" if [str(x) for x in a["v"]] == [str(x) for x in b["v"]] else "fail"
    if da == "str" or db == "str":
        return "fail"            # the predicate raises: error
    if da != db:
        return None
    if a["shape"] != b["shape"]:
        return "fail"
    r = Fraction(EPS[da]) if rel is None else Fraction(rel[1])
    if abs_ is None:
        t = Fraction(0)
    elif abs_[0] == "num":
        t = Fraction(abs_[1])
    else:
        if not a["v"] or not b["v"]:
            return "fail"
        t = Fraction(abs_[1]) * max(max(abs(Fraction(float(x))) for x in a["v"]),
                                    max(abs(Fraction(float(x))) for x in b["v"]))
    res = "pass"
    for x, y in zip(a["v"], b["v"]):
        fx, fy = Fraction(float(x)), Fraction(float(y))
        d = abs(fx - fy)
        thr = max(r * max(abs(fx), abs(fy)), t)
        if d == 0 or 2 * d <= thr:
            continue
        if d >= 2 * thr:
            return "fail"
        res = None
    return res


def _selected(sc, name):
    b = bare(name)
    inc = True if sc["incl"] is None else any(fnmatch.fnmatch(b, p) for p in sc["incl"])
    exc = False if sc["excl"] is None else any(fnmatch.fnmatch(b, p) for p in sc["excl"])
    return inc and not exc


def _mesh_domain_expected(sc, res, ref, rt, at_):
    """True | False | None for a mesh pair; None also when the effective tolerance is not far below the spacing"""
    pts = ref["lm"]["points"]
    mx = max([abs(c) for p in pts for c in p] + [0.0])
    rel = (py_tol_for(rt, "domain") or ("num", 1e-8))[1]
    a = py_tol_for(at_, "domain")
    ab = mx * 1e-8 if a is None else (a[1] if a[0] == "num" else a[1] * mx)
    sep = float(Fraction(min_sep_units(pts), 1 << 1074))
    if 16.0 * max(rel * mx, ab) > sep:
        # the (possibly leaked global) tolerance is not far below the point spacing: distinct points may compare
        # equal, nothing can be said without the mesh model
        return None
    if not res.get("topo_same", True):
        return False
    if not res.get("storage_same", True) and sc["flags"].get("dis_reorder"):
        return False
    mv = res.get("moved")
    if mv == "huge":
        return False
    if mv not in (None, "tiny"):
        return None
    return True


def _pair_eval(sc, res, ref, rt, at_):
    """{"domain": True|False|None, "testfail": True|False|None}  (testfail: some reported test case fails;
    only meaningful when the domains are equal)"""
    if res["kind"] != ref["kind"]:
        return {"domain": False, "testfail": False, "exc": True}
    if res["kind"] == "table":
        dom = res["rows"] == ref["rows"]
    else:
        dom = _mesh_domain_expected(sc, res, ref, rt, at_)
    rf, ff = data_fields(res), data_fields(ref)
    rn, fn = [n for n, _ in rf], [n for n, _ in ff]
    if len(set(rn)) != len(rn) or len(set(fn)) != len(fn):
        return {"domain": dom, "testfail": None}
    fail, undecided = False, False
    for n, a in rf:
        if n in fn and _selected(sc, n):
            v = _field_verdict(py_tol_for(rt, bare(n)), py_tol_for(at_, bare(n)), a, ff[fn.index(n)][1])
            if v == "fail":
                fail = True
            if v is None:
                undecided = True
    if any(n not in rn for n in fn) and not sc["flags"].get("ign_src"):
        fail = True
    if any(n not in fn for n in rn) and not sc["flags"].get("ign_ref"):
        fail = True
    return {"domain": dom, "testfail": True if fail else (None if undecided else False)}


def _unknown_reader(sc) -> bool:
    return bool(sc.get("read_as")) and any(r.split("{")[0].split(":")[0] not in ("mesh", "dsv") for r in sc["read_as"])


def py_eval(sc) -> dict:
    """independent evaluation of a file-mode scenario:
       {"exit": '0'|'nz'|None,            what C04 demands of the exit status
        "f5": True|False|None}            does the run belong to the class of finding F5 (it fails, and either no
                                          report can be written or the failure is carried by the suite's own status
                                          while no test case fails)"""
    rt, at_ = py_parse_tols(sc["rtol"], False), py_parse_tols(sc["atol"], True)
    if rt is None or at_ is None:
        return {"exit": "nz", "f5": True}
    if sc["damage"][0] is not None or sc["damage"][1] is not None or _unknown_reader(sc):
        return {"exit": "nz", "f5": True}
    res, ref = sc["res"], sc["ref"]
    if (res["kind"] == "seq") != (ref["kind"] == "seq"):
        return {"exit": "nz", "f5": True}
    if rt == "X" or at_ == "X":
        # exotic tolerance values: only what does not depend on tolerances is decided
        if res["kind"] != "seq" and (res["kind"] != ref["kind"] or
                                     (res["kind"] == "table" and res["rows"] != ref["rows"])):
            return {"exit": "nz", "f5": True}
        return {"exit": None, "f5": None}
    if res["kind"] != "seq":
        e = _pair_eval(sc, res, ref, rt, at_)
        if e.get("exc") or e["domain"] is False:
            return {"exit": "nz", "f5": True}
        if e["domain"] is None:
            return {"exit": "nz" if e["testfail"] else None, "f5": None}
        ex = None if e["testfail"] is None else ("nz" if e["testfail"] else "0")
        return {"exit": ex, "f5": False}
    n, m = len(res["steps"]), len(ref["steps"])
    es = [_pair_eval(sc, a, b, rt, at_) for a, b in zip(res["steps"], ref["steps"])]
    len_fail = n != m and not sc["flags"].get("ign_seq")
    if len_fail and not sc["flags"].get("force_seq"):
        return {"exit": "nz", "f5": True}
    doms = [e["domain"] for e in es]
    # a failing test case is reported only for a step whose domains are equal
    if any(d is True and e["testfail"] is True for e, d in zip(es, doms)):
        any_fail = True
    elif any((d is None and e["testfail"] is not False) or (d is True and e["testfail"] is None)
             for e, d in zip(es, doms)):
        any_fail = None
    else:
        any_fail = False
    own_fail = True if (len_fail or any(d is False for d in doms)) else (None if None in doms else False)
    if own_fail is True or any_fail is True or any(e["testfail"] is True and d is None for e, d in zip(es, doms)):
        ex = "nz"        # (a step that fails a test or else has unequal domains fails either way)
    elif own_fail is None or any_fail is None:
        ex = None
    else:
        ex = "0"
    if own_fail is False:
        f5 = False
    elif any_fail is True:
        f5 = False
    elif own_fail is True and any_fail is False:
        f5 = True
    else:
        f5 = None
    return {"exit": ex, "f5": f5}


def py_expected(sc):
    return py_eval(sc)["exit"]


# ---------------------------------------------------------------- generators

CSV_NAMES = ["x", "y", "p0", "T", "domain", "vel_x", "n", "id", "s", "label", "p1", "max"]
MESH_PNAMES = ["p0", "p1", "T", "domain", "u [x]", "a @ b", "x*", "vel"]
MESH_CNAMES = ["c0", "c1", "domain", "k?", "p0"]
WORDS = ["aa", "bb", "cc", "dd", "ee", "ff"]


def _rand_float(rng, scale=1.0):
    m = rng.choice([1.0, 1.5, 1.25, 3.0, 7.0, 0.1, 2.75, 1e-3, 12.5, 100.0])
    s = rng.choice([1.0, 1.0, -1.0])
    k = rng.randint(0, 1 << 20) / float(1 << 20)
    return s * scale * m * (1.0 + k)


def gen_table(rng, sniffable=False):
    rows = rng.choice([2, 3, 3, 5, 8] if sniffable else [1, 2, 3, 3, 5, 8])
    ncols = rng.randint(2 if sniffable else 1, 5)
    names = rng.sample(CSV_NAMES, ncols)
    cols = []
    for i, n in enumerate(names):
        dt = "f64" if i == 0 else rng.choice(["f64", "f64", "i64", "str"])
        if dt == "f64":
            sc_ = rng.choice([1.0, 1.0, 1e-6, 1e4])
            v = [_rand_float(rng, sc_) for _ in range(rows)]
        elif dt == "i64":
            v = [rng.randint(-1000, 10 ** 6) for _ in range(rows)]
        else:
            v = [rng.choice(WORDS) + str(rng.randint(0, 9)) for _ in range(rows)]
        cols.append({"name": n, "dt": dt, "v": v})
    return {"kind": "table", "rows": rows, "cols": cols}


def gen_logical_mesh(rng):
    lm, tags = meshgen.gen_mesh(rng, max_cells_per_dir=rng.choice([1, 2, 2, 3]), dims=(2, 3), allow_orphans=False,
                                allow_duplicates=False, fields=False, types=rng.choice(["quad", "tri", "mixed2"]),
                                scale=rng.choice([1.0, 1.0, 1e-3, 50.0]))
    # the VTU writer stores three coordinates
    lm["points"] = [list(p) + [0.0] * (3 - len(p)) for p in lm["points"]]
    lm["dim"] = 3
    npnt = len(lm["points"])
    for n in rng.sample(MESH_PNAMES, rng.randint(0, 3)):
        dt = rng.choice(["f64", "f64", "f64", "f32", "i32", "i64"])
        tail = rng.choice([[], [], [3]])
        cnt = npnt * (3 if tail else 1)
        lm["pf"].append({"name": n, "dt": dt, "tail": tail, "v": _vals(rng, dt, cnt)})
    for n in rng.sample(MESH_CNAMES, rng.randint(0, 2)):
        dt = rng.choice(["f64", "f64", "i32", "i64"])
        tail = rng.choice([[], [], [3]])
        for t, rows in lm["cells"]:
            lm["cf"].append({"name": n, "ctype": t, "dt": dt, "tail": tail,
                             "v": _vals(rng, dt, len(rows) * (3 if tail else 1))})
    return lm, tags


def _vals(rng, dt, cnt):
    if dt in ("i32", "i64"):
        return [rng.randint(-1000, 100000) for _ in range(cnt)]
    if dt == "f32":
        return [float(np.float32(_rand_float(rng))) for _ in range(cnt)]
    return [_rand_float(rng) for _ in range(cnt)]


def gen_tokens(rng, names, which, mesh=False, scale=1.0):
    """argument strings of one tolerance option (`which` = 'rtol' | 'atol'); None = option absent"""
    if rng.random() < (0.35 if which == "rtol" else 0.45):
        return None
    vals = ["1e-3", "1e-6", "0", "1e-9", "0.5", "2e-2", "1E-4", "1e-12", ".001"]
    toks = []
    for _ in range(rng.choice([1, 1, 2, 2, 3, 4])):
        r = rng.random()
        v = rng.choice(vals)
        if which == "atol":
            v = "{:g}".format(float(v) * scale) if rng.random() < 0.7 else v
            if rng.random() < 0.3:
                v = rng.choice(["1e-3", "1e-6", "0.25", "1e-2"]) + "*max"
        if r < 0.35:
            toks.append(v)
        elif r < 0.8 and names:
            toks.append(rng.choice(names) + ":" + v)
        elif r < 0.9:
            dv = rng.choice(["1e-2", "1e-5", "1e-9"]) if which == "rtol" else "{:g}".format(
                float(rng.choice(["1e-2", "1e-5"])) * scale)
            toks.append("domain:" + dv)
        else:
            toks.append(rng.choice(["nosuchfield", "c0 @ QUAD", "", "P0"]) + ":" + v)
    # rare: rejected / exotic arguments
    r = rng.random()
    if r < 0.05:
        bad = ["a:b:c", "abc", "x:", "1e-3:", "p0:1e-3:max", "1e-3*max*", "*max", "1e-3 *max", "1e-3,"]
        if which == "rtol":
            bad += ["1e-3*max", "p0:1e-2*max"]
        else:
            bad += ["1e-3*maxx"]
        toks.insert(rng.randint(0, len(toks)), rng.choice(bad))
    elif r < 0.07:
        toks.insert(rng.randint(0, len(toks)), rng.choice(["inf", "nan", "x:-1", "p0:inf"]))
    elif r < 0.10 and which == "atol":
        toks.insert(rng.randint(0, len(toks)), rng.choice(["1e-3*max*max", "p0:1e-9*max"]))
    return toks


def gen_patterns(rng, names):
    if rng.random() < 0.6:
        return None
    pool = ["*", "p*", "?0", "[pc]0", "*_x", "c0 @ *", "nomatch", "T", "[!p]*", "*[*]", "??"] + list(names)
    return [rng.choice(pool) for _ in range(rng.choice([1, 1, 2, 3]))]


def gen_flags(rng, mesh=False, seq=False):
    fl = {"ign_src": rng.random() < 0.3, "ign_ref": rng.random() < 0.3}
    if seq or rng.random() < 0.1:
        fl["ign_seq"] = rng.random() < 0.35
        fl["force_seq"] = rng.random() < 0.35
    if mesh:
        fl["dis_reorder"] = rng.random() < 0.25
        fl["dis_orphan"] = rng.random() < 0.2
        fl["dis_spacedim"] = rng.random() < 0.2
    return fl


def _eff_tol(sc, name, a, b, dt):
    """(rel, abs) floats that apply to field `name` (python side, for placing perturbations)"""
    rt, at_ = py_parse_tols(sc["rtol"], False), py_parse_tols(sc["atol"], True)
    rel = EPS.get(dt, 2.0 ** -52)
    ab = 0.0
    if rt not in (None, "X"):
        t = py_tol_for(rt, bare(name))
        if t is not None:
            rel = t[1]
    if at_ not in (None, "X"):
        t = py_tol_for(at_, bare(name))
        if t is not None:
            ab = t[1] if t[0] == "num" else t[1] * max([abs(float(x)) for x in a + b] + [0.0])
    return rel, ab


def perturb_field(rng, sc, fld_res, fld_ref_vals, name, tags):
    """change one entry of a (logical) field of the result: below / at / above its tolerance, or grossly"""
    dt = fld_res["dt"]
    v = fld_res["v"]
    if not v:
        return
    i = rng.choice([0, len(v) - 1, rng.randrange(len(v))])
    if dt in ("i64", "i32"):
        v[i] = int(v[i]) + rng.choice([1, -1, 1000])
        tags.append("edit-int")
        return
    if dt == "str":
        v[i] = str(v[i]) + "x"
        tags.append("edit-str")
        return
    rel, ab = _eff_tol(sc, name, list(v), list(fld_ref_vals), dt)
    a = float(fld_ref_vals[i]) if i < len(fld_ref_vals) else float(v[i])
    thr = max(rel * abs(a), ab)
    how = rng.choice(["below", "below", "at", "above", "above", "gross"])
    if thr == 0.0:
        # exact comparison requested (e.g. an explicit `-rtol 0`): the smallest possible deviation (1 ulp) must
        # already fail — a default tolerance silently substituted for the explicit zero would accept it
        one_ulp = abs(math.nextafter(a, math.inf) - a) if a else 5e-324
        delta = {"below": 0.0, "at": 0.0}.get(how, rng.choice([one_ulp, abs(a) * 2.0 ** -50 if a else 1e-300]))
    else:
        delta = thr * {"below": 0.25, "at": 1.0, "above": 4.0, "gross": 1e6}[how]
    nb = a + delta * rng.choice([1.0, -1.0])
    if dt == "f32":
        nb = float(np.float32(nb))
    if not math.isfinite(nb):
        nb = a
    v[i] = nb
    tags.append("edit-float-" + how)


def apply_field_edits(rng, sc, res, ref, tags):
    """edits of the fields of one logical pair (tables or meshes), in place on res/ref"""
    def fld_lists(d):
        return d["cols"] if d["kind"] == "table" else d["lm"]["pf"]
    nedits = rng.choice([0, 1, 1, 2, 3])
    for _ in range(nedits):
        fr, ff = fld_lists(res), fld_lists(ref)
        kind = rng.choice(["perturb", "perturb", "perturb", "drop_res", "drop_ref", "rename", "retype", "cell"])
        if kind == "perturb" and fr:
            f = rng.choice(fr)
            same = [g for g in ff if g["name"] == f["name"]]
            perturb_field(rng, sc, f, same[0]["v"] if same else f["v"], f["name"], tags)
        elif kind == "cell" and res["kind"] == "mesh" and res["lm"]["cf"]:
            f = rng.choice(res["lm"]["cf"])
            same = [g for g in ref["lm"]["cf"] if g["name"] == f["name"] and g["ctype"] == f["ctype"]]
            perturb_field(rng, sc, f, same[0]["v"] if same else f["v"], f["name"], tags)
        elif kind == "drop_res" and len(fr) > 1:
            fr.pop(rng.randrange(len(fr)))
            tags.append("edit-missing-source")
        elif kind == "drop_ref" and len(ff) > 1:
            ff.pop(rng.randrange(len(ff)))
            tags.append("edit-missing-reference")
        elif kind == "rename" and fr:
            f = rng.choice(fr)
            new = f["name"] + "2"
            if all(g["name"] != new for g in fr):
                f["name"] = new
                tags.append("edit-rename")
        elif kind == "retype" and res["kind"] == "table" and fr:
            cand = [f for f in fr if f["dt"] == "f64"]
            if cand and len([f for f in fr if f["dt"] != "str"]) > 1:
                f = rng.choice(cand)
                f["dt"] = "str"
                f["v"] = [rng.choice(WORDS) for _ in f["v"]]
                tags.append("edit-retype-str")


def gen_csv_scenario(rng):
    ref = gen_table(rng)
    res = copy.deepcopy(ref)
    names = [c["name"] for c in ref["cols"]]
    sc = {"kind": "csv", "rtol": None, "atol": None, "flags": gen_flags(rng), "incl": gen_patterns(rng, names),
          "excl": gen_patterns(rng, names) if rng.random() < 0.5 else None, "read_as": None,
          "damage": [None, None], "res": res, "ref": ref}
    sc["rtol"] = gen_tokens(rng, names, "rtol")
    sc["atol"] = gen_tokens(rng, names, "atol")
    tags = ["csv"]
    if rng.random() < 0.5:
        sc["read_as"] = [DSV_READER]
        tags.append("read-as-dsv")
    apply_field_edits(rng, sc, res, ref, tags)
    r = rng.random()
    if r < 0.10:
        # row count differs: drop / add a row in the result
        if res["rows"] > 1 and rng.random() < 0.5:
            res["rows"] -= 1
            for c in res["cols"]:
                c["v"].pop()
        else:
            res["rows"] += 1
            for c in res["cols"]:
                c["v"].append(c["v"][-1])
        tags.append("edit-rows")
    if not sc["read_as"] and (min(len(res["cols"]), len(ref["cols"])) < 2 or min(res["rows"], ref["rows"]) < 2):
        # delimiter / header sniffing needs at least two columns and two rows: use the explicit reader
        sc["read_as"] = [DSV_READER]
        tags.append("read-as-dsv")
    r = rng.random()
    if r < 0.10:
        side = rng.randrange(2)
        kinds = ["missing"] + ([] if sc["read_as"] else ["garbage", "unsupported"])
        sc["damage"][side] = rng.choice(kinds)
        tags.append("damage-" + sc["damage"][side])
    elif r < 0.13:
        sc["read_as"] = [rng.choice(["foo", "csv:*", "foo:*.csv"])]
        tags.append("damage-badreader")
    elif r < 0.17 and not sc["read_as"]:
        # tables under an unknown extension, made readable by --read-as
        sc["ext"] = ".tbl"
        sc["read_as"] = [rng.choice([DSV_READER + ":*.tbl", "dsv:*.tbl", DSV_READER])]
        tags.append("read-as-ext")
    return sc, tags


def _store(rng, d, relabel_p=0.5):
    """choose the stored order of a logical mesh data set (d['lm'] stays the logical order)"""
    lm = d["lm"]
    if rng.random() < relabel_p:
        st = meshgen.relabel(rng, lm)
        same = (st["points"] == lm["points"] and
                sorted((t, [sorted(r) for r in rows]) for t, rows in st["cells"]) ==
                sorted((t, [sorted(r) for r in rows]) for t, rows in lm["cells"]))
    else:
        st, same = copy.deepcopy(lm), True
    d["stored"] = st
    d["storage_same"] = same


def plan_domain_tolerance(rng, sc, scale, tags):
    """sometimes append an explicit domain tolerance (named `domain:` or the global one, which leaks to the domain) that
    is much looser / much tighter than the mesh default, so that the point displacements below are decided by it"""
    r = rng.random()
    if r < 0.18:
        v = "{:g}".format(1e-3 * scale)
        which = rng.choice(["atol-domain", "atol-global", "rtol-domain", "atol-domain-max"])
        if which == "atol-domain":
            sc["atol"] = (sc["atol"] or []) + ["domain:" + v]
        elif which == "atol-global":
            sc["atol"] = (sc["atol"] or []) + [v]
        elif which == "atol-domain-max":
            sc["atol"] = (sc["atol"] or []) + ["domain:1e-5*max"]
        else:
            sc["rtol"] = (sc["rtol"] or []) + ["domain:1e-3"]
        tags.append("domain-tol-loosened")
        return "loosened"
    if r < 0.28:
        sc["atol"] = (sc["atol"] or []) + ["domain:0"]
        sc["rtol"] = (sc["rtol"] or []) + ["domain:1e-14"]
        tags.append("domain-tol-tightened")
        return "tightened"
    return None


def mesh_domain_edit(rng, sc, res, ref, tags, plan=None):
    """displace a point (tiny = well inside the effective domain tolerance, huge = well outside; with a tightened
    tolerance: inside the mesh default but outside the given one) or rewire a cell"""
    r = rng.random()
    lm = res["lm"]
    if r < (0.7 if plan else 0.25):
        rt, at_ = py_parse_tols(sc["rtol"], False), py_parse_tols(sc["atol"], True)
        if rt in (None, "X") or at_ in (None, "X"):
            return
        mx = max(abs(c) for p in ref["lm"]["points"] for c in p)
        rel = (py_tol_for(rt, "domain") or ("num", 1e-8))[1]
        a = py_tol_for(at_, "domain")
        ab = mx * 1e-8 if a is None else (a[1] if a[0] == "num" else a[1] * mx)
        cand = [(i, k) for i, p in enumerate(lm["points"]) for k in range(3) if p[k] != 0.0]
        if not cand:
            return
        i, k = rng.choice(cand)
        x = lm["points"][i][k]
        thr = max(rel * abs(x), ab)
        how = rng.choice(["tiny", "huge"])
        if plan == "tightened" and rng.random() < 0.7:
            # a tenth of the mesh's *default* tolerance: outside the (tighter) tolerance that was given
            delta = max(1e-8 * abs(x), 1e-8 * mx) / 10.0
            how = "huge" if delta >= 64.0 * thr else "unclear"
        else:
            if thr == 0.0 and how == "tiny":
                return
            delta = thr / 10.0 if how == "tiny" else max(thr * 64.0, mx * 1e-6)
        lm["points"][i][k] = x + delta * rng.choice([1.0, -1.0])
        res["moved"] = how
        tags.append("edit-point-" + how)
    elif r < 0.33:
        # rewire: replace one corner of one cell by another point
        t, rows = rng.choice(lm["cells"])
        row = rng.choice(rows)
        others = [p for p in range(len(lm["points"])) if p not in row]
        if others:
            row[rng.randrange(len(row))] = rng.choice(others)
            res["topo_same"] = False
            tags.append("edit-rewire")


def gen_mesh_pair(rng, sc, lm0, tags, domain_edits=True, plan=None):
    ref = {"kind": "mesh", "lm": copy.deepcopy(lm0)}
    res = {"kind": "mesh", "lm": copy.deepcopy(lm0), "topo_same": True, "moved": None}
    apply_field_edits(rng, sc, res, ref, tags)
    if domain_edits:
        mesh_domain_edit(rng, sc, res, ref, tags, plan)
    _store(rng, res)
    _store(rng, ref, relabel_p=0.0)
    if not res["storage_same"]:
        tags.append("reordered")
    return res, ref


def _mesh_names(lm):
    return [f["name"] for f in lm["pf"]] + sorted({f["name"] for f in lm["cf"]})


def gen_mesh_scenario(rng):
    lm0, mt = gen_logical_mesh(rng)
    names = _mesh_names(lm0)
    mx = max(abs(c) for p in lm0["points"] for c in p) or 1.0
    sc = {"kind": "mesh", "rtol": None, "atol": None, "flags": gen_flags(rng, mesh=True),
          "incl": gen_patterns(rng, names), "excl": gen_patterns(rng, names) if rng.random() < 0.5 else None,
          "read_as": None, "damage": [None, None]}
    # absolute tolerances scaled to the mesh so that the global value leaking to the domain stays below the spacing
    sc["rtol"] = gen_tokens(rng, names, "rtol", mesh=True)
    sc["atol"] = gen_tokens(rng, names, "atol", mesh=True, scale=mt["scale"] * 1e-2)
    tags = ["mesh", "style-" + str(mt["style"])]
    plan = plan_domain_tolerance(rng, sc, mt["scale"], tags)
    sc["res"], sc["ref"] = gen_mesh_pair(rng, sc, lm0, tags, plan=plan)
    r = rng.random()
    if r < 0.08:
        side = rng.randrange(2)
        sc["damage"][side] = rng.choice(["missing", "truncated", "garbage", "unsupported"])
        tags.append("damage-" + sc["damage"][side])
    return sc, tags


def gen_seq_scenario(rng):
    lm0, mt = gen_logical_mesh(rng)
    names = _mesh_names(lm0)
    sc = {"kind": "seq", "rtol": None, "atol": None, "flags": gen_flags(rng, mesh=True, seq=True),
          "incl": gen_patterns(rng, names), "excl": None, "read_as": None, "damage": [None, None]}
    sc["rtol"] = gen_tokens(rng, names, "rtol", mesh=True)
    sc["atol"] = gen_tokens(rng, names, "atol", mesh=True, scale=mt["scale"] * 1e-2)
    tags = ["seq"]
    n = rng.choice([1, 2, 3])
    m = n if rng.random() < 0.6 else rng.choice([1, 2, 3])
    rs, fs = [], []
    for i in range(max(n, m)):
        sub = []
        a, b = gen_mesh_pair(rng, sc, lm0, sub, domain_edits=(rng.random() < 0.5))
        if rng.random() < 0.6:   # most steps identical, so that single deviating steps decide
            a = {"kind": "mesh", "lm": copy.deepcopy(lm0), "topo_same": True, "moved": None}
            _store(rng, a, relabel_p=0.3)
            b = {"kind": "mesh", "lm": copy.deepcopy(lm0)}
            _store(rng, b, relabel_p=0.0)
            sub = []
        tags += [f"step-{t}" for t in sub]
        if i < n:
            rs.append(a)
        if i < m:
            fs.append(b)
    sc["res"] = {"kind": "seq", "steps": rs}
    sc["ref"] = {"kind": "seq", "steps": fs}
    if n != m:
        tags.append("seq-length-differs")
    if rng.random() < 0.05:
        sc["damage"][rng.randrange(2)] = rng.choice(["missing", "garbage"])
        tags.append("damage-seq")
    return sc, tags


def gen_misc_scenario(rng):
    """data of different kinds: table vs mesh, sequence vs single data set"""
    lm0, mt = gen_logical_mesh(rng)
    sc = {"kind": "misc", "rtol": None, "atol": None, "flags": gen_flags(rng, mesh=True, seq=True), "incl": None,
          "excl": None, "read_as": None, "damage": [None, None]}
    mesh = {"kind": "mesh", "lm": copy.deepcopy(lm0), "topo_same": True, "moved": None}
    _store(rng, mesh, relabel_p=0.0)
    which = rng.choice(["table-mesh", "mesh-table", "seq-mesh", "mesh-seq"])
    if which == "table-mesh":
        sc["res"], sc["ref"] = gen_table(rng, True), mesh
    elif which == "mesh-table":
        sc["res"], sc["ref"] = mesh, gen_table(rng, True)
    else:
        seq = {"kind": "seq", "steps": [copy.deepcopy(mesh)]}
        sc["res"], sc["ref"] = (seq, mesh) if which == "seq-mesh" else (mesh, seq)
    return sc, ["misc", which]


def gen_scenario(rng):
    r = rng.random()
    if r < 0.55:
        return gen_csv_scenario(rng)
    if r < 0.85:
        return gen_mesh_scenario(rng)
    if r < 0.96:
        return gen_seq_scenario(rng)
    return gen_misc_scenario(rng)


# ---------------------------------------------------------------- directory mode (C20)

DIR_NAMES = ["a", "b", "c", "d1", "e_x", "f"]


def gen_dir_scenario(rng):
    """{"opts": file-scenario-like option dict, "ims"/"imr": ignore-missing-*-files, "incl_files"/"excl_files",
        "files": [{"rel", "where": "both"|"res"|"ref", "sc": file scenario | None}]}"""
    names = list(CSV_NAMES)
    opts = {"rtol": gen_tokens(rng, names, "rtol"), "atol": gen_tokens(rng, names, "atol"),
            "flags": {"ign_src": rng.random() < 0.3, "ign_ref": rng.random() < 0.3, "ign_seq": rng.random() < 0.1},
            "incl": gen_patterns(rng, names[:4]), "excl": gen_patterns(rng, names[:4]) if rng.random() < 0.4 else None,
            "read_as": rng.choice([None, [DSV_READER], [DSV_READER], ["dsv:*.tbl"], [DSV_READER + ":*.tbl"]])}
    d = {"opts": opts, "ims": rng.random() < 0.4, "imr": rng.random() < 0.4,
         "incl_files": rng.choice([None, None, None, ["*.csv"], ["*a*", "*b*", "sub/*"]]),
         "excl_files": rng.choice([None, None, None, ["*b*"], ["sub/*"], ["*.tbl", "c*"]]), "files": []}
    tags = ["dir"]
    used = set()
    for _ in range(rng.choice([0, 1, 2, 3, 4, 5])):
        stem = rng.choice(DIR_NAMES)
        sub = rng.choice(["", "", "sub/", "sub/deep/"])
        where = rng.choice(["both", "both", "both", "both", "res", "ref"])
        ext = rng.choice([".csv", ".csv", ".csv", ".tbl"])
        rel = sub + stem + ext
        if rel in used:
            continue
        used.add(rel)
        if where != "both":
            d["files"].append({"rel": rel, "where": where, "sc": None})
            tags.append("file-onesided")
            continue
        ref = gen_table(rng, sniffable=True)
        res = copy.deepcopy(ref)
        sc = dict(copy.deepcopy(opts), kind="csv", damage=[None, None], res=res, ref=ref, ext=ext)
        ft = []
        apply_field_edits(rng, sc, res, ref, ft)
        if rng.random() < 0.12:
            res["rows"] += 1
            for c in res["cols"]:
                c["v"].append(c["v"][-1])
            ft.append("edit-rows")
        if rng.random() < 0.08 and not opts["read_as"] and ext == ".csv":
            sc["damage"][rng.randrange(2)] = "garbage"
            ft.append("damage-garbage")
        tags += ["file-" + t for t in ft] + ["file-both" + ext]
        d["files"].append({"rel": rel, "where": "both", "sc": sc})
    return d, tags


def dir_categories(d):
    """ground truth of `_categorize_files` from what the harness creates (relative names)"""
    def consider(rel):
        inc = True if d["incl_files"] is None else any(fnmatch.fnmatch(rel, p) for p in d["incl_files"])
        exc = False if d["excl_files"] is None else any(fnmatch.fnmatch(rel, p) for p in d["excl_files"])
        return inc and not exc

    def mapped(rel):
        for r in d["opts"]["read_as"] or []:
            pat = r[len(DSV_READER) + 1:] if r.startswith(DSV_READER) else r[4:]
            if fnmatch.fnmatch(rel, pat or "*"):
                return True
        return False
    cat = {"compared": [], "missing_src": [], "missing_ref": [], "unsupported": [], "discarded": []}
    for f in d["files"]:
        rel = f["rel"]
        if f["where"] == "both":
            if not consider(rel):
                cat["discarded"].append(rel)
            elif rel.endswith(".csv") or mapped(rel):
                cat["compared"].append(f)
            else:
                cat["unsupported"].append(rel)
        elif consider(rel):
            cat["missing_src" if f["where"] == "ref" else "missing_ref"].append(rel)
    return cat


def dir_argv(d, resdir, refdir, jp):
    a = ["dir", resdir, refdir] + option_argv(dict(d["opts"]))
    if d["ims"]:
        a.append("--ignore-missing-source-files")
    if d["imr"]:
        a.append("--ignore-missing-reference-files")
    for p in d["incl_files"] or []:
        a += ["--include-files", p]
    for p in d["excl_files"] or []:
        a += ["--exclude-files", p]
    return a + ["--junit-xml", jp]


def run_dir_scenario(d, wd: Workdir) -> dict:
    base = wd.fresh()
    try:
        resdir, refdir = os.path.join(base, "res"), os.path.join(base, "ref")
        os.makedirs(resdir)
        os.makedirs(refdir)
        readok = True
        for f in d["files"]:
            rel = f["rel"]
            stem, ext = os.path.splitext(os.path.basename(rel))
            sub = os.path.dirname(rel)
            if f["sc"] is None:
                side = resdir if f["where"] == "res" else refdir
                os.makedirs(os.path.join(side, sub), exist_ok=True)
                with open(os.path.join(side, rel), "w") as fh:
                    fh.write("u,v\n1.0,2\n2.0,3\n")
                continue
            sc = f["sc"]
            p1 = write_side(os.path.join(resdir, sub), stem, sc["res"], sc["damage"][0], ext)
            p2 = write_side(os.path.join(refdir, sub), stem, sc["ref"], sc["damage"][1], ext)
            # only files that will be read need to read back correctly
            if f in dir_categories(d)["compared"] and not read_check(sc, p1, p2):
                readok = False
        jp = os.path.join(base, "report.xml")
        out, rep = run_cli(dir_argv(d, resdir, refdir, jp), jp)
        return {"out": out, "rep": rep, "resdir": resdir, "readok": readok}
    finally:
        wd.drop(base)


def dir_line(d, resdir) -> str:
    cat = dir_categories(d)
    o = d["opts"]
    files = []
    for f in cat["compared"]:
        sc = dict(f["sc"])
        sc["flags"] = dict(sc["flags"], force_seq=False)
        m = abstract(sc, path_parts(os.path.join(resdir, f["rel"])))
        files.append(f"{esc(f['rel'])} {enc_scenario(m)}")

    def names(l):
        return " ".join([str(len(l))] + [esc(x) for x in l])
    return " ".join(["junitdir", float_table([o["rtol"], o["atol"]]), _enc_optstrs(o["rtol"]), _enc_optstrs(o["atol"]),
                     "1" if d["ims"] else "0", "1" if d["imr"] else "0", str(len(files))] + files +
                    [names(cat["missing_src"]), names(cat["missing_ref"]), names(cat["unsupported"]),
                     names(cat["discarded"])])


def parse_model_report(s: str):
    """`<exit>;<report>` of the driver -> (exit class, None | [] | sorted canonical suites)"""
    ex, _, rep = s.partition(";")
    if rep == "none":
        return ex, None
    if rep == "empty":
        return ex, []
    suites = []
    for part in rep.split("/"):
        name, counts, cases = part.split("|")
        cs_ = sorted([unesc(c.rsplit(":", 1)[0]), c.rsplit(":", 1)[1]] for c in cases.split(";")) if cases else []
        suites.append([unesc(name), [int(x) for x in counts.split(",")], cs_])
    return ex, sorted(suites)


def py_report_check(oc: str, rep):
    """what C20 demands of (exit class, parsed report), evaluated on the implementation's observables:
    -> list of violated clauses (empty = holds)"""
    bad = []
    if rep == "malformed":
        return ["report is not well-formed"]
    if rep is None:
        return ["no report file was written"]
    shows = False
    for name, counts, cases in rep:
        kinds = [k for _, k in cases]
        if counts != [len(cases), kinds.count("failure"), kinds.count("error"), kinds.count("skipped")]:
            bad.append(f"counts of suite {name!r} do not match its test cases")
        shows = shows or ("failure" in kinds or "error" in kinds)
    if (oc != "0") != shows:
        bad.append("exit status non-zero but no failure/error in the report" if oc != "0"
                   else "exit status zero but the report shows a failure/error")
    return bad


def py_expected_skipped(sc):
    """sorted names the property wants to see skipped (single pair or sequence, all domains decided), else None"""
    ev = py_eval(sc)
    if ev["exit"] is None and ev["f5"] is None:
        return None
    rt, at_ = py_parse_tols(sc["rtol"], False), py_parse_tols(sc["atol"], True)
    if rt in (None, "X") or at_ in (None, "X") or sc["damage"] != [None, None] or _unknown_reader(sc):
        return None
    res, ref = sc["res"], sc["ref"]
    if (res["kind"] == "seq") != (ref["kind"] == "seq"):
        return None
    if res["kind"] == "seq":
        n, m = len(res["steps"]), len(ref["steps"])
        if n != m and not sc["flags"].get("ign_seq") and not sc["flags"].get("force_seq"):
            return []
        pairs = list(zip(res["steps"], ref["steps"]))
    else:
        pairs = [(res, ref)]
    out = []
    for a, b in pairs:
        e = _pair_eval(sc, a, b, rt, at_)
        if e.get("exc") or e["domain"] is None:
            return None
        if e["domain"] is False:
            continue
        rn, fn = [n for n, _ in data_fields(a)], [n for n, _ in data_fields(b)]
        if sc["flags"].get("ign_src"):
            out += [n for n in fn if n not in rn]
        if sc["flags"].get("ign_ref"):
            out += [n for n in rn if n not in fn]
        out += [n for n in rn if n in fn and not _selected(sc, n)]
    return sorted(out)
