"""Common machinery of every check: build, audit, context, verdict, evidence, known findings."""
from __future__ import annotations
import collections
import hashlib
import json
import os
import random
import re
import subprocess
import sys
import time

from . import leanproc
from .leanproc import VERIF, LEAN_DIR

REPO = os.environ.get("FCV_REPO", "/repo")
ALLOWED_AXIOMS = {"propext", "Classical.choice", "Quot.sound"}
FORBIDDEN = ["sorry", "admit", "native_decide", "bv_decide", "implemented_by", "unsafe ", "maxHeartbeats 0"]
EXIT_OK, EXIT_VIOLATION, EXIT_INFRA = 0, 1, 2


def _strip_comments(src: str) -> str:
    # remove /- … -/ (nested not handled beyond one level; we do not nest) and -- … comments
    src = re.sub(r"/-.*?-/", "", src, flags=re.S)
    src = re.sub(r"--[^\n]*", "", src)
    return src


def textual_audit() -> list[str]:
    """forbidden tokens anywhere in lean/** (comments stripped)"""
    hits = []
    for root, dirs, files in os.walk(LEAN_DIR):
        dirs[:] = [d for d in dirs if d != ".lake"]
        for f in files:
            if not f.endswith(".lean"):
                continue
            p = os.path.join(root, f)
            src = _strip_comments(open(p, encoding="utf-8").read())
            for tok in FORBIDDEN:
                if tok in src:
                    hits.append(f"{os.path.relpath(p, LEAN_DIR)}: {tok.strip()}")
            if re.search(r"^\s*axiom\s", src, flags=re.M):
                hits.append(f"{os.path.relpath(p, LEAN_DIR)}: axiom")
    return hits


def run_cmd(cmd, cwd=None, timeout=3600):
    p = subprocess.run(cmd, cwd=cwd, stdout=subprocess.PIPE, stderr=subprocess.STDOUT, timeout=timeout)
    return p.returncode, p.stdout.decode(errors="replace")


class BuildLock:
    """serialises table regeneration and `lake build` across concurrently running checks (one lake project)"""

    def __enter__(self):
        import fcntl
        os.makedirs(os.path.join(LEAN_DIR, ".lake"), exist_ok=True)
        self.fh = open(os.path.join(LEAN_DIR, ".lake", "fcv-build.lock"), "w")
        fcntl.flock(self.fh, fcntl.LOCK_EX)
        return self

    def __exit__(self, *a):
        import fcntl
        fcntl.flock(self.fh, fcntl.LOCK_UN)
        self.fh.close()


def lake_build(targets: list[str]) -> tuple[bool, str]:
    rc, out = run_cmd(["lake", "build"] + targets, cwd=LEAN_DIR)
    return rc == 0, out


def props_file(prop: str) -> str:
    return os.path.join(LEAN_DIR, "FcProofs", "Props", f"{prop}.lean")


def props_modules(prop: str) -> list[str]:
    """property theorems live in FcProofs/Props/Cxx.lean and, optionally, FcProofs/Props/Cxx_<Topic>.lean"""
    d = os.path.join(LEAN_DIR, "FcProofs", "Props")
    out = []
    if os.path.exists(os.path.join(d, f"{prop}.lean")):
        out.append(f"FcProofs.Props.{prop}")
    if os.path.isdir(d):
        for f in sorted(os.listdir(d)):
            if f.startswith(prop + "_") and f.endswith(".lean"):
                out.append("FcProofs.Props." + f[:-5])
    return out


def theorem_names(prop: str) -> list[str]:
    names = []
    for m in props_modules(prop):
        p = os.path.join(LEAN_DIR, *m.split(".")) + ".lean"
        src = _strip_comments(open(p, encoding="utf-8").read())
        names += re.findall(r"^\s*theorem\s+(" + prop + r"_\w+)", src, flags=re.M)
    return names


def axioms_audit(prop: str) -> dict:
    """#print axioms on every theorem Cxx_* of the Props file -> {name: [axioms]}"""
    names = theorem_names(prop)
    if not names:
        return {}
    d = os.path.join(LEAN_DIR, ".lake", "audit")
    os.makedirs(d, exist_ok=True)
    f = os.path.join(d, f"Audit_{prop}_{os.getpid()}.lean")
    with open(f, "w") as fh:
        for m in props_modules(prop):
            fh.write(f"import {m}\n")
        for n in names:
            fh.write(f"#print axioms Fc.{n}\n")
    try:
        rc, out = run_cmd(["lake", "env", "lean", f], cwd=LEAN_DIR)
    finally:
        try:
            os.remove(f)
        except OSError:
            pass
    res = {}
    for n in names:
        m = re.search(r"'Fc\." + re.escape(n) + r"' depends on axioms: \[([^\]]*)\]", out, flags=re.S)
        if m:
            res[n] = [a.strip() for a in m.group(1).replace("\n", " ").split(",") if a.strip()]
        elif re.search(r"'Fc\." + re.escape(n) + r"' does not depend on any axioms", out):
            res[n] = []
        else:
            res[n] = None  # not found: theorem missing / build broken
    return res


class Ctx:
    def __init__(self, prop: str, tier: str, seed: int):
        self.prop, self.tier, self.seed = prop, tier, seed
        self.rng = random.Random((seed * 1000003) ^ int(prop[1:]))
        self.t0 = time.time()
        self.driver_ok = False
        self.proofs_ok = False
        self.build_log = ""
        self.evaluations = 0
        self._distinct = set()
        self.samples = []
        self.dist = collections.Counter()
        self.corr_mismatch = []      # impl != model inside hyp
        self.spec_viol = []          # impl != spec: candidate violations
        self.internal = []           # model != spec inside hyp (runtime re-check of the theorem)
        self.known_hits = collections.Counter()
        self.notes = []
        self.assumptions = []
        self.rule = ""
        self.extra = {}
        self.exhaustive = False

    # ---- budgets
    def scale(self, quick: int, thorough: int) -> int:
        return thorough if self.tier == "thorough" else quick

    # ---- lean
    def lean(self, lines: list[str]) -> list[dict]:
        if not self.driver_ok:
            raise leanproc.DriverError("driver not available")
        out = []
        CH = 20000
        for i in range(0, len(lines), CH):
            out.extend(leanproc.run_lines(lines[i:i + CH]))
        return [leanproc.parse_reply(r) for r in out]

    # ---- bookkeeping
    def case(self, key, nontrivial: bool = True, sample=None, tags=()):
        self.evaluations += 1
        for t in tags:
            self.dist[t] += 1
        if nontrivial:
            h = hashlib.blake2b(repr(key).encode(), digest_size=8).digest()
            self._distinct.add(h)
        if sample is not None and len(self.samples) < 6:
            self.samples.append(sample)

    def mismatch(self, case, impl, model, what="impl vs model"):
        self.corr_mismatch.append({"what": what, "case": case, "impl": impl, "model": model})

    def violation(self, case, impl, spec, cls=None, what=""):
        self.spec_viol.append({"what": what, "case": case, "impl": impl, "spec": spec, "class": cls})

    def inconsistent(self, case, model, spec):
        self.internal.append({"case": case, "model": model, "spec": spec})


def load_findings(prop: str) -> list[dict]:
    p = os.path.join(VERIF, "KNOWN_FINDINGS.json")
    if not os.path.exists(p):
        return []
    return [e for e in json.load(open(p))["findings"] if e["property"] == prop]


def write_replay(prop: str, name: str, payload: dict) -> str:
    d = os.path.join(VERIF, "replays")
    os.makedirs(d, exist_ok=True)
    p = os.path.join(d, f"{prop}_{name}.json")
    with open(p, "w") as fh:
        json.dump(payload, fh, indent=1, default=str)
    return p


def write_evidence(ctx: Ctx, obligations: dict, n_viol: int, trusted_base: list[str]):
    d = os.path.join(VERIF, "evidence")
    os.makedirs(d, exist_ok=True)
    names = list(obligations)
    discharged = [n for n in names if obligations[n] is not None and set(obligations[n]) <= ALLOWED_AXIOMS]
    cov = {
        "obligations": len(names),
        "discharged": len(discharged) if ctx.proofs_ok else 0,
        "checker_cmd": f"cd lean && lake build FcProofs.Props.{ctx.prop} && lake env lean <#print axioms on every {ctx.prop}_* theorem>",
        "trusted_base": trusted_base,
        "theorems": {n: obligations[n] for n in names},
        "evaluations": ctx.evaluations,
        "distinct_nontrivial": len(ctx._distinct),
        "rule": ctx.rule,
        "samples": ctx.samples[:6] if ctx.samples else [{"note": "no correspondence case was run"}],
        "input_distribution": dict(ctx.dist),
        "correspondence_mismatches": len(ctx.corr_mismatch),
        "candidate_violations": len(ctx.spec_viol),
        "known_class_hits": dict(ctx.known_hits),
        "driver": "compiled fcdrv" if leanproc.driver_cmd()[0].endswith("fcdrv") else "lake env lean --run",
        "exhaustive": bool(ctx.exhaustive),
        "notes": ctx.notes,
    }
    cov.update(ctx.extra)
    ev = {
        "property_id": ctx.prop,
        "tier": ctx.tier,
        "seed": ctx.seed,
        "level": "proof",
        "coverage": cov,
        "assumptions": ctx.assumptions,
        "wall_s": round(time.time() - ctx.t0, 2),
        "violations": n_viol,
    }
    tmp = os.path.join(d, f".{ctx.prop}.{os.getpid()}.tmp")
    with open(tmp, "w") as fh:
        json.dump(ev, fh, indent=1, default=str)
    os.replace(tmp, os.path.join(d, f"{ctx.prop}.json"))


def run_named_witness(entry) -> tuple[bool, str]:
    """witness = {"fn": "F1", "file": "corpus/witnesses.py"}: run the function against the
    implementation importable as `fieldcompare` (sys.path[0] is /repo)"""
    import importlib.util
    import contextlib
    import io
    w = entry["witness"]
    spec = importlib.util.spec_from_file_location("fcv_witnesses", os.path.join(VERIF, w["file"]))
    mod = importlib.util.module_from_spec(spec)
    spec.loader.exec_module(mod)
    with contextlib.redirect_stdout(io.StringIO()):
        fails, detail = getattr(mod, w["fn"])()
    return bool(fails), detail
