"""A tiny evaluator for the decision functions over status enums that the table extractors read (`__bool__` of the status
enums, the helper of `TestSuite.__bool__`, `_merged_result`): the tables are obtained by EVALUATING the function body on every
member (pair of members) instead of matching one spelling of it, so that `x not in [A, B]`, `x not in {A, B}`,
`x is not A and x is not B`, an elif chain, a loop over the priorities, a result variable, renamed parameters … all give the
table of the decision they compute.  Nothing of fieldcompare is imported: the source text is parsed (ast) and interpreted here.

Understood (anything else raises `Unsupported`, which the extractors turn into their extraction error => frozen fall-back,
broken obligation - never a guessed table):
  statements   docstring, pass, assignment to a name / tuple of names (plain, annotated), bare annotation, if/elif/else,
               `for <name or tuple of names> in <list/tuple/set value>` (no else; `break`/`continue` are not supported),
               return, nested def (a closure that may be called)
  expressions  constants, names, `Enum.member` (an opaque symbol: equal to itself only), `== != is (is not) in (not in)`
               (chains too), `and or not`, conditional expression, tuple / list / set displays, comprehensions and generator
               expressions with one `for` and filters, `any all bool len tuple list set`, calls of nested defs and of the module-level
               functions handed in (`funcs`) with positional arguments.
Enum members are symbols `Sym(cls, name)`; for an Enum class without its own `__eq__`/`__hash__` equality is identity, which is
what `Sym.__eq__` implements - the extractors check that the class defines neither before they use this evaluator."""
from __future__ import annotations
import ast


class Unsupported(ValueError):
    pass


class Sym:
    __slots__ = ("cls", "name")

    def __init__(self, cls: str, name: str):
        self.cls, self.name = cls, name

    def __eq__(self, other):
        return isinstance(other, Sym) and (self.cls, self.name) == (other.cls, other.name)

    def __ne__(self, other):
        return not self.__eq__(other)

    def __hash__(self):
        return hash((self.cls, self.name))

    def __bool__(self):
        raise Unsupported(f"truth value of {self.cls}.{self.name} (would call its __bool__)")

    def __repr__(self):
        return f"{self.cls}.{self.name}"


class _Return(Exception):
    def __init__(self, value):
        self.value = value


class _Closure:
    def __init__(self, fn, env):
        self.fn, self.env = fn, env


_MAX_STEPS = 20000


class Evaluator:
    def __init__(self, enums: dict, funcs: dict | None = None):
        """enums: {class name: [member names]}; funcs: {name: ast.FunctionDef} module-level functions that may be called"""
        self.enums, self.funcs, self.steps = enums, dict(funcs or {}), 0

    # ------------------------------------------------------------------ entry
    def call(self, fn: ast.FunctionDef, args: list, outer: dict | None = None):
        a = fn.args
        if a.vararg or a.kwarg or a.kwonlyargs or a.posonlyargs:
            raise Unsupported(f"{fn.name}: only plain positional parameters")
        params = [p.arg for p in a.args]
        if len(args) > len(params) or len(args) < len(params) - len(a.defaults):
            raise Unsupported(f"{fn.name}: called with {len(args)} argument(s)")
        env = dict(outer or {})
        for p, v in zip(params, args):
            env[p] = v
        for p, d in zip(params[len(params) - len(a.defaults):], a.defaults):
            if p not in env or params.index(p) >= len(args):
                env[p] = self.expr(d, dict(outer or {}))
        try:
            self.block(fn.body, env)
        except _Return as r:
            return r.value
        return None

    # ------------------------------------------------------------------ statements
    def block(self, stmts, env):
        for s in stmts:
            self.stmt(s, env)

    def stmt(self, s, env):  # noqa: C901
        self.steps += 1
        if self.steps > _MAX_STEPS:
            raise Unsupported("evaluation does not terminate within the step budget")
        if isinstance(s, ast.Pass) or (isinstance(s, ast.Expr) and isinstance(s.value, ast.Constant)):
            return
        if isinstance(s, ast.FunctionDef):
            env[s.name] = _Closure(s, env)
            return
        if isinstance(s, ast.Return):
            raise _Return(self.expr(s.value, env) if s.value is not None else None)
        if isinstance(s, ast.Assign) and len(s.targets) == 1:
            self.bind(s.targets[0], self.expr(s.value, env), env)
            return
        if isinstance(s, ast.AnnAssign):
            if s.value is not None:
                self.bind(s.target, self.expr(s.value, env), env)
            return
        if isinstance(s, ast.If):
            self.block(s.body if self.truth(self.expr(s.test, env)) else s.orelse, env)
            return
        if isinstance(s, ast.For) and not s.orelse:
            for item in self.iterate(self.expr(s.iter, env)):
                self.bind(s.target, item, env)
                self.block(s.body, env)
            return
        raise Unsupported(f"statement {type(s).__name__}")

    def bind(self, target, value, env):
        if isinstance(target, ast.Name):
            env[target.id] = value
            return
        if isinstance(target, (ast.Tuple, ast.List)) and all(isinstance(t, ast.Name) for t in target.elts):
            items = list(self.iterate(value))
            if len(items) != len(target.elts):
                raise Unsupported("unpacking of a value of another length")
            for t, v in zip(target.elts, items):
                env[t.id] = v
            return
        raise Unsupported("assignment target")

    # ------------------------------------------------------------------ expressions
    @staticmethod
    def truth(v) -> bool:
        if isinstance(v, Sym):
            raise Unsupported(f"truth value of {v!r} (would call its __bool__)")
        if v is None or isinstance(v, (bool, int, str, tuple, list, set, frozenset)):
            return bool(v)
        raise Unsupported(f"truth value of {type(v).__name__}")

    @staticmethod
    def iterate(v):
        if isinstance(v, (tuple, list)):
            return list(v)
        if isinstance(v, (set, frozenset)):
            return sorted(v, key=repr)      # only used by any/all/membership-like loops: order cannot matter for a set
        raise Unsupported(f"iteration over {type(v).__name__}")

    def expr(self, e, env):  # noqa: C901, PLR0911, PLR0912
        self.steps += 1
        if self.steps > _MAX_STEPS:
            raise Unsupported("evaluation does not terminate within the step budget")
        if isinstance(e, ast.Constant):
            if e.value is None or isinstance(e.value, (bool, int, str)):
                return e.value
            raise Unsupported(f"constant {e.value!r}")
        if isinstance(e, ast.Name):
            if e.id in env:
                return env[e.id]
            if e.id in self.funcs:
                return _Closure(self.funcs[e.id], {})
            raise Unsupported(f"unbound name {e.id}")
        if isinstance(e, ast.Attribute):
            if isinstance(e.value, ast.Name) and e.value.id in self.enums and e.value.id not in env:
                if e.attr not in self.enums[e.value.id]:
                    raise Unsupported(f"{e.value.id}.{e.attr}: no such member")
                return Sym(e.value.id, e.attr)
            raise Unsupported("attribute access")
        if isinstance(e, ast.UnaryOp) and isinstance(e.op, ast.Not):
            return not self.truth(self.expr(e.operand, env))
        if isinstance(e, ast.BoolOp):
            val = None
            for v in e.values:
                val = self.expr(v, env)
                t = self.truth(val)
                if isinstance(e.op, ast.And) and not t:
                    return val
                if isinstance(e.op, ast.Or) and t:
                    return val
            return val
        if isinstance(e, ast.IfExp):
            return self.expr(e.body if self.truth(self.expr(e.test, env)) else e.orelse, env)
        if isinstance(e, ast.Compare):
            left = self.expr(e.left, env)
            for op, right_e in zip(e.ops, e.comparators):
                right = self.expr(right_e, env)
                if not self.compare(op, left, right):
                    return False
                left = right
            return True
        if isinstance(e, (ast.Tuple, ast.List)):
            if any(isinstance(x, ast.Starred) for x in e.elts):
                raise Unsupported("starred display")
            vals = [self.expr(x, env) for x in e.elts]
            return tuple(vals) if isinstance(e, ast.Tuple) else vals
        if isinstance(e, ast.Set):
            return frozenset(self.hashable(self.expr(x, env)) for x in e.elts)
        if isinstance(e, (ast.ListComp, ast.GeneratorExp, ast.SetComp)):
            if len(e.generators) != 1 or e.generators[0].is_async:
                raise Unsupported("comprehension with several `for`s")
            g, out, inner = e.generators[0], [], dict(env)
            for item in self.iterate(self.expr(g.iter, env)):
                self.bind(g.target, item, inner)
                if all(self.truth(self.expr(c, inner)) for c in g.ifs):
                    out.append(self.expr(e.elt, inner))
            return frozenset(self.hashable(x) for x in out) if isinstance(e, ast.SetComp) else out
        if isinstance(e, ast.Call):
            return self.call_expr(e, env)
        raise Unsupported(f"expression {type(e).__name__}")

    @staticmethod
    def hashable(v):
        if v is None or isinstance(v, (bool, int, str, Sym)):
            return v
        raise Unsupported("set element")

    def compare(self, op, a, b) -> bool:
        scalar = lambda v: v is None or isinstance(v, (bool, int, str, Sym))      # noqa: E731
        if isinstance(op, (ast.Eq, ast.NotEq)):
            if not (scalar(a) and scalar(b)):
                raise Unsupported("== on containers")
            return (a == b) if isinstance(op, ast.Eq) else (a != b)
        if isinstance(op, (ast.Is, ast.IsNot)):
            # identity: decided for None / enum members / bools; ints and strs are not compared by identity here
            if not all(v is None or isinstance(v, (Sym, bool)) for v in (a, b)):
                raise Unsupported("`is` on a value that is not None / an enum member / a bool")
            same = (a is b) if (a is None or b is None or isinstance(a, bool) or isinstance(b, bool)) else (a == b)
            return same if isinstance(op, ast.Is) else not same
        if isinstance(op, (ast.In, ast.NotIn)):
            if not scalar(a):
                raise Unsupported("membership of a container")
            if isinstance(b, (tuple, list, set, frozenset)):
                found = any(scalar(x) and x == a for x in b)
                return found if isinstance(op, ast.In) else not found
            raise Unsupported(f"membership in {type(b).__name__}")
        raise Unsupported(f"comparison {type(op).__name__}")

    def call_expr(self, e: ast.Call, env):
        if e.keywords or any(isinstance(a, ast.Starred) for a in e.args) or not isinstance(e.func, ast.Name):
            raise Unsupported("call")
        name = e.func.id
        if name not in env and name not in self.funcs:
            if name in ("any", "all") and len(e.args) == 1:
                items = [self.truth(x) for x in self.iterate(self.expr(e.args[0], env))]
                return any(items) if name == "any" else all(items)
            if name == "bool" and len(e.args) == 1:
                return self.truth(self.expr(e.args[0], env))
            if name == "len" and len(e.args) == 1:
                return len(self.iterate(self.expr(e.args[0], env)))
            if name in ("tuple", "list") and len(e.args) == 1:
                items = self.iterate(self.expr(e.args[0], env))
                return tuple(items) if name == "tuple" else list(items)
            if name in ("set", "frozenset") and len(e.args) == 1:
                return frozenset(self.hashable(x) for x in self.iterate(self.expr(e.args[0], env)))
            raise Unsupported(f"call of {name}")
        f = env[name] if name in env else _Closure(self.funcs[name], {})
        if not isinstance(f, _Closure):
            raise Unsupported(f"call of the value {name}")
        return self.call(f.fn, [self.expr(a, env) for a in e.args], f.env)


def defines_own_eq(cls: ast.ClassDef) -> bool:
    return any(isinstance(n, ast.FunctionDef) and n.name in ("__eq__", "__ne__", "__hash__") for n in cls.body)


def module_functions(tree: ast.Module) -> dict:
    return {n.name: n for n in tree.body if isinstance(n, ast.FunctionDef)}


def falsy_members(ev: Evaluator, fn: ast.FunctionDef, cls: str, members: list, outer: dict | None = None) -> list:
    """the members `m` for which the one-parameter decision function `fn(m)` returns False, in member order"""
    out = []
    for m in members:
        r = ev.call(fn, [Sym(cls, m)], outer)
        if not isinstance(r, bool):
            raise Unsupported(f"{fn.name}({cls}.{m}) does not return a bool")
        if not r:
            out.append(m)
    return out
