"""C15, phase 6 package G: directed batches for dimensions of the quantifier ("all pairs of sequences of lengths 1..n,
every position of a deviating step, all three sequence options, repeated iteration of the same sequence object";
".pvd, XDMF"; "a sequence never compares equal to a single data set") that harness/corr/c15.py samples at one point
only.  See notes/PHASE6_G2_C15.md.  `m` is the module harness/corr/c15.py (passed in to avoid a circular import).

  F2  CLI on .pvd files whose two PATHS (res.pvd / ref.pvd and the piece names) are the same for every case of the batch
      and re-written between the cases (process-global caches keyed by a file name); directed features: the SAME file in
      both roles, lengths 11/12/26 with piece names that do not sort like their positions, a piece file referenced by
      several steps, pieces in sub-directories / './' / absolute, time values unsorted / duplicated / fractional, meshes
      that change from step to step, invocation with cwd-relative names.  Verdict: Lean driver (`c15file`) + the
      property oracle of `c15.check_file`; per-step facts measured with the single-file CLI on the two pieces.
  FX  (quick tier too) CLI on XDMF time series (HDF5 / inlined XML heavy data): lengths 1..4, either side longer, all
      option combinations, deviation in result or reference at first/middle/last; XDMF sequence vs a single data set
      (.vtu and non-temporal .xdmf) in either role.  Same verdict sources.
  I2  API: SEVERAL sequence objects alive at once - two objects over the same file, over different files, .pvd + XDMF -
      with interleaved next() calls, optionally an unrelated read (another sequence iterated completely / a single
      file) between any two calls; every object must yield ITS steps 0..n-1 in order.  Lean driver (`c15iter`) on the
      projection of the history onto each object + Python oracle.
"""
from __future__ import annotations
import itertools
import os
import shutil
import tempfile


# ------------------------------------------------------------------------------------------------ files
def vtu_strip(step: int, variant: int, ncells: int) -> str:
    """ASCII .vtu: a strip of `ncells` quads; point field u (depends on the step), w; cell field 'step'.
    variant 0 base; 1 one value of u changed; 2 a point moved; 3 field w absent"""
    npts = 2 * (ncells + 1)
    pts = []
    for i in range(ncells + 1):
        x = float(i) if not (variant == 2 and i == 1) else 1.5
        pts += [x, 0.0, 0.0, x, 1.0, 0.0]
    conn, offs = [], []
    for c in range(ncells):
        conn += [2 * c, 2 * c + 2, 2 * c + 3, 2 * c + 1]
        offs.append(4 * (c + 1))
    u = [step + 0.25 * k for k in range(npts)]
    if variant == 1:
        u[2] += 0.5
    w = "" if variant == 3 else f'<DataArray type="Float64" Name="w" format="ascii">{" ".join(str(k) for k in range(npts))}</DataArray>'
    j = lambda xs: " ".join(map(str, xs))      # noqa: E731
    return f'''<?xml version="1.0"?>
<VTKFile type="UnstructuredGrid" version="0.1" byte_order="LittleEndian">
<UnstructuredGrid><Piece NumberOfPoints="{npts}" NumberOfCells="{ncells}">
<Points><DataArray type="Float64" NumberOfComponents="3" format="ascii">{j(pts)}</DataArray></Points>
<Cells><DataArray type="Int64" Name="connectivity" format="ascii">{j(conn)}</DataArray>
<DataArray type="Int64" Name="offsets" format="ascii">{j(offs)}</DataArray>
<DataArray type="UInt8" Name="types" format="ascii">{j([9] * ncells)}</DataArray></Cells>
<PointData><DataArray type="Float64" Name="u" format="ascii">{j(u)}</DataArray>{w}</PointData>
<CellData><DataArray type="Float64" Name="step" format="ascii">{j([step] * ncells)}</DataArray></CellData>
</Piece></UnstructuredGrid></VTKFile>
'''


def pvd_text(steps) -> str:
    """steps = [{"file":…, "t": time value}]"""
    return ('<?xml version="1.0"?>\n<VTKFile type="Collection" version="0.1">\n<Collection>\n'
            + "".join(f'<DataSet timestep="{st.get("t", i)}" group="" part="0" file="{st["file"]}"/>\n'
                      for i, st in enumerate(steps))
            + "</Collection>\n</VTKFile>\n")


class SeqDir:
    """ONE directory for a whole batch: every case re-writes the same paths"""

    def __init__(self):
        self.dir = tempfile.mkdtemp(prefix="fcv_c15g_")
        self._cwd = os.getcwd()

    def wipe(self):
        os.chdir(self._cwd)
        for name in os.listdir(self.dir):
            p = os.path.join(self.dir, name)
            shutil.rmtree(p) if os.path.isdir(p) and not os.path.islink(p) else os.remove(p)

    def write(self, rel: str, text: str) -> str:
        p = os.path.join(self.dir, rel)
        os.makedirs(os.path.dirname(p), exist_ok=True)
        with open(p, "w") as fh:
            fh.write(text)
        return p

    def close(self):
        os.chdir(self._cwd)
        shutil.rmtree(self.dir, ignore_errors=True)


def write_pvd(sd: SeqDir, name: str, steps) -> str:
    """steps = [{"file", "s", "v", "c", "t"?, "abs"?}]: writes the pieces and the collection; -> path of the .pvd"""
    entries = []
    for st in steps:
        sd.write(st["file"][2:] if st["file"].startswith("./") else st["file"],
                 vtu_strip(st["s"], st.get("v", 0), st.get("c", 1)))
        f = os.path.join(sd.dir, st["file"]) if st.get("abs") else st["file"]
        entries.append(dict(st, file=f))
    return sd.write(name, pvd_text(entries))


_fact_cache = {}


def piece_fact(m, sd: SeqDir, a, b) -> bool:
    """external fact: does the single-file comparison of two pieces pass?  measured with the CLI, once per kind pair"""
    key = ((a["s"], a.get("v", 0), a.get("c", 1)), (b["s"], b.get("v", 0), b.get("c", 1)))
    if key not in _fact_cache:
        pa = sd.write("fact_probe/a.vtu", vtu_strip(*key[0]))
        pb = sd.write("fact_probe/b.vtu", vtu_strip(*key[1]))
        rc, _ = m.run_cli(["file", pa, pb])
        _fact_cache[key] = (rc == 0)
    return _fact_cache[key]


# ------------------------------------------------------------------------------------------------ F2
def _steps(n, prefix, pad=False, v=None, cells=None, sub=None):
    out = []
    for i in range(n):
        name = f"{prefix}{i:02d}.vtu" if pad else f"{prefix}{i}.vtu"
        if sub:
            name = sub[i % len(sub)] + name
        out.append({"file": name, "s": i, "v": (v or {}).get(i, 0), "c": cells[i % len(cells)] if cells else 1})
    return out


def f2_directed():
    cases = []

    def add(tag, res, ref, ignore=False, force=False, **kw):
        cases.append((tag, dict({"part": "F2", "res": res, "ref": ref, "ignore": ignore, "force": force}, **kw)))

    # the SAME file in both roles (identity comparison of a sequence)
    for n in (1, 2, 3, 5):
        for ign, force in (itertools.product([False, True], repeat=2) if n == 3 else [(False, False)]):
            add("same-file", _steps(n, "s"), None, ign, force, same_file=True)
    add("same-file", _steps(4, "s"), None, same_file=True, cwd=True)
    # long sequences; the result's piece names do not sort like their positions (s10 < s2), the reference's do
    for n in (11, 12, 26):
        for p in (None, 0, 9, 10, n - 1):
            add("long", _steps(n, "s", v={p: 1} if p is not None else None), _steps(n, "t", pad=True))
        add("long", _steps(n, "s", pad=True), _steps(n, "t", v={n - 1: 2}))
    for ign, force in itertools.product([False, True], repeat=2):
        add("long", _steps(12, "s"), _steps(11, "t", pad=True), ign, force)
        add("long", _steps(11, "s"), _steps(13, "t", pad=True, v={12: 1}), ign, force)
        add("long", _steps(13, "s", v={10: 1}), _steps(11, "t", pad=True), ign, force)
    # a piece file referenced by several steps (A B A, A A, …)
    A, B, C = ({"file": f"{x}.vtu", "s": k, "v": 0, "c": 1} for k, x in enumerate("abc"))
    A2, B2 = dict(A, file="a2.vtu"), dict(B, file="b2.vtu")
    add("repeated-piece", [A, B, A], [A2, B2, A2])
    add("repeated-piece", [A, A], [A2, A2])
    add("repeated-piece", [A, B, A], [A2, B2, B2])                     # deviation at the LAST step only
    add("repeated-piece", [B, A, A, C], [B2, A2, dict(A2, file="a3.vtu", v=1), dict(C, file="c2.vtu")])
    add("repeated-piece", [A, B, A, B, A], [A2, B2, A2], True, False)
    add("repeated-piece", [A, B, A], [A, B, A], same_names=True)        # result and reference name the same pieces
    # pieces in sub-directories, './', absolute
    subs = ["sub/", "sub/deeper/", "./", ""]
    add("piece-paths", _steps(4, "s", sub=subs), _steps(4, "t", sub=subs[::-1]))
    add("piece-paths", _steps(4, "s", sub=subs, v={3: 1}), _steps(4, "t", sub=subs[::-1]))
    add("piece-paths", [dict(s, abs=True) for s in _steps(3, "s")], _steps(3, "t", sub=["x y/"], v={0: 1}))
    add("piece-paths", [dict(s, abs=(s["s"] == 1)) for s in _steps(3, "s", sub=["sub/"])], _steps(3, "t"), cwd=True)
    # time values: unsorted, duplicated, fractional, negative (steps are compared by POSITION)
    for ts in ([3, 1, 2], [0, 0, 1], [2, 1, 0], [0.5, 0.25, -1.0], [10, 9, 100, 11]):
        n = len(ts)
        res = [dict(s, t=t) for s, t in zip(_steps(n, "s"), ts)]
        add("time-values", res, _steps(n, "t"))
        add("time-values", res, [dict(s, t=t) for s, t in zip(_steps(n, "t", v={n - 1: 1}), sorted(ts))])
    # meshes that change from step to step
    add("step-meshes", _steps(5, "s", cells=[1, 2, 3]), _steps(5, "t", cells=[1, 2, 3]))
    add("step-meshes", _steps(5, "s", cells=[3, 1, 2], v={4: 1}), _steps(5, "t", cells=[3, 1, 2]))
    add("step-meshes", _steps(4, "s", cells=[1, 2]), _steps(4, "t", cells=[1, 2, 2, 2]))     # the mesh of step 2 differs
    add("step-meshes", _steps(3, "s", cells=[2, 1, 4]), _steps(2, "t", cells=[2, 1]), True, False)
    # invocation with cwd-relative names
    add("cwd-relative", _steps(3, "s"), _steps(3, "t"), cwd=True)
    add("cwd-relative", _steps(3, "s", v={2: 1}), _steps(3, "t"), cwd=True, dot=True)
    add("cwd-relative", _steps(2, "s"), _steps(3, "t"), True, True, cwd=True)
    return cases


def f2_random(rng, n):
    cases = []
    for _ in range(n):
        nres = rng.choice([1, 2, 3, 4, 7, 10, 11, 12, 13])
        nref = nres if rng.random() < 0.55 else max(1, nres + rng.choice([-2, -1, 1, 2]))
        mcom = min(nres, nref)
        cells = rng.choice([None, None, [1, 2, 3], [2, 1]])
        sub = rng.choice([None, None, ["sub/", ""], ["./"]])
        vres, vref = {}, {}
        r = rng.random()
        if r < 0.5:
            (vres if rng.random() < 0.5 else vref)[rng.choice([0, mcom - 1, rng.randrange(mcom)])] = rng.choice([1, 2, 3])
        elif r < 0.6 and max(nres, nref) > mcom:
            (vres if nres > nref else vref)[max(nres, nref) - 1] = 1
        res = _steps(nres, "s", pad=rng.random() < 0.3, v=vres, cells=cells, sub=sub)
        ref = _steps(nref, "t", pad=rng.random() < 0.7, v=vref, cells=cells, sub=sub)
        if rng.random() < 0.3:
            ts = [rng.choice([0, 1, 2, 5, 0.5]) for _ in range(nres)]
            res = [dict(s, t=t) for s, t in zip(res, ts)]
        case = {"part": "F2", "res": res, "ref": ref, "ignore": rng.random() < 0.4, "force": rng.random() < 0.4}
        if rng.random() < 0.25:
            case["cwd"] = True
        if rng.random() < 0.12:
            case.update(ref=None, same_file=True)
        cases.append(("random", case))
    return cases


def run_f2(m, sd: SeqDir, case):
    """-> (observation, facts, the case in the shape `c15.check_file` / `c15.enc_file` read).
    `prior` (attached to a reported case): the case that used the same paths immediately before - run first, result ignored"""
    if case.get("prior"):
        run_f2(m, sd, {k: v for k, v in case["prior"].items() if k != "prior"})
    sd.wipe()
    res = case["res"]
    a = write_pvd(sd, "res.pvd", res)
    if case.get("same_file"):
        ref, b = res, a
    else:
        ref = case["ref"]
        if case.get("same_names"):
            b = sd.write("ref.pvd", pvd_text(ref))       # names the pieces already written for the result
        else:
            b = write_pvd(sd, "ref.pvd", ref)
    if case.get("cwd"):
        os.chdir(sd.dir)
        pre = "./" if case.get("dot") else ""
        a, b = pre + os.path.basename(a), pre + os.path.basename(b)
    argv = ["file", a, b] + ([m.OPT_FLAGS["ignore"]] if case["ignore"] else []) + ([m.OPT_FLAGS["force"]] if case["force"] else [])
    try:
        rc, steps = m.run_cli(argv)
    finally:
        os.chdir(sd._cwd)
    facts = [piece_fact(m, sd, x, y) for x, y in zip(res, ref)]
    view = dict(case, ref=ref)
    return {"exit": rc, "steps": steps}, facts, view


def part_F2(ctx, m):
    cases = f2_directed() + f2_random(ctx.rng, ctx.scale(40, 2500))
    sd = SeqDir()
    try:
        obs = [run_f2(m, sd, c) for _, c in cases]
    finally:
        sd.close()
    lines = [m.enc_file(view, facts) for _, facts, view in obs]
    reps = ctx.lean(lines) if ctx.driver_ok else [None] * len(cases)
    prev = None
    for (tag, c), (got, facts, view), rep, line in zip(cases, obs, reps, lines):
        nres, nref = len(view["res"]), len(view["ref"])
        ctx.case(("F2", line, repr(c)), nontrivial=True,
                 tags=["F2-" + tag, "F2-rewritten-paths", f"F2-ignore={int(c['ignore'])}", f"F2-force={int(c['force'])}",
                       "F2-len-" + ("eq" if nres == nref else ("res-longer" if nres > nref else "ref-longer")),
                       "F2-n>10" if max(nres, nref) > 10 else "F2-n<=10", f"F2-exit-{got['exit']}"]
                 + (["F2-cwd-relative"] if c.get("cwd") else []) + (["F2-same-file-both-roles"] if c.get("same_file") else []),
                 sample=None)
        # a reported case names its predecessor on the same paths, so that the replay is self-contained
        check_f2(ctx, m, dict(c, prior=prev) if prev is not None else c, got, facts, view, rep)
        prev = c


def check_f2(ctx, m, c, got, facts, view, rep):
    class _Fwd:      # `c15.check_file` reports with the case it is given: report the replayable one
        def __getattr__(self, k):
            return getattr(ctx, k)

        def violation(self, case, impl, spec, cls=None, what=""):
            ctx.violation(c, impl, spec, cls, what)

        def mismatch(self, case, impl, model, what="impl vs model"):
            ctx.mismatch(c, impl, model, what)
    m.check_file(_Fwd(), view, got, facts, rep)


# ------------------------------------------------------------------------------------------------ FX
def _xdmf_write(name, n, devs, fmt, offset=0):
    import meshio
    import numpy as np
    pts = np.array([[0.0, 0.0], [1.0, 0.0], [1.0, 1.0], [0.0, 1.0]])
    cells = [("quad", np.array([[0, 1, 2, 3]]))]
    with meshio.xdmf.TimeSeriesWriter(name, data_format=fmt) as w:
        w.write_points_cells(pts, cells)
        for s in range(n):
            u = np.array([offset + s + 0.25 * k for k in range(4)])
            if s in devs:
                u[1] += 0.5
            w.write_data(float(s), point_data={"u": u}, cell_data={"step": [np.array([float(offset + s)])]})


_xfact = {}


def _xdmf_single(name, dev: bool):
    """a NON-temporal .xdmf file (one data set) carrying the data of step 0"""
    import meshio
    import numpy as np
    u = np.array([0.25 * k for k in range(4)])
    if dev:
        u[1] += 0.5
    meshio.Mesh(np.array([[0.0, 0.0], [1.0, 0.0], [1.0, 1.0], [0.0, 1.0]]), [("quad", np.array([[0, 1, 2, 3]]))],
                point_data={"u": u}, cell_data={"step": [np.array([0.0])]}).write(name)


def xdmf_fact(m, fmt, da: bool, db: bool) -> bool:
    """external fact: does the comparison of ONE step with / without the deviation pass?  measured with the CLI on two
    single (non-temporal) data sets carrying the same values - not through the sequence machinery under test"""
    key = (da, db)
    if key not in _xfact:
        _xdmf_single("fa_single.xdmf", da)
        _xdmf_single("fb_single.xdmf", db)
        rc, _ = m.run_cli(["file", "fa_single.xdmf", "fb_single.xdmf"])
        _xfact[key] = (rc == 0)
    return _xfact[key]


def fx_cases(rng, fmts, n_random):
    cases = []
    f0 = fmts[0]
    for n in (1, 2, 3, 4):
        for p in sorted({0, n // 2, n - 1}):
            cases.append(("position", {"part": "FX", "fmt": f0, "nres": n, "nref": n, "dres": [p], "dref": [], "ignore": False, "force": False}))
            cases.append(("position", {"part": "FX", "fmt": fmts[-1], "nres": n, "nref": n, "dres": [], "dref": [p], "ignore": False, "force": False}))
        cases.append(("identical", {"part": "FX", "fmt": fmts[n % len(fmts)], "nres": n, "nref": n, "dres": [], "dref": [], "ignore": False, "force": False}))
    for (nres, nref), (ign, force) in itertools.product([(2, 3), (3, 2), (1, 3), (4, 1)], itertools.product([False, True], repeat=2)):
        mcom = min(nres, nref)
        cases.append(("lengths", {"part": "FX", "fmt": f0, "nres": nres, "nref": nref, "dres": [], "dref": [], "ignore": ign, "force": force}))
        cases.append(("lengths", {"part": "FX", "fmt": f0, "nres": nres, "nref": nref, "dres": [mcom - 1], "dref": [], "ignore": ign, "force": force}))
        # deviation only beyond the common range
        cases.append(("lengths", {"part": "FX", "fmt": f0, "nres": nres, "nref": nref, "dres": [nres - 1] if nres > nref else [],
                                  "dref": [nref - 1] if nref > nres else [], "ignore": ign, "force": force}))
    for _ in range(n_random):
        nres, nref = rng.randint(1, 5), rng.randint(1, 5)
        cases.append(("random", {"part": "FX", "fmt": rng.choice(fmts), "nres": nres, "nref": nref,
                                 "dres": sorted({rng.randrange(nres)} if rng.random() < 0.4 else set()),
                                 "dref": sorted({rng.randrange(nref)} if rng.random() < 0.3 else set()),
                                 "ignore": rng.random() < 0.4, "force": rng.random() < 0.4}))
    return cases


def run_fx(m, case):
    """(inside the working directory of the batch) -> (observation, facts, view for check_file)"""
    _xdmf_write("res.xdmf", case["nres"], set(case["dres"]), case["fmt"])
    _xdmf_write("ref.xdmf", case["nref"], set(case["dref"]), case["fmt"])
    argv = ["file", "res.xdmf", "ref.xdmf"] + ([m.OPT_FLAGS["ignore"]] if case["ignore"] else []) \
        + ([m.OPT_FLAGS["force"]] if case["force"] else [])
    rc, steps = m.run_cli(argv)
    facts = [xdmf_fact(m, case["fmt"], i in case["dres"], i in case["dref"]) for i in range(min(case["nres"], case["nref"]))]
    view = dict(case, res=[0] * case["nres"], ref=[0] * case["nref"])
    return {"exit": rc, "steps": steps}, facts, view


def run_fx_mixed(m, case):
    import meshio
    import numpy as np
    _xdmf_write("seq.xdmf", case["n"], set(), case["fmt"])
    if case["single"] == "vtu":
        with open("single.vtu", "w") as fh:
            fh.write(vtu_strip(0, 0, 1))
        single = "single.vtu"
    else:
        meshio.Mesh(np.array([[0.0, 0.0], [1.0, 0.0], [1.0, 1.0], [0.0, 1.0]]), [("quad", np.array([[0, 1, 2, 3]]))],
                    point_data={"u": np.array([0.25 * k for k in range(4)])},
                    cell_data={"step": [np.array([0.0])]}).write("single.xdmf")
        single = "single.xdmf"
    pair = ["seq.xdmf", single] if case["order"] == 0 else [single, "seq.xdmf"]
    return m.run_cli(["file"] + pair + case["flags"])


def part_FX(ctx, m):
    from fcv import xdmfseq_p5c as X
    fmts = X.available_formats()
    if not fmts:
        ctx.notes.append("meshio not importable: XDMF CLI part (FX) skipped")
        return
    fmts = [f for f in fmts if f in ("HDF", "XML")] or fmts
    cases = fx_cases(ctx.rng, fmts, ctx.scale(20, 1500))
    d = tempfile.mkdtemp(prefix="fcv_c15gx_")
    cwd = os.getcwd()
    mixed = []
    try:
        os.chdir(d)      # meshio's TimeSeriesWriter stores the heavy-data file name relative to the cwd
        obs = [run_fx(m, c) for _, c in cases]
        for n, single, order, flags in itertools.product((1, 3), ("vtu", "xdmf"), (0, 1),
                                                         ([], [m.OPT_FLAGS["ignore"], m.OPT_FLAGS["force"]])):
            c = {"part": "FX-mixed", "fmt": fmts[0], "n": n, "single": single, "order": order, "flags": flags}
            mixed.append((c, run_fx_mixed(m, c)))
    finally:
        os.chdir(cwd)
        shutil.rmtree(d, ignore_errors=True)
    lines = [m.enc_file(view, facts) for _, facts, view in obs]
    reps = ctx.lean(lines) if ctx.driver_ok else [None] * len(cases)
    for (tag, c), (got, facts, view), rep, line in zip(cases, obs, reps, lines):
        ctx.case(("FX", line, repr(c)), nontrivial=True,
                 tags=["FX-" + tag, "FX-xdmf-" + c["fmt"], f"FX-ignore={int(c['ignore'])}", f"FX-force={int(c['force'])}",
                       "FX-len-" + ("eq" if c["nres"] == c["nref"] else ("res-longer" if c["nres"] > c["nref"] else "ref-longer")),
                       f"FX-exit-{got['exit']}"])
        check_f2(ctx, m, c, got, facts, view, rep)
    for c, (rc, steps) in mixed:
        kinds = ("seq", "data") if c["order"] == 0 else ("data", "seq")
        line = m.enc_file({"ignore": m.OPT_FLAGS["ignore"] in c["flags"], "force": m.OPT_FLAGS["force"] in c["flags"],
                           "res": [0] * c["n"], "ref": [0] * c["n"]}, [True] * c["n"], kinds[0], kinds[1], True)
        rep = ctx.lean([line])[0] if ctx.driver_ok else None
        ctx.case(("FX-mixed", repr(c)), nontrivial=True, tags=["FX-mixed", "FX-mixed-single-" + c["single"]])
        if rep is not None and rep.get("model") != str(rc):
            ctx.mismatch(c, rc, rep.get("model"), "mixed kinds exit code (XDMF sequence vs single data set)")
        if rc == 0 or steps:
            ctx.violation(c, {"exit": rc, "steps": steps}, "non-zero exit, no step compared",
                          what="an XDMF sequence compared equal to a single data set")


# ------------------------------------------------------------------------------------------------ I2
# sequence files of the batch: name -> (kind, step ids in order)
def i2_files():
    return {"P0": ("pvd", [0, 1, 2, 3]), "P1": ("pvd", [100, 101, 102]), "PL": ("pvd", list(range(12))),
            "PR": ("pvd", [0, 1, 0, 2, 0]), "PM": ("pvd", [200, 201, 202, 203, 204]),
            "X0": ("xdmf", [0, 1, 2]), "X1": ("xdmf", [300, 301, 302, 303])}


def i2_setup(sd: SeqDir, have_xdmf: bool):
    os.chdir(sd.dir)
    paths = {}
    for name, (kind, ids) in i2_files().items():
        if kind == "pvd":
            steps = []
            for k, s in enumerate(ids):
                # PR names one piece file per distinct step (a piece referenced several times); PM changes the mesh per step
                fn = f"{name}_{s}.vtu"
                steps.append({"file": fn, "s": s, "v": 0, "c": (k % 3) + 1 if name == "PM" else 1})
            paths[name] = write_pvd(sd, name + ".pvd", steps)
        elif have_xdmf:
            _xdmf_write(name + ".xdmf", len(ids), set(), "HDF" if name == "X0" else "XML", offset=ids[0])
            paths[name] = os.path.join(sd.dir, name + ".xdmf")
    sd.write("unrelated.vtu", vtu_strip(77, 0, 2))
    paths["unrelated"] = os.path.join(sd.dir, "unrelated.vtu")
    return paths


def i2_cases(rng, have_xdmf, n_random):
    cases = []
    combos = [["P0", "P0"], ["P0", "P1"], ["PL"], ["PR"], ["PR", "PR"], ["PM", "P0"], ["P1", "P0", "P1"], ["PL", "PL"]]
    if have_xdmf:
        combos += [["X0", "X0"], ["X0", "X1"], ["P0", "X0"], ["X1", "P1", "X1"]]
    betweens = ["none", "iterate-other-pvd", "read-single", "iterate-same-file"] + (["iterate-other-xdmf"] if have_xdmf else [])
    files = i2_files()
    for objs in combos:
        lens = [len(files[o][1]) for o in objs]
        # zip-style interleaving to the end (+ one call beyond), then sequential
        hists = [("zip", [j for k in range(max(lens) + 1) for j in range(len(objs))]),
                 ("sequential", [j for j in range(len(objs)) for _ in range(lens[j] + 1)])]
        if len(objs) >= 2:
            hists.append(("lagging", [0, 0] + [j for k in range(max(lens) + 1) for j in range(len(objs))]))
        for style, hist in hists:
            for bt in (betweens if style == "zip" else ["none", "iterate-other-pvd"]):
                cases.append((style, {"part": "I2", "objs": objs, "hist": hist, "between": bt}))
    for _ in range(n_random):
        objs = rng.choice(combos)
        lens = [len(files[o][1]) for o in objs]
        hist = [rng.randrange(len(objs)) for _ in range(rng.randint(2, sum(lens) + 3))]
        cases.append(("random", {"part": "I2", "objs": objs, "hist": hist, "between": rng.choice(betweens)}))
    return cases


def run_i2(m, paths, case):
    import fieldcompare.io as fio
    seqs = [fio.read(paths[o]) for o in case["objs"]]
    its = [iter(s) for s in seqs]
    out = []
    for j in case["hist"]:
        try:
            item = next(its[j])
            ev = f"y{m.step_id(item)}"
            if case["objs"][j] == "PM":
                ev += f"/{len(item.domain.points)}pts"
        except StopIteration:
            ev = "stop"
        except Exception as e:
            ev = f"raised-out:{type(e).__name__}"
        out.append([j, ev])
        bt = case["between"]
        if bt == "iterate-other-pvd":
            m.safe_steps(fio.read(paths["P1" if "P1" not in case["objs"] else "PM"]))
        elif bt == "iterate-other-xdmf":
            m.safe_steps(fio.read(paths["X1" if "X1" not in case["objs"] else "X0"]))
        elif bt == "read-single":
            fio.read(paths["unrelated"])
        elif bt == "iterate-same-file":
            m.safe_steps(fio.read(paths[case["objs"][j]]))      # a THIRD object over the same file, iterated completely
    return out, [s.number_of_steps for s in seqs]


def i2_expected(case):
    files = i2_files()
    pos = [0] * len(case["objs"])
    exp = []
    for j in case["hist"]:
        name = case["objs"][j]
        ids = files[name][1]
        k = pos[j]
        pos[j] += 1
        if k < len(ids):
            exp.append([j, f"y{ids[k]}" + (f"/{2 * ((k % 3) + 2)}pts" if name == "PM" else "")])
        else:
            exp.append([j, "stop"])
    return exp


def check_i2(ctx, m, case, got, nsteps, reps):
    files = i2_files()
    exp = i2_expected(case)
    if got != exp:
        ctx.violation(case, got, exp, cls=None,
                      what="independent sequence objects: an object does not yield its own steps 0..n-1 each once in order")
    want_n = [len(files[o][1]) for o in case["objs"]]
    if nsteps != want_n:
        ctx.violation(case, nsteps, want_n, what="number_of_steps of independent sequence objects")
    # Lean: the projection of the history onto object j is a history on ONE generator of a sequence of that length
    for j, rep in enumerate(reps or []):
        if rep is None or "model" not in rep:
            continue
        ids = files[case["objs"][j]][1]
        evs = rep["model"].split(";")[0]
        model = [] if evs == "-" else [e.split(":")[1] for e in evs.split(",")]
        model = [("y" + str(ids[int(e[1:])])) if e.startswith("y") else e for e in model]
        impl = [ev.split("/")[0] for g, ev in got if g == j]
        if impl != model:
            ctx.mismatch(case, impl, model, f"events of object {j} vs Fc.runHist on its projected history")


def i2_lines(case):
    files = i2_files()
    lines = []
    for j, o in enumerate(case["objs"]):
        k = sum(1 for g in case["hist"] if g == j)
        lines.append(f"c15iter {len(files[o][1])} 0 1 {k} " + " ".join(["0"] * k))
    return [l.strip() for l in lines]


def part_I2(ctx, m):
    from fcv import xdmfseq_p5c as X
    have_xdmf = "HDF" in X.available_formats()
    cases = i2_cases(ctx.rng, have_xdmf, ctx.scale(60, 3000))
    sd = SeqDir()
    try:
        paths = i2_setup(sd, have_xdmf)
        results = [run_i2(m, paths, c) for _, c in cases]
    finally:
        sd.close()
    lines, spans = [], []
    for _, c in cases:
        ls = i2_lines(c)
        spans.append((len(lines), len(lines) + len(ls)))
        lines += ls
    reps = ctx.lean(lines) if ctx.driver_ok else None
    for (style, c), (got, nsteps), (a, b) in zip(cases, results, spans):
        ctx.case(("I2", repr(c)), nontrivial=len(c["hist"]) > 1,
                 tags=["I2-" + style, "I2-objects=" + str(len(c["objs"])), "I2-between-" + c["between"],
                       "I2-same-file" if len(set(c["objs"])) < len(c["objs"]) else "I2-different-files"]
                 + ["I2-" + t for t in sorted({i2_files()[o][0] for o in c["objs"]})]
                 + (["I2-n>10"] if "PL" in c["objs"] else []) + (["I2-repeated-piece"] if "PR" in c["objs"] else [])
                 + (["I2-step-meshes"] if "PM" in c["objs"] else []))
        check_i2(ctx, m, c, got, nsteps, reps[a:b] if reps is not None else None)


# ------------------------------------------------------------------------------------------------ entry points
def run_batches(ctx, m):
    part_F2(ctx, m)
    part_FX(ctx, m)
    part_I2(ctx, m)


def replay_case(ctx, m, c):
    """re-run one case of this module; `ctx` is c15's replay sink"""
    part = c["part"]
    if part == "F2":
        sd = SeqDir()
        try:
            got, facts, view = run_f2(m, sd, c)
        finally:
            sd.close()
        rep = ctx.lean([m.enc_file(view, facts)])[0] if ctx.driver_ok else None
        print("replay: impl", got, "step facts", facts, "lean", rep)
        check_f2(ctx, m, c, got, facts, view, rep)
    elif part in ("FX", "FX-mixed"):
        d = tempfile.mkdtemp(prefix="fcv_c15gx_")
        cwd = os.getcwd()
        try:
            os.chdir(d)
            if part == "FX":
                got, facts, view = run_fx(m, c)
            else:
                rc, steps = run_fx_mixed(m, c)
        finally:
            os.chdir(cwd)
            shutil.rmtree(d, ignore_errors=True)
        if part == "FX":
            rep = ctx.lean([m.enc_file(view, facts)])[0] if ctx.driver_ok else None
            print("replay: impl", got, "step facts", facts, "lean", rep)
            check_f2(ctx, m, c, got, facts, view, rep)
        else:
            print("replay: impl exit", rc, "steps", steps)
            if rc == 0 or steps:
                ctx.violation(c, rc, "non-zero", what="an XDMF sequence compared equal to a single data set")
    elif part == "I2":
        from fcv import xdmfseq_p5c as X
        sd = SeqDir()
        try:
            paths = i2_setup(sd, "HDF" in X.available_formats())
            got, nsteps = run_i2(m, paths, c)
        finally:
            sd.close()
        reps = ctx.lean(i2_lines(c)) if ctx.driver_ok else None
        print("replay: impl", got, "number_of_steps", nsteps)
        check_i2(ctx, m, c, got, nsteps, reps)
