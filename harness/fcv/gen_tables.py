"""Translator: re-extract literal tables / expressions / function bodies from /repo source *text* (ast, no import)
and regenerate lean/FcGen/Tables.lean.  Theorems over these declarations are re-checked by `lake build` against what
the code says now.  The rendering of each extractor on the pinned tree is frozen under lean/FcGen/lastgood/ (committed;
`harness/freeze_tables.py`): when an extractor fails on a changed source, or the model no longer builds with a changed
rendering, the frozen rendering is used so that the driver still builds for every OTHER property, and the properties that
own the extractor count as 'proof obligation broken'."""
from __future__ import annotations
import os

from .leanproc import LEAN_DIR

REPO = os.environ.get("FCV_REPO", "/repo")


def _src(rel):
    return open(os.path.join(REPO, rel), encoding="utf-8").read()


def regenerate(use_lastgood=()) -> dict:
    """write Tables.lean if (and only if) its content changed; returns the per-module status dict"""
    from . import tables_extract
    text, status = tables_extract.render_all(_src, use_lastgood=use_lastgood)
    os.makedirs(os.path.join(LEAN_DIR, "FcGen"), exist_ok=True)
    path = os.path.join(LEAN_DIR, "FcGen", "Tables.lean")
    old = open(path, encoding="utf-8").read() if os.path.exists(path) else None
    if old != text:
        tmp = path + f".{os.getpid()}.tmp"
        with open(tmp, "w", encoding="utf-8") as fh:
            fh.write(text)
        os.replace(tmp, path)
    return status


def broken_owners(status: dict, names) -> set:
    """properties whose obligations are broken because the given extractor modules are broken (None = all)"""
    from . import tables_extract
    out = set()
    for n in names:
        o = tables_extract.owners(n)
        if o is None:
            return {"*"}
        out.update(o)
    return out
