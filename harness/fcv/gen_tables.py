"""Translator: re-extract literal tables / arithmetic expressions from /repo source *text* (ast, no
import) and regenerate lean/FcGen/Tables.lean.  Theorems over these tables are re-checked by
`lake build` against what the code says now."""
from __future__ import annotations
import ast
import os

from .leanproc import LEAN_DIR

REPO = os.environ.get("FCV_REPO", "/repo")


def _src(rel):
    return open(os.path.join(REPO, rel), encoding="utf-8").read()


def _lean_str(s: str) -> str:
    return '"' + s.replace("\\", "\\\\").replace('"', '\\"') + '"'


def extract() -> dict:
    """returns a dict of extracted facts; extended by the clusters that need them"""
    from . import tables_extract
    return tables_extract.extract_all(_src)


def render(facts: dict) -> str:
    from . import tables_extract
    return tables_extract.render(facts)


def regenerate() -> bool:
    """write Tables.lean if (and only if) its content changed; returns True when rewritten"""
    text = render(extract())
    path = os.path.join(LEAN_DIR, "FcGen", "Tables.lean")
    old = open(path, encoding="utf-8").read() if os.path.exists(path) else None
    if old == text:
        return False
    tmp = path + f".{os.getpid()}.tmp"
    with open(tmp, "w", encoding="utf-8") as fh:
        fh.write(text)
    os.replace(tmp, path)
    return True
