"""Phase 6, package G1 (sub-worker "io"): a Python-side writer of VTK XML files for the C05 / C06 / C07 checks.

The C05 pipeline proper sends every array as a hex string through the Lean spec writer, which limits it to arrays of a
few hundred bytes.  This module writes the SAME file layouts (VTK file-format standard, cf. `Fc.Spec.encodeArray`)
directly in Python so that the search can reach what the driver cannot: arrays of > 65536 items, compression blocks of
VTK's default size (32768 bytes) and many blocks, appended arrays stored in an order different from the document order
of their <DataArray> elements, other legal text layouts (indentation, one value per line, exponent spelling, attribute
order, extra attributes).  It is search, not correspondence: the expectation is the logical content the case
describes, computed here with numpy; on small inputs the produced payload bytes are cross-checked against the Lean
spec writer by the caller (`lean_line` / `lean_texts`).

Everything is described by small JSON-serialisable *descriptors*; array values are a deterministic function of
(type, count, seed), so a replay file stays small even when the arrays are large.

case = {"kind": "vtu"|"vtp"|"vti"|"vtr"|"vts",
        "mesh": {...}            # see `build`
        "fields": [[section, name, vtk type, ncomp, seed], ...]      section = "P" (point data) | "C" (cell data)
        "cfg": {"fmt": "ascii"|"inline"|"app64"|"appraw", "comp": None|"zlib"|"lz4"|"lzma", "B": int, "hs": 4|8,
                "bo": "le"|"be", "joint": bool},
        "opts": {"app_order": "doc"|"reverse"|"rot"|"evenodd",   # order of the arrays inside <AppendedData>
                 "ws": 0..4,                                       # text layout of inline / ascii data
                 "attrs": 0..2,                                    # attribute order / extra attributes of <DataArray>
                 "fspell": "repr"|"exp",                           # decimal spelling of ascii floats
                 "idx": [connectivity type, offsets type, types type]}}
"""
from __future__ import annotations
import base64
import lzma
import zlib

import numpy as np

try:
    import lz4.block as lz4block
    HAVE_LZ4 = True
except ImportError:  # pragma: no cover
    HAVE_LZ4 = False

NP = {"Int8": "i1", "Int16": "i2", "Int32": "i4", "Int64": "i8", "UInt8": "u1", "UInt16": "u2", "UInt32": "u4",
      "UInt64": "u8", "Float32": "f4", "Float64": "f8"}
TYPE_NAMES = list(NP)
CELL = {1: ("VERTEX", 1), 3: ("LINE", 2), 5: ("TRIANGLE", 3), 9: ("QUAD", 4), 10: ("TETRA", 4),
        12: ("HEXAHEDRON", 8), 13: ("WEDGE", 6), 14: ("PYRAMID", 5)}
COMPRESSOR_ATTR = {"zlib": "vtkZLibDataCompressor", "lz4": "vtkLZ4DataCompressor", "lzma": "vtkLZMADataCompressor"}
VTP_SECTIONS = [("Verts", "POLY_VERTEX", "NumberOfVerts"), ("Lines", "POLY_LINE", "NumberOfLines"),
                ("Polys", "POLYGON", "NumberOfPolys"), ("Strips", "TRIANGLE_STRIP", "NumberOfStrips")]
STRUCTURED = {"vti": "ImageData", "vtr": "RectilinearGrid", "vts": "StructuredGrid"}
CODECS = ["zlib", "lz4", "lzma"] if HAVE_LZ4 else ["zlib", "lzma"]


def dtype(tname: str, bo: str = "<") -> np.dtype:
    return np.dtype(bo + NP[tname])


# ------------------------------------------------------------------ deterministic values

def values(tname: str, count: int, seed: int) -> np.ndarray:
    """`count` items of the type, a deterministic function of the arguments; finite floats (dyadic, so that every
    decimal spelling used here round-trips exactly), integers over the whole range of the type incl. its extremes"""
    g = np.random.Generator(np.random.PCG64(seed * 1000003 + count))
    dt = dtype(tname)
    if dt.kind == "f":
        m = g.integers(-(1 << 20), 1 << 20, size=count).astype(np.float64)
        e = g.integers(-12, 13, size=count)
        v = (m * np.power(2.0, e)).astype(dt)
        if count > 3:
            v[1], v[2] = dt.type(-0.0), dt.type(3.0e10 if dt.itemsize == 8 else 1.5e10)
        return v
    info = np.iinfo(dt)
    v = g.integers(info.min, info.max, size=count, dtype=dt, endpoint=True)
    if count > 4:
        v[0], v[1] = info.max, info.min
        v[count - 1] = info.max
    return v


# ------------------------------------------------------------------ logical data set of a case

def build(case):
    """-> dict with numpy arrays: npts, ncells, points (n,3)|None, coords [x,y,z]|None, cells [(id, row)] (vtu),
    sections {name: rows} (vtp), fields [(section, name, type, ncomp, array of shape (n,) / (n, ncomp))]"""
    kind, mesh = case["kind"], case["mesh"]
    out = {"kind": kind, "points": None, "coords": None, "cells": [], "sections": {}}
    if kind == "vtu":
        n = mesh["npts"]
        cyc = mesh["types"]
        out["npts"] = n
        cells = []
        for c in range(mesh["ncells"]):
            t = cyc[c % len(cyc)]
            k = CELL[t][1]
            cells.append((t, [(c * 7 + j * (1 + c % 3)) % n for j in range(k)] if n else []))
        out["cells"] = cells
        out["ncells"] = len(cells)
        out["points"] = values(mesh.get("ptype", "Float64"), 3 * n, 11).reshape(n, 3)
    elif kind == "vtp":
        n = mesh["npts"]
        out["npts"] = n
        c = 0
        for sec, _, _ in VTP_SECTIONS:
            cnt, k = mesh.get(sec, (0, 0))
            if cnt:
                out["sections"][sec] = [[(r * 5 + j * 3 + c) % n for j in range(k)] for r in range(cnt)]
                c += cnt
        out["ncells"] = c
        out["points"] = values(mesh.get("ptype", "Float32"), 3 * n, 12).reshape(n, 3)
    else:
        cells = mesh["cells"]
        lo = mesh.get("lo", [0, 0, 0])
        out["ext"] = [v for d in range(3) for v in (lo[d], lo[d] + cells[d])]
        out["npts"] = (cells[0] + 1) * (cells[1] + 1) * (cells[2] + 1)
        out["ncells"] = max(cells[0], 1) * max(cells[1], 1) * max(cells[2], 1)
        pt = mesh.get("ptype", "Float64")
        if kind == "vts":
            out["points"] = values(pt, 3 * out["npts"], 13).reshape(out["npts"], 3)
        elif kind == "vtr":
            out["coords"] = [np.cumsum(np.abs(values(pt, cells[d] + 1, 14 + d)) + dtype(pt).type(1.0)).astype(dtype(pt))
                             for d in range(3)]
        else:
            out["origin"], out["spacing"] = mesh.get("origin", [0.5, -1.0, 2.0]), mesh.get("spacing", [1.0, 0.5, 2.0])
    fields = []
    for sec, name, tname, ncomp, seed in case["fields"]:
        cnt = out["npts"] if sec == "P" else out["ncells"]
        v = values(tname, cnt * ncomp, seed)
        fields.append((sec, name, tname, ncomp, v if ncomp == 1 else v.reshape(cnt, ncomp)))
    out["fields"] = fields
    out["ptype"] = mesh.get("ptype", "Float32" if kind == "vtp" else "Float64")
    return out


# ------------------------------------------------------------------ array encoding (VTK file-format standard)

def compress(codec: str, b: bytes) -> bytes:
    if codec == "zlib":
        return zlib.compress(b, 1)
    if codec == "lzma":
        return lzma.compress(b, preset=0)
    if codec == "lz4":
        return lz4block.compress(b, store_size=False)
    raise ValueError(codec)


def file_bytes(arr: np.ndarray, bo: str) -> bytes:
    a = np.ascontiguousarray(arr)
    return a.astype(a.dtype.newbyteorder("<" if bo == "le" else ">")).tobytes()


def _words(ws, cfg) -> bytes:
    return np.array(ws, dtype=("<" if cfg["bo"] == "le" else ">") + ("u4" if cfg["hs"] == 4 else "u8")).tobytes()


def encode_binary(arr: np.ndarray, cfg, b64: bool) -> bytes:
    """payload of one inline-binary (b64 = True) or appended (base64 or raw) array"""
    data = file_bytes(arr, cfg["bo"])
    enc = base64.b64encode if b64 else (lambda b: b)
    if not cfg["comp"]:
        hdr = _words([len(data)], cfg)
        return enc(hdr + data) if cfg.get("joint", True) or not b64 else enc(hdr) + enc(data)
    B = cfg["B"]
    blocks = [compress(cfg["comp"], data[o:o + B]) for o in range(0, len(data), B)]
    hdr = _words([len(blocks), B, len(data) % B] + [len(b) for b in blocks], cfg)
    return enc(hdr) + enc(b"".join(blocks))


def ascii_tokens(arr: np.ndarray, fspell: str = "repr"):
    a = np.asarray(arr).reshape(-1)
    if a.dtype.kind == "f":
        if fspell == "exp":
            fmt = "%.8e" if a.dtype.itemsize == 4 else "%.16e"
            return [fmt % float(x) for x in a]
        return [repr(float(x)) for x in a]
    return [str(int(x)) for x in a]


def ascii_text(toks, ws: int) -> str:
    if ws == 3:                                   # one value per line, indented (hand-written / some exporters)
        return "\n".join("          " + t for t in toks)
    if ws == 4:                                   # VTK's own layout: six values per line, indented
        return "\n".join("          " + " ".join(toks[i:i + 6]) for i in range(0, len(toks), 6))
    return " ".join(toks)


def wrap_text(text: str, ws: int) -> str:
    """element text of a non-appended <DataArray>"""
    if ws == 1 or ws == 4 or ws == 3:             # VTK: data on its own indented line(s), closing tag indented
        body = text if ws in (3, 4) else "          " + text
        return "\n" + body + "\n        "
    if ws == 2:                                   # no whitespace at all
        return text
    return "\n" + text + "\n"


def data_array_xml(name, tname, ncomp, fmt, text, offset, opts, arr=None) -> str:
    style = opts.get("attrs", 0)
    f = {"ascii": "ascii", "inline": "binary", "appended": "appended"}[fmt]
    items = [("type", tname), ("Name", name), ("NumberOfComponents", str(ncomp)), ("format", f)]
    if fmt == "appended":
        items.append(("offset", str(offset)))
    if style >= 1 and arr is not None and arr.size:
        items += [("RangeMin", repr(float(np.min(arr)))), ("RangeMax", repr(float(np.max(arr))))]
    if style == 1:
        items = [items[1], items[0]] + items[2:]              # Name first (what VTK writes for field arrays)
    elif style == 2:
        items = list(reversed(items))                         # offset / format in front
    attrs = " ".join(f'{k}="{v}"' for k, v in items)
    if fmt == "appended":
        return f"<DataArray {attrs}/>" if style != 2 else f"<DataArray {attrs}></DataArray>"
    return f"<DataArray {attrs}>{text}</DataArray>"


def app_order(n: int, how: str):
    idx = list(range(n))
    if how == "reverse":
        return idx[::-1]
    if how == "rot":
        return idx[n // 2:] + idx[:n // 2]
    if how == "evenodd":
        return idx[1::2] + idx[0::2]
    return idx


def document_arrays(ds, opts):
    """[(xml section, name, type, ncomp, array)] in document order"""
    idx = opts.get("idx") or ["Int64", "Int64", "UInt8"]
    arrs = [("PointData" if s == "P" else "CellData", nm, t, nc, a) for s, nm, t, nc, a in ds["fields"]]
    kind = ds["kind"]
    if kind == "vtr":
        for nm, c in zip("xyz", ds["coords"]):
            arrs.append(("Coordinates", nm, ds["ptype"], 1, c))
    elif kind != "vti":
        arrs.append(("Points", "Points", ds["ptype"], 3, ds["points"]))
    if kind == "vtu":
        conn = [i for _, row in ds["cells"] for i in row]
        offs = np.cumsum([len(row) for _, row in ds["cells"]]) if ds["cells"] else []
        arrs.append(("Cells", "connectivity", idx[0], 1, np.array(conn, dtype=np.int64).astype(dtype(idx[0]))))
        arrs.append(("Cells", "offsets", idx[1], 1, np.array(offs, dtype=np.int64).astype(dtype(idx[1]))))
        arrs.append(("Cells", "types", idx[2], 1, np.array([t for t, _ in ds["cells"]], dtype=np.int64).astype(dtype(idx[2]))))
    elif kind == "vtp":
        for sec, _, _ in VTP_SECTIONS:
            rows = ds["sections"].get(sec)
            if rows:
                arrs.append((sec, "connectivity", idx[0], 1,
                             np.array([i for r in rows for i in r], dtype=np.int64).astype(dtype(idx[0]))))
                arrs.append((sec, "offsets", idx[1], 1, np.cumsum([len(r) for r in rows]).astype(dtype(idx[1]))))
    return arrs


def file_content(case, ds=None) -> bytes:
    ds = ds or build(case)
    cfg, opts = case["cfg"], case.get("opts", {})
    arrs = document_arrays(ds, opts)
    fmt = {"ascii": "ascii", "inline": "inline", "app64": "appended", "appraw": "appended"}[cfg["fmt"]]
    ws = opts.get("ws", 0)
    xmls = [None] * len(arrs)
    appendix = bytearray()
    if fmt == "appended":
        for i in app_order(len(arrs), opts.get("app_order", "doc")):
            sec, nm, t, nc, a = arrs[i]
            off = len(appendix)
            appendix += encode_binary(a, cfg, cfg["fmt"] == "app64")
            xmls[i] = data_array_xml(nm, t, nc, fmt, "", off, opts, a)
    else:
        for i, (sec, nm, t, nc, a) in enumerate(arrs):
            if fmt == "ascii":
                text = wrap_text(ascii_text(ascii_tokens(a, opts.get("fspell", "repr")), ws), ws)
            else:
                text = wrap_text(encode_binary(a, cfg, True).decode("ascii"), ws if ws < 3 else 1)
            xmls[i] = data_array_xml(nm, t, nc, fmt, text, None, opts, a)

    def sec(name):
        return "\n".join(x for (s, *_), x in zip(arrs, xmls) if s == name)
    comp = f' compressor="{COMPRESSOR_ATTR[cfg["comp"]]}"' if cfg["comp"] else ""
    root = (f'version="1.0" byte_order="{"LittleEndian" if cfg["bo"] == "le" else "BigEndian"}" '
            f'header_type="UInt{cfg["hs"] * 8}"{comp}')
    kind = ds["kind"]
    pc = (f'<PointData>\n{sec("PointData")}\n</PointData>\n<CellData>\n{sec("CellData")}\n</CellData>\n')
    if kind == "vtu":
        gtype = "UnstructuredGrid"
        body = (f'<UnstructuredGrid>\n<Piece NumberOfPoints="{ds["npts"]}" NumberOfCells="{ds["ncells"]}">\n{pc}'
                f'<Points>\n{sec("Points")}\n</Points>\n<Cells>\n{sec("Cells")}\n</Cells>\n</Piece>\n</UnstructuredGrid>')
    elif kind == "vtp":
        gtype = "PolyData"
        counts = " ".join(f'{attr}="{len(ds["sections"].get(s, []))}"' for s, _, attr in VTP_SECTIONS)
        secs = "".join(f"<{s}>\n{sec(s)}\n</{s}>\n" for s, _, _ in VTP_SECTIONS if ds["sections"].get(s))
        body = (f'<PolyData>\n<Piece NumberOfPoints="{ds["npts"]}" {counts}>\n{pc}<Points>\n{sec("Points")}\n</Points>\n'
                f'{secs}</Piece>\n</PolyData>')
    else:
        gtype = STRUCTURED[kind]
        ext = " ".join(str(v) for v in ds["ext"])
        extra = ""
        if kind == "vti":
            extra = (f' Origin="{" ".join(repr(float(v)) for v in ds["origin"])}"'
                     f' Spacing="{" ".join(repr(float(v)) for v in ds["spacing"])}"')
        geo = {"vti": "", "vtr": f'<Coordinates>\n{sec("Coordinates")}\n</Coordinates>\n',
               "vts": f'<Points>\n{sec("Points")}\n</Points>\n'}[kind]
        body = f'<{gtype} WholeExtent="{ext}"{extra}>\n<Piece Extent="{ext}">\n{pc}{geo}</Piece>\n</{gtype}>'
    head = f'<?xml version="1.0"?>\n<VTKFile type="{gtype}" {root}>\n{body}\n'.encode("ascii")
    if fmt != "appended":
        return head + b"</VTKFile>\n"
    encn = "base64" if cfg["fmt"] == "app64" else "raw"
    return head + f'<AppendedData encoding="{encn}">\n   _'.encode() + bytes(appendix) + b"\n</AppendedData>\n</VTKFile>\n"


# ------------------------------------------------------------------ expected observables (same shape as corr.c05.obs_impl)

def _obs(tname, arr, nrows, ncomp):
    dt = dtype(tname)
    return {"kind": dt.kind, "size": int(dt.itemsize), "shape": [nrows] if ncomp <= 1 else [nrows, ncomp],
            "le": np.ascontiguousarray(arr).astype(dt).tobytes().hex()}


def expected(case, ds=None):
    """the logical content of the file: points, cells per type in file order, point fields, cell fields per type"""
    ds = ds or build(case)
    kind = ds["kind"]
    out = {"points": None, "cells": {}, "pf": {}, "cf": {}}
    groups = {}                       # type name -> cell indices in file order
    if kind == "vtu":
        for ci, (t, row) in enumerate(ds["cells"]):
            out["cells"].setdefault(CELL[t][0], []).append([int(i) for i in row])
            groups.setdefault(CELL[t][0], []).append(ci)
        out["points"] = _obs(ds["ptype"], ds["points"], ds["npts"], 3)
    elif kind == "vtp":
        ci = 0
        for sec, tn, _ in VTP_SECTIONS:
            rows = ds["sections"].get(sec)
            if rows:
                out["cells"][tn] = [[int(i) for i in r] for r in rows]
                groups[tn] = list(range(ci, ci + len(rows)))
                ci += len(rows)
        out["points"] = _obs(ds["ptype"], ds["points"], ds["npts"], 3)
    else:
        if kind == "vts":
            p = ds["points"].astype("<f8")
            out["points"] = {"shape": [ds["npts"], 3], "le": p.tobytes().hex()}
        elif kind == "vtr":
            xs, ys, zs = (c.astype("<f8") for c in ds["coords"])
            p = np.empty((len(zs), len(ys), len(xs), 3), dtype="<f8")
            p[..., 0], p[..., 1], p[..., 2] = xs[None, None, :], ys[None, :, None], zs[:, None, None]
            out["points"] = {"shape": [ds["npts"], 3], "le": p.reshape(-1, 3).tobytes().hex()}
        groups["*"] = list(range(ds["ncells"]))
    for sec, nm, t, nc, a in ds["fields"]:
        if sec == "P":
            out["pf"][nm] = _obs(t, a, ds["npts"], nc)
        else:
            for tn, idx in groups.items():
                out["cf"][nm + "@" + tn] = _obs(t, a[idx], len(idx), nc)
    return out


# ------------------------------------------------------------------ cross-check of the payload encoder with the Lean spec writer

def lean_line(arr: np.ndarray, cfg, b64: bool) -> str:
    """`c05enc` line (driver op of the C05 check) for ONE array; reply field `enc` = hex of `encode_binary(arr, cfg, b64)`"""
    sz = arr.dtype.itemsize
    le = np.ascontiguousarray(arr).astype(arr.dtype.newbyteorder("<")).tobytes()
    toks = ["c05enc", f"{cfg['hs']} {cfg['bo']} {1 if b64 else 0} {1 if cfg['comp'] else 0} "
                      f"{1 if cfg.get('joint', True) else 0} {cfg['B'] if cfg['comp'] else 0}", "1", str(sz), "x" + le.hex()]
    tbl = {}
    if cfg["comp"]:
        fo = file_bytes(arr, cfg["bo"])
        for o in range(0, len(fo), cfg["B"]):
            blk = fo[o:o + cfg["B"]]
            tbl[blk] = compress(cfg["comp"], blk)
    toks.append(str(len(tbl)))
    for k, v in tbl.items():
        toks += ["x" + k.hex(), "x" + v.hex()]
    return " ".join(toks)
