"""C17, phase 6 package G — directed batches for dimensions of the quantifier the random generator samples at one point only.

The property ("a mesh stored with 1-/2-component coordinates compares equal to its zero-padded copy, in either role, unless
matching is disabled; never to a mesh whose additional coordinates / components are non-zero beyond tolerance") ranges over
*all* meshes, fields and configurations.  `corr/c17.py: gen_case` draws tiny lattices (<= 16 points) with float64 / int64
fields in fresh C-contiguous arrays, default mesh tolerances, plain `MeshFields` inputs, one call per comparator.  The
families below fix one further dimension each (tag `p6g-<family>`):

  user-tol   the SAME user-set tolerances (`Mesh.set_tolerances`) on both meshes; the extra coordinate lies between the
             default and the user tolerance (looser: must PASS, tighter / zero: must FAIL; exact copy at zero tolerance: PASS)
  big        > 1000 points (quad lattice / poly-line), extra entry on the FIRST / MIDDLE / LAST connected point or field row
  dtypes     float32, narrow and unsigned integer vector / tensor fields; float32 point coordinates (search only)
  layout     Fortran-ordered, strided (non-contiguous) and read-only arrays for points, connectivity and fields
  wrap       either side handed in as a transformed view (`sort_points`, `sort_cells`, `sort`, `strip_orphan_points`) instead
             of a plain `MeshFields`
  rerun      the same comparator object called twice; `disable_orphan_point_removal=True` (identical orphans on both sides)
  special    -0.0 as "extra" entry (is a zero: PASS), +-1e308 (FAIL)
  names      empty / unicode / blank- and ' @ '-containing field names

Everything is a plain JSON case understood by `c17.run_impl` (key "p6g" = options applied after `to_fc`), so violations
replay through the normal path.  The verdict demanded by the property is computed here from the construction (which entry was
set, against which tolerance); the Lean model (`c17.cmp`) is consulted by `c17.evaluate` exactly as for the random cases
whenever reordering is disabled and both inputs are plain, float64-coordinate `MeshFields`.
"""
from __future__ import annotations
import copy

import numpy as np

from .meshgen import gen_mesh, relabel, celltype, _rowsize, _distinct_values, NCORNERS
from .predio import NP_DT

FLOATS = ("f64", "f32", "f16")
WRAPS = ("sort_points", "sort_cells", "sort", "strip_orphan_points")
LAYOUTS = ("fortran", "strided", "readonly")


# ---------------------------------------------------------------- fieldcompare objects from logical meshes, with options

def _layout(arr, how):
    if how == "fortran":
        return np.asfortranarray(arr)
    if how == "strided":
        big = np.zeros(tuple(2 * s for s in arr.shape), dtype=arr.dtype)
        view = big[tuple(slice(None, None, 2) for _ in arr.shape)]
        view[...] = arr
        return view
    if how == "readonly":
        arr = np.array(arr)
        arr.setflags(write=False)
        return arr
    return arr


def to_fc_opt(lm, opt):
    """like meshgen.to_fc, with the memory layout / coordinate dtype asked for in `opt`"""
    from fieldcompare.mesh import Mesh, MeshFields
    how = opt.get("layout")
    pdt = NP_DT[opt.get("points_dtype", "f64")]
    n = len(lm["points"])
    pts = _layout(np.array(lm["points"], dtype=pdt).reshape(n, lm["dim"]), how)
    conn = [(celltype(t), _layout(np.array(rows, dtype=np.int64).reshape(len(rows), -1 if rows else (NCORNERS[t] or 0)), how))
            for t, rows in lm["cells"]]
    mesh = Mesh(pts, conn)

    def arr(f, rows):
        return _layout(np.array(f["v"], dtype=NP_DT[f["dt"]]).reshape([rows] + list(f["tail"])), how)
    pd = {f["name"]: arr(f, n) for f in lm["pf"]}
    cd = {}
    for f in lm["cf"]:
        cd.setdefault(f["name"], {})[f["ctype"]] = f
    cdl = {name: [arr(per[t], len(rows)) for t, rows in lm["cells"]] for name, per in cd.items()}
    return MeshFields(mesh, pd, cdl)


def build(case):
    """(source, reference) fieldcompare objects of a case with a "p6g" options dict"""
    from fieldcompare import mesh as fcm
    opt = case["p6g"]
    out = []
    for role in ("source", "reference"):
        f = to_fc_opt(case[role], opt)
        if opt.get("mesh_tol") is not None:
            a, r = opt["mesh_tol"]
            f.domain.set_tolerances(abs_tol=float(a), rel_tol=float(r))
        w = (opt.get("wrap") or {}).get(role)
        if w:
            f = getattr(fcm, w)(f)
        out.append(f)
    return out[0], out[1]


def model_applicable(case):
    """the Lean op describes plain MeshFields with float64 coordinates in the stored order"""
    opt = case.get("p6g") or {}
    return not (opt.get("wrap") or {}).get("source") and not (opt.get("wrap") or {}).get("reference") \
        and opt.get("points_dtype", "f64") == "f64" and not opt.get("search_only")


# ---------------------------------------------------------------- logical meshes

def lattice2(nx, ny, h=0.5, off=0.0):
    """(nx x ny)-cell quad lattice in 2-d; coordinates are multiples of h (exact in float32 for small nx, ny)"""
    pts = [[off + h * i, off + h * j] for j in range(ny + 1) for i in range(nx + 1)]
    def pid(i, j):
        return j * (nx + 1) + i
    quads = [[pid(i, j), pid(i + 1, j), pid(i + 1, j + 1), pid(i, j + 1)] for j in range(ny) for i in range(nx)]
    return {"dim": 2, "points": pts, "cells": [["QUAD", quads]], "pf": [], "cf": []}


def polyline(n, dim, h=0.25, off=1.0):
    pts = [[off + h * i] + [off] * (dim - 1) for i in range(n + 1)]
    return {"dim": dim, "points": pts, "cells": [["LINE", [[i, i + 1] for i in range(n)]]], "pf": [], "cf": []}


def hybrid2(rng):
    """2-d mesh with triangles, quads AND pixels (both members of a compatible pair in one mesh), orphan points FIRST and in
    the middle of the point list"""
    lm = lattice2(3, 2, h=1.0)
    quads = lm["cells"][0][1]
    tri, quad, pix = [], [], []
    for k, q in enumerate(quads):
        if k % 3 == 0:
            tri += [[q[0], q[1], q[2]], [q[0], q[2], q[3]]]
        elif k % 3 == 1:
            quad.append(q)
        else:
            pix.append([q[0], q[1], q[3], q[2]])
    lm["cells"] = [["PIXEL", pix], ["TRIANGLE", tri], ["QUAD", quad]]
    # orphans at position 0 and in the middle: shift every index
    n = len(lm["points"])
    mid = n // 2
    newpts, remap = [[-7.5, 3.25]], {}
    for i, p in enumerate(lm["points"]):
        if i == mid:
            newpts.append([11.0, -2.0])
        remap[i] = len(newpts)
        newpts.append(p)
    lm["points"] = newpts
    lm["cells"] = [[t, [[remap[i] for i in r] for r in rows]] for t, rows in lm["cells"]]
    return lm


def add_field(rng, lm, kind, name, dt, tail):
    n = len(lm["points"])
    if kind == "pf":
        lm["pf"].append({"name": name, "dt": dt, "tail": list(tail), "v": _distinct_values(rng, dt, n * _rowsize(tail))})
    else:
        for t, rows in lm["cells"]:
            lm["cf"].append({"name": name, "ctype": t, "dt": dt, "tail": list(tail),
                             "v": _distinct_values(rng, dt, len(rows) * _rowsize(tail))})


def std_fields(rng, lm, dts=("f64", "i64"), names=("u", "T", "s", "c")):
    """a vector point field, a tensor point field, a scalar point field and a vector cell field"""
    d = lm["dim"]
    add_field(rng, lm, "pf", names[0], rng.choice(dts), [d])
    add_field(rng, lm, "pf", names[1], rng.choice(dts), [d, d])
    add_field(rng, lm, "pf", names[2], rng.choice(dts), [])
    add_field(rng, lm, "cf", names[3], rng.choice(dts), [d])
    return lm


def min_spacing(lm):
    """smallest distance (max-norm) between two distinct points of a small mesh"""
    pts = lm["points"]
    best = float("inf")
    for i in range(len(pts)):
        for j in range(i):
            dist = max(abs(a - b) for a, b in zip(pts[i], pts[j]))
            if 0.0 < dist < best:
                best = dist
    return best


def max_abs(lm):
    return max([abs(c) for p in lm["points"] for c in p] + [0.0])


# ---------------------------------------------------------------- one case

def _pick(slots, where, position, rng):
    """slots of kind `where` ('coord' | 'field'), at the first / middle / last position (or random)"""
    if where in ("pf", "cf"):
        ss = [s for s in slots if s[0] == where]
    else:
        ss = [s for s in slots if (s[0] == "coord") == (where == "coord")]
    if not ss:
        return None
    if position == "first":
        return ss[0]
    if position == "last":
        return ss[-1]
    if position == "middle":
        return ss[len(ss) // 2]
    return rng.choice(ss)


def make_case(rng, c17, c08, lm, sd, family, *, extra="zero", where="coord", position="random", z=None, mesh_tol=None,
              swap=False, disable=False, noreorder=True, do_relabel=False, pred=("dflt",), opt=None, extra_tags=()):
    """-> (case, meta, tags) or None.  `extra` is the class the property distinguishes (zero / below / above the tolerance
    that applies); `z` the value written (default: derived from the tolerance)"""
    d = lm["dim"]
    hi, st = c08.pad_lm(lm, sd)
    if st != "ok":
        return None
    hi = copy.deepcopy(hi)
    slot = None
    if extra != "zero" or z is not None:
        slots = c17.extra_slots(lm, hi, d, sd)
        slot = _pick(slots, where, position, rng)
        if slot is None:
            return None
        if slot[0] == "coord":
            if z is None:
                tol = mesh_tol[0] if mesh_tol is not None else c17.mesh_abs_tol(lm)
                z = (0.25 * tol if extra == "below" else 4.0 * tol) * rng.choice([1.0, -1.0])
            hi["points"][slot[1]][slot[2]] = z
        else:
            f = hi[slot[0]][slot[1]]
            if z is None:
                if f["dt"] in FLOATS:
                    if pred[0] == "num":
                        z = (0.25 * pred[2] if extra == "below" else 4.0 * pred[2]) * rng.choice([1.0, -1.0])
                    else:
                        z = rng.choice([1e-3, -2.5])
                else:
                    z = 1 if f["dt"].startswith("u") else rng.choice([1, -3])
            f["v"][slot[2]] = z
    a, b = lm, hi
    if do_relabel:
        if rng.random() < 0.5:
            b = relabel(rng, b)
        else:
            a = relabel(rng, a)
    if swap:
        a, b = b, a
    o = dict(opt or {})
    if mesh_tol is not None:
        o["mesh_tol"] = [float(mesh_tol[0]), float(mesh_tol[1])]
    o["family"] = family
    wrapped = bool((o.get("wrap") or {}).get("source") or (o.get("wrap") or {}).get("reference"))
    case = {"source": a, "reference": b, "disable": bool(disable), "noreorder": bool(noreorder), "pred": list(pred), "p6g": o}
    # views that reorder / strip points are "the same mesh stored differently": like a relabeled pair they need the reordering rungs
    meta = {"d": d, "sd": sd, "pad": "ok", "extra": extra, "relabel": bool(do_relabel or wrapped)}
    tags = ["p6g", "p6g-" + family, f"{d}->{sd}", "extra-" + extra,
            "where-" + (slot[0] if slot else "None"), "matching-" + ("off" if disable else "on"),
            "reorder-" + ("off" if noreorder else "on"), "pred-" + pred[0]]
    if swap:
        tags.append("padded-is-source")
    if do_relabel:
        tags.append("relabeled")
    if position != "random" and slot is not None:
        tags.append("p6g-pos-" + position)
    tags += list(extra_tags)
    return case, meta, tags


# ---------------------------------------------------------------- the batch

def small_mesh(rng, d, orphans=False):
    lm, gt = gen_mesh(rng, max_cells_per_dir=3, dims=(d,), allow_orphans=orphans, allow_duplicates=False, fields=False,
                      scale=rng.choice([1e-3, 1.0, 250.0]))
    return lm


def gen_batch(rng, c17, c08, reps):
    """list of (case, meta, tags); `reps` scales the number of random repetitions per family"""
    out = []

    def put(x):
        if x is not None:
            out.append(x)

    def dims():
        d = rng.choice([1, 2, 2])
        return d, (rng.choice([2, 3]) if d == 1 else 3)

    for rep in range(reps):
        # ---- user-tol
        for kind in ("loose", "tight", "zero"):
            d, sd = dims()
            lm = std_fields(rng, small_mesh(rng, d))
            m = max_abs(lm)
            if m == 0.0:
                continue
            dflt = 1e-8 * m
            if kind == "loose":
                # looser than the default, but still far below the point spacing h (a tolerance comparable to the spacing
                # makes points indistinguishable for the sorting rungs: outside what the property speaks about)
                h = min_spacing(lm)
                if 1e-3 * h < 1e3 * dflt:
                    continue
                tol = (1e-3 * h, 1e-8)
                variants = [("below", 1e-4 * h), ("above", 4e-3 * h), ("zero", None)]
            elif kind == "tight":
                tol = (1e-13 * m, 1e-13)
                variants = [("above", 0.25 * dflt), ("zero", None)]
            else:
                tol = (0.0, 0.0)
                variants = [("above", 1e-200), ("above", 0.25 * dflt), ("zero", None)]
            for extra, z in variants:
                for swap in (False, True):
                    nore = rng.random() < 0.6
                    put(make_case(rng, c17, c08, lm, sd, "user-tol", extra=extra, where="coord", z=z, mesh_tol=tol, swap=swap,
                                  noreorder=nore, do_relabel=(not nore and rng.random() < 0.5),
                                  extra_tags=["p6g-tol-" + kind]))
            put(make_case(rng, c17, c08, lm, sd, "user-tol", extra="zero", mesh_tol=tol, disable=True, swap=rng.random() < 0.5,
                          extra_tags=["p6g-tol-" + kind]))
        # ---- dtypes
        for dt in ("f32", "u8", "i8", "u16", "i32", "u64"):
            d, sd = dims()
            lm = small_mesh(rng, d)
            if dt in ("u8", "i8") and len(lm["points"]) * d * d > 30:
                lm = polyline(3, d)
            add_field(rng, lm, "pf", "v", dt, [d])
            add_field(rng, lm, "cf", "t", dt, [d, d])
            add_field(rng, lm, "pf", "s", dt, [])
            if dt in ("u8", "i8"):     # keep the values inside the type
                for f in lm["pf"] + lm["cf"]:
                    f["v"] = [1 + (i % 100) for i in range(len(f["v"]))]
            for extra in ("zero", "above"):
                put(make_case(rng, c17, c08, lm, sd, "dtypes", extra=extra, where="field", swap=rng.random() < 0.5,
                              noreorder=rng.random() < 0.5, extra_tags=["p6g-dt-" + dt]))
        # ---- layout
        for how in LAYOUTS:
            d, sd = dims()
            lm = std_fields(rng, small_mesh(rng, d, orphans=rng.random() < 0.3))
            for extra, where in (("zero", "coord"), ("above", "field"), ("above", "coord")):
                nore = rng.random() < 0.5
                put(make_case(rng, c17, c08, lm, sd, "layout", extra=extra, where=where, swap=rng.random() < 0.5, noreorder=nore,
                              do_relabel=(not nore and rng.random() < 0.5), opt={"layout": how},
                              extra_tags=["p6g-layout-" + how]))
        # ---- wrap
        for w in WRAPS:
            d, sd = dims()
            lm = std_fields(rng, small_mesh(rng, d, orphans=rng.random() < 0.5))
            for side in ("source", "reference", "both"):
                wrap = {"source": w if side in ("source", "both") else None,
                        "reference": w if side in ("reference", "both") else None}
                extra = rng.choice(["zero", "zero", "above", "below"])
                put(make_case(rng, c17, c08, lm, sd, "wrap", extra=extra, where=rng.choice(["coord", "field"]) if extra != "below"
                              else "coord", swap=rng.random() < 0.5, noreorder=False, do_relabel=rng.random() < 0.3,
                              opt={"wrap": wrap}, extra_tags=["p6g-wrap-" + w, "p6g-wrap-side-" + side]))
            put(make_case(rng, c17, c08, lm, sd, "wrap", extra="zero", disable=True, noreorder=False,
                          opt={"wrap": {"source": w, "reference": None}}, extra_tags=["p6g-wrap-" + w]))
        # ---- rerun / keep orphans
        d, sd = dims()
        lm = std_fields(rng, small_mesh(rng, d, orphans=True))
        for extra in ("zero", "above", "below"):
            for swap in (False, True):
                nore = rng.random() < 0.5
                put(make_case(rng, c17, c08, lm, sd, "rerun", extra=extra, where="coord" if extra == "below" else rng.choice(["coord", "field"]),
                              swap=swap, noreorder=nore, opt={"rerun": True}, extra_tags=["p6g-rerun"]))
        for extra in ("zero", "above"):
            put(make_case(rng, c17, c08, lm, sd, "rerun", extra=extra, swap=rng.random() < 0.5, noreorder=False,
                          opt={"keep_orphans": True, "rerun": rng.random() < 0.5}, extra_tags=["p6g-keep-orphans"]))
        # ---- special values
        d, sd = dims()
        lm = std_fields(rng, small_mesh(rng, d), dts=("f64",))
        for where in ("coord", "field"):
            put(make_case(rng, c17, c08, lm, sd, "special", extra="zero", where=where, z=-0.0, swap=rng.random() < 0.5,
                          noreorder=rng.random() < 0.5, extra_tags=["p6g-negzero"]))
        put(make_case(rng, c17, c08, lm, sd, "special", extra="above", where="field", z=rng.choice([1e308, -1.7e308]),
                      swap=rng.random() < 0.5, noreorder=rng.random() < 0.5, extra_tags=["p6g-huge"]))
        # ---- names
        d, sd = dims()
        lm = std_fields(rng, small_mesh(rng, d), names=rng.choice([("", "üδ", "a b", "c @ d"),
                                                                   ("@", "T @ ", " @ ", "u @ QUAD"),
                                                                   ("x/y", "p.q", "*", "[k] @ 2")]))
        for extra, where in (("zero", "field"), ("above", "pf"), ("above", "cf")):
            put(make_case(rng, c17, c08, lm, sd, "names", extra=extra, where=where, swap=rng.random() < 0.5,
                          noreorder=rng.random() < 0.5, extra_tags=["p6g-names"]))
        # ---- hybrid mesh with pixel + quad + triangle, orphans first / middle
        lm = std_fields(rng, hybrid2(rng))
        for extra, where in (("zero", "coord"), ("above", "coord"), ("above", "field")):
            nore = rng.random() < 0.5
            put(make_case(rng, c17, c08, lm, 3, "hybrid", extra=extra, where=where, position=rng.choice(["first", "last", "random"]),
                          swap=rng.random() < 0.5, noreorder=nore, do_relabel=(not nore and rng.random() < 0.5),
                          extra_tags=["p6g-hybrid"]))
    # ---- big meshes: once per run (the size, not the repetition, is the point); thorough adds a > 65536-point line
    bigs = [("quad-36x36", lattice2(36, 36), 3), ("line-1500", polyline(1500, 1), rng.choice([2, 3])),
            ("line2d-1100", polyline(1100, 2), 3)]
    if reps > 1:
        bigs.append(("line-70000", polyline(70000, 1), 2))
    for name, lm, sd in bigs:
        d = lm["dim"]
        add_field(rng, lm, "pf", "u", "f64", [d])
        if len(lm["points"]) < 5000:
            add_field(rng, lm, "cf", "t", "f64", [d, d])
        for extra, where, position in (("zero", "coord", "random"), ("above", "coord", "first"), ("above", "coord", "last"),
                                       ("above", "coord", "middle"), ("above", "field", "last"), ("above", "field", "first")):
            nore = position != "middle"
            # the list-based Lean model needs 1-3 s per mesh of this size: it is asked for two of the cases, the others are
            # judged against the property's expectation only (search)
            with_model = (name == "line-1500" and (extra, position) in (("zero", "random"), ("above", "last")))
            put(make_case(rng, c17, c08, lm, sd, "big", extra=extra, where=where, position=position, swap=(position == "last"),
                          noreorder=nore, do_relabel=False, opt=({} if with_model else {"search_only": True}),
                          extra_tags=["p6g-big-" + name] + (["p6g-big-with-model"] if with_model else [])))
    # ---- float32 coordinates (search only): lattice coordinates are exact in float32
    for lm, sd in ((lattice2(4, 3), 3), (polyline(7, 1), 3), (polyline(5, 1), 2)):
        std_fields(rng, lm, dts=("f32", "f64"))
        for extra, where in (("zero", "coord"), ("above", "coord"), ("above", "field")):
            z = None
            if extra == "above" and where == "coord":
                z = float(np.float32(4.0 * 1e-8 * max_abs(lm) * 1024))      # exactly representable in float32, far above tolerance
            put(make_case(rng, c17, c08, lm, sd, "dtypes", extra=extra, where=where, z=z, swap=rng.random() < 0.5,
                          noreorder=rng.random() < 0.5, opt={"points_dtype": "f32"}, extra_tags=["p6g-points-f32"]))
    return out
