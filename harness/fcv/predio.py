"""Cluster A plumbing: case representation for predicate evaluations, encoding for the Lean driver,
execution on the real fieldcompare predicates, and the independent exact/float oracles."""
from __future__ import annotations
import math
import warnings
from fractions import Fraction

import numpy as np

from .num import f2u, rn64

NP_DT = {"f64": np.float64, "f32": np.float32, "f16": np.float16,
         "i8": np.int8, "i16": np.int16, "i32": np.int32, "i64": np.int64,
         "u8": np.uint8, "u16": np.uint16, "u32": np.uint32, "u64": np.uint64}


# ---------------------------------------------------------------- case representation
# array  : {"dt": "f64", "shape": [n, k], "v": [python floats / ints / strs, flat, row-major]}
# tol    : ["num", x] | ["arr", shape, [x…]] | ["dflt"] | ["scaled", base|None] | ["scomp", base]

def np_array(arr: dict):
    if arr["dt"] == "str":
        x = np.array(arr["v"], dtype=str).reshape(arr["shape"])
    else:
        x = np.array(arr["v"], dtype=NP_DT[arr["dt"]]).reshape(arr["shape"])
    rep = arr.get("rep")
    return as_rep(x, rep) if rep else x


# optional key "rep" of an array dict: HOW the same logical values are handed to the implementation (phase 6 G1).
# Every representation holds exactly the values of the plain C-contiguous native array, so every expectation computed
# from "v"/"shape" (oracles, Lean model) is unchanged.
REPS_ARRAY = ["fortran", "strided", "negstride", "offset", "bigendian", "readonly", "frombuffer"]
REPS_PY = ["list", "tuple"]        # array-likes; only where the element type survives (f64 / i64 / str, size > 0)


def rep_applicable(arr: dict, rep: str) -> bool:
    size = len(arr["v"])
    if rep in REPS_PY:
        return arr["dt"] in ("f64", "i64", "str") and size > 0
    if rep == "bigendian":
        return arr["dt"] not in ("str", "i8", "u8")
    if rep == "fortran":
        return len(arr["shape"]) >= 2
    if rep in ("strided", "negstride", "offset"):
        return len(arr["shape"]) >= 1
    return True


def as_rep(x: np.ndarray, rep: str):
    if rep == "list":
        return x.tolist()
    if rep == "tuple":
        def tup(v):
            return tuple(tup(e) for e in v) if isinstance(v, list) else v
        return tup(x.tolist())
    if rep == "fortran":
        return np.asfortranarray(x)
    if rep == "strided":                 # every second row of a buffer twice as long
        big = np.empty((2 * x.shape[0],) + x.shape[1:], dtype=x.dtype)
        big[...] = np.zeros((), dtype=x.dtype)
        big[::2] = x
        return big[::2]
    if rep == "negstride":               # stored back to front, seen through a reversing view
        return np.ascontiguousarray(x[::-1])[::-1]
    if rep == "offset":                  # a window into a longer buffer (non-zero offset, base is not the array)
        big = np.empty((x.shape[0] + 3,) + x.shape[1:], dtype=x.dtype)
        big[...] = np.zeros((), dtype=x.dtype)
        big[2:2 + x.shape[0]] = x
        return big[2:2 + x.shape[0]]
    if rep == "bigendian":
        return x.astype(x.dtype.newbyteorder(">"))
    if rep == "readonly":
        y = x.copy()
        y.setflags(write=False)
        return y
    if rep == "frombuffer":              # what the VTK readers produce: read-only, memory owned by a bytes object
        if x.dtype.kind == "U":
            y = x.copy(); y.setflags(write=False)
            return y
        return np.frombuffer(x.tobytes(), dtype=x.dtype).reshape(x.shape)
    raise ValueError(rep)


def impl_tol(t):
    from fieldcompare.predicates import ScaledTolerance
    k = t[0]
    if k == "num":
        return float(t[1])
    if k == "int":                       # a Python int given as tolerance (0, 1, ...)
        assert float(int(t[1])) == float(t[1])
        return int(t[1])
    if k == "np64":
        return np.float64(t[1])
    if k == "arr":
        return np.array(t[2], dtype=np.float64).reshape(t[1])
    if k == "scaled":
        return ScaledTolerance(t[1]) if t[1] is not None else ScaledTolerance()
    if k == "scomp":
        return ScaledTolerance(t[1], use_component_magnitudes=True)
    raise ValueError(k)


def make_pred(kind: str, rel, abs_):
    from fieldcompare.predicates import FuzzyEquality, DefaultEquality, ExactEquality
    if kind == "exact":
        return ExactEquality()
    cls = FuzzyEquality if kind == "fuzzy" else DefaultEquality
    kw = {}
    if rel[0] != "dflt":
        kw["rel_tol"] = impl_tol(rel)
    if abs_[0] != "dflt":
        kw["abs_tol"] = impl_tol(abs_)
    return cls(**kw)


def run_impl(kind: str, rel, abs_, a: dict, b: dict, pred=None) -> str:
    """'T' / 'F' / 'E' (PredicateError) / 'X:<type>' (any other exception)"""
    from fieldcompare.predicates import PredicateError
    p = pred if pred is not None else make_pred(kind, rel, abs_)
    with warnings.catch_warnings():
        warnings.simplefilter("ignore")
        with np.errstate(all="ignore"):
            try:
                return "T" if bool(p(np_array(a), np_array(b))) else "F"
            except PredicateError:
                return "E"
            except Exception as e:  # noqa: BLE001
                return f"X:{type(e).__name__}"


# ---------------------------------------------------------------- encoding for the driver

def enc_arr(arr: dict, strtab: dict | None = None) -> str:
    dt = arr["dt"]
    if dt in ("f64", "f32", "f16"):
        vals = [str(f2u(float(x))) for x in arr["v"]]
    elif dt == "str":
        strtab = strtab if strtab is not None else {}
        vals = [str(strtab.setdefault(x, len(strtab))) for x in arr["v"]]
    else:
        vals = [str(int(x)) for x in arr["v"]]
    sh = arr["shape"]
    return f"{dt} {len(sh)} {' '.join(map(str, sh))} {len(vals)} {' '.join(vals)}".replace("  ", " ")


def enc_tol(t) -> str:
    k = t[0]
    if k in ("num", "int", "np64"):      # the same number for the model, however it is handed over
        return f"num {f2u(float(t[1]))}"
    if k == "arr":
        sh = t[1]
        us = [str(f2u(x)) for x in t[2]]
        return f"arr {len(sh)} {' '.join(map(str, sh))} {len(us)} {' '.join(us)}".replace("  ", " ")
    if k == "dflt":
        return "dflt"
    if k == "scaled":
        return "scaled none" if t[1] is None else f"scaled {f2u(t[1])}"
    if k == "scomp":
        return f"scomp {f2u(t[1])}"
    raise ValueError(k)


def enc_pred(kind, rel, abs_, a, b) -> str:
    st = {}
    # an omitted abs_tol is the constructor default 0.0 (the model's `dflt` is the *relative* default)
    abs_enc = "num 0" if abs_[0] == "dflt" else enc_tol(abs_)
    return f"pred {kind} {enc_tol(rel)} {abs_enc} {enc_arr(a, st)} {enc_arr(b, st)}"


# ---------------------------------------------------------------- independent oracles (f64)

def float_formula(a: float, b: float, rel: float, abs_: float) -> bool:
    """documented formula, each arithmetic step correctly rounded once to binary64 — computed with
    Python integers/fractions only (no numpy)"""
    d = abs(rn64(Fraction(b) - Fraction(a)))
    m = max(abs(a), abs(b))
    p = rn64(Fraction(m) * Fraction(rel))
    return d <= max(p, abs_)


def exact_formula(a: float, b: float, rel: float, abs_: float) -> bool:
    fa, fb = Fraction(a), Fraction(b)
    return abs(fa - fb) <= max(Fraction(rel) * max(abs(fa), abs(fb)), Fraction(abs_))


def shapes_compatible(s1, s2) -> bool:
    s1, s2 = list(s1), list(s2)
    return s1 == s2 or s1 == s2 + [1] or s2 == s1 + [1]


def _row_size(shape):
    r = 1
    for d in shape[1:]:
        r *= d
    return r


def oracle_tol_at(t, a: dict, b: dict, shape, i: int, eps: float):
    """tolerance at flat index i as the documentation demands; None = not defined (error)"""
    k = t[0]
    if k in ("num", "np64", "int"):
        return float(t[1])
    if k == "arr":
        if list(t[1]) != list(shape[1:]):
            return None
        return float(t[2][i % max(_row_size(shape), 1)])
    if k == "dflt":
        return eps
    if k == "scaled":
        if not a["v"] or not b["v"]:
            return None
        base = eps if t[1] is None else float(t[1])
        m = max(max(abs(float(x)) for x in a["v"]), max(abs(float(x)) for x in b["v"]))
        return rn64(Fraction(base) * Fraction(m))
    if k == "scomp":
        if not a["v"] or not b["v"]:
            return None
        rs = max(_row_size(shape), 1)
        c = i % rs
        m = max(max(abs(float(x)) for x in a["v"][c::rs]), max(abs(float(x)) for x in b["v"][c::rs]))
        return rn64(Fraction(m) * Fraction(float(t[1])))
    raise ValueError(k)


def oracle_fuzzy_f64(rel, abs_, a: dict, b: dict, formula=float_formula):
    """'T'/'F'/'E' demanded by C01 for float64 arrays (E: tolerance undefined for these operands)"""
    if not shapes_compatible(a["shape"], b["shape"]):
        return "F"
    shape = a["shape"] if len(a["shape"]) >= len(b["shape"]) else b["shape"]
    eps = 2.0 ** -52
    res = True
    for i, (x, y) in enumerate(zip(a["v"], b["v"])):
        r = oracle_tol_at(rel, a, b, shape, i, eps)
        t = oracle_tol_at(abs_, a, b, shape, i, 0.0)
        if r is None or t is None:
            return "E"
        if not formula(float(x), float(y), r, t):
            res = False
    if not a["v"]:
        # empty arrays: dynamic tolerances are undefined, otherwise vacuous truth
        for t in (rel, abs_):
            if t[0] in ("scaled", "scomp"):
                return "E"
    return "T" if res else "F"
