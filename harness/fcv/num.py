"""Exact conversions between Python/numpy floats and the model's integer 'units' (1 unit = 2**-1074)."""
from __future__ import annotations
from fractions import Fraction
import math
import struct

UNIT = 1074
_TWO_UNIT = 1 << UNIT


def f2u(x: float) -> int:
    """finite float -> signed integer number of units (exact)"""
    x = float(x)
    if not math.isfinite(x):
        raise ValueError("non-finite")
    n, d = x.as_integer_ratio()
    # d is a power of two <= 2**1074
    return n * (_TWO_UNIT // d)


def u2f(u: int) -> float:
    """units -> float (exact when representable; correctly rounded otherwise)"""
    return float(Fraction(u, _TWO_UNIT))


def bits64(x: float) -> int:
    return struct.unpack("<Q", struct.pack("<d", x))[0]


def from_bits64(b: int) -> float:
    return struct.unpack("<d", struct.pack("<Q", b))[0]


def next_up(x: float, k: int = 1) -> float:
    for _ in range(k):
        x = math.nextafter(x, math.inf)
    return x


def next_down(x: float, k: int = 1) -> float:
    for _ in range(k):
        x = math.nextafter(x, -math.inf)
    return x


def rn64(fr: Fraction) -> float:
    """correctly rounded binary64 of an exact rational; +-inf on overflow (CPython int/int division
    is correctly rounded)"""
    try:
        return fr.numerator / fr.denominator
    except OverflowError:
        return math.inf if fr > 0 else -math.inf
