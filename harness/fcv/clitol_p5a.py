"""Phase 5 / package A — the COMMAND-LINE route by which "tolerances given as numbers" reach the equality predicates.

Shared by C01 (the verdict is the documented formula under the tolerance that the documented option semantics select)
and C10 (reflexive / symmetric / monotone stated on that route).  Everything here is built from the existing cluster
B plumbing (`fcv.cli_scen`: logical tables / meshes, file writers with read-back side-check, in-process
`fieldcompare._cli.main`, the independent Python reading of `-rtol/-atol` `py_parse_tols`/`py_tol_for`) and the cluster
A plumbing (`fcv.predio`: protocol lines of the predicate model, float oracle).

Documented option semantics (`fieldcompare file --help`; C04's token-level model `per-field ?? global ?? default`):
  * `-rtol V` / `-atol V`            tolerance for all fields,
  * `-rtol NAME:V` / `-atol NAME:V`  tolerance for field NAME, overriding the general one (whatever the order),
  * neither given                    rel = eps of the dtype (the predicate's default), abs = 0,
  * `-atol [NAME:]V*max`             abs = V * max|value| of the two fields (data-computed tolerance).
A tolerance of exactly zero is a tolerance like every other one (C01/C10 quantify over all rel_tol >= 0, abs_tol >= 0).

A *case* is a plain dict {"kind": "cli-tol", "fmt", "sc": <cli_scen file scenario>, "probe", "layout", "placement"};
a *chain group* is {"kind": "cli-chain", "fmt", "sc", "opt", "levels", "probe", ...} (see `gen_chain_group`)."""
from __future__ import annotations
import copy
import math
from fractions import Fraction

from . import cli_scen as cs
from . import meshgen, predio
from .num import next_down, next_up, rn64

EPS64 = 2.0 ** -52

ZERO_LITS = ["0", "0.0", "0e0", "0.", "0.000", "00"]
REL_LITS = ["1e-17", "1e-12", "1e-9", "1e-6", "1e-3", "2e-2", "0.5"]
ABS_MULTS = [1e-12, 1e-9, 1e-6, 1e-3, 0.25]          # times the magnitude of the probe field
TABLE_NAMES = ["p", "T", "vel_x", "rho", "p0", "k1", "x", "sat"]
POINT_NAMES = ["p", "T", "vel", "rho", "p0"]
CELL_NAMES = ["k1", "sat", "c0"]

# argument lists of ONE tolerance option, relative to a target field `f` and another field `o`:
#   g = general non-zero value, g0 = general zero, f = value for the target, f0 = zero for the target,
#   o / o0 = value / zero for the other field.   "a+b" = a given before b on the command line.
LAYOUTS = ["absent", "g", "g0", "f", "f0", "g+f0", "f0+g", "g0+f", "f+g0", "g+f", "f+g", "o0+g", "f0+o"]


# ---------------------------------------------------------------- data

def _rand_value(rng, scale: float) -> float:
    """non-zero float64 of magnitude ~scale with a full 52-bit mantissa (CSV text is `repr`, which round-trips)"""
    m = 1.0 + rng.getrandbits(52) / 2.0 ** 52
    x = scale * m * rng.choice([1.0, 1.0, 0.5, 3.0])
    return -x if rng.random() < 0.35 else x


def gen_table(rng):
    rows = rng.choice([2, 3, 3, 5, 8])
    names = rng.sample(TABLE_NAMES, rng.randint(2, 4))
    cols = []
    for n in names:
        scale = rng.choice([1.0, 1.0, 1e-6, 1e4, 300.0])
        cols.append({"name": n, "dt": "f64", "v": [_rand_value(rng, scale) for _ in range(rows)], "scale": scale})
    return {"kind": "table", "rows": rows, "cols": cols}


def gen_mesh_data(rng):
    """small unstructured mesh (as C04 generates them for `.vtu`) carrying float64 scalar / 3-vector point fields and
    scalar cell fields"""
    lm, _tags = meshgen.gen_mesh(rng, max_cells_per_dir=rng.choice([1, 2, 2]), dims=(2, 3), allow_orphans=False,
                                 allow_duplicates=False, fields=False, types=rng.choice(["quad", "tri", "mixed2"]),
                                 scale=rng.choice([1.0, 1.0, 50.0]))
    lm["points"] = [list(p) + [0.0] * (3 - len(p)) for p in lm["points"]]     # the VTU writer stores 3 coordinates
    lm["dim"] = 3
    npnt = len(lm["points"])
    for n in rng.sample(POINT_NAMES, rng.randint(1, 3)):
        tail = rng.choice([[], [], [3]])
        scale = rng.choice([1.0, 1.0, 1e-6, 1e4])
        lm["pf"].append({"name": n, "dt": "f64", "tail": tail, "scale": scale,
                         "v": [_rand_value(rng, scale) for _ in range(npnt * (3 if tail else 1))]})
    for n in rng.sample(CELL_NAMES, rng.randint(0, 2)):
        scale = rng.choice([1.0, 1e-6, 1e4])
        for t, rows in lm["cells"]:
            lm["cf"].append({"name": n, "ctype": t, "dt": "f64", "tail": [], "scale": scale,
                             "v": [_rand_value(rng, scale) for _ in range(len(rows))]})
    return {"kind": "mesh", "lm": lm}


def logical_fields(d):
    """the mutable logical field records of a data set: [(bare name, record with 'v' and 'scale')]"""
    if d["kind"] == "table":
        return [(c["name"], c) for c in d["cols"]]
    return [(f["name"], f) for f in d["lm"]["pf"] + d["lm"]["cf"]]


def gen_pair(rng, fmt):
    """identical result / reference data of format `fmt` ('csv' | 'vtu'); deviations are applied by the caller"""
    ref = gen_table(rng) if fmt == "csv" else gen_mesh_data(rng)
    res = copy.deepcopy(ref)
    if fmt == "vtu":
        res.update(topo_same=True, moved=None)
    return res, ref


def finish(rng, sc):
    """fix the stored form (meshes: same storage order on both sides) once the logical data are final"""
    for side in ("res", "ref"):
        if sc[side]["kind"] == "mesh":
            cs._store(rng, sc[side], relabel_p=0.0)
    return sc


def base_scenario(rng, fmt, res, ref, p_read_as=0.5):
    """file scenario without options; CSV files are read either by extension (delimiter / header sniffing) or through
    an explicit `--read-as dsv{…}` (much cheaper: no sniffing)"""
    sc = {"kind": fmt if fmt == "csv" else "mesh", "rtol": None, "atol": None, "flags": {}, "incl": None, "excl": None,
          "read_as": None, "damage": [None, None], "res": res, "ref": ref}
    if fmt == "csv" and rng.random() < p_read_as:
        sc["read_as"] = [cs.DSV_READER]
    return sc


# ---------------------------------------------------------------- option tokens

def zero_lit(rng) -> str:
    return rng.choice(ZERO_LITS)


def value_lit(rng, opt: str, scale: float, exclude=()) -> str:
    """a non-zero literal for option `opt`; absolute values are scaled to the data, sometimes data-computed (`*max`)"""
    for _ in range(20):
        if opt == "rtol":
            v = rng.choice(REL_LITS)
        elif rng.random() < 0.2:
            v = rng.choice(["1e-9", "1e-6", "1e-3", "0.25"]) + "*max"
        else:
            v = "{:g}".format(rng.choice(ABS_MULTS) * scale)
        if v not in exclude:
            return v
    return v


def layout_tokens(rng, layout: str, opt: str, target: str, other: str, scale: float):
    """argument strings of option `opt` for a layout id of LAYOUTS (None = option absent)"""
    if layout == "absent":
        return None
    g = value_lit(rng, opt, scale)
    f = value_lit(rng, opt, scale, exclude=(g,))
    o = value_lit(rng, opt, scale)
    part = {"g": g, "g0": zero_lit(rng), "f": f"{target}:{f}", "f0": f"{target}:{zero_lit(rng)}",
            "o": f"{other}:{o}", "o0": f"{other}:{zero_lit(rng)}"}
    return [part[k] for k in layout.split("+")]


def selected(sc, name: str):
    """(rel, abs) in predio form that the documented option semantics select for the field called `name`
    (per-field value, else the general one, else the defaults rel = eps of the dtype, abs = 0); None = the option
    strings are not of the plain accepted form (never generated here)"""
    rt, at_ = cs.py_parse_tols(sc["rtol"], False), cs.py_parse_tols(sc["atol"], True)
    if rt in (None, "X") or at_ in (None, "X"):
        return None
    r, a = cs.py_tol_for(rt, cs.bare(name)), cs.py_tol_for(at_, cs.bare(name))
    rel = ["dflt"] if r is None else ["num", r[1]]
    abs_ = ["num", 0.0] if a is None else (["num", a[1]] if a[0] == "num" else ["scaled", a[1]])
    return rel, abs_


def field_pairs(sc):
    """[(annotated name, source array, reference array, rel, abs)] of the fields the run compares"""
    ref = dict(cs.data_fields(sc["ref"]))
    out = []
    for n, a in cs.data_fields(sc["res"]):
        sel = selected(sc, n)
        if sel is None or n not in ref:
            return None
        out.append((n, a, ref[n], sel[0], sel[1]))
    return out


# ---------------------------------------------------------------- deviations

def partner(rng, a: float, r: float, t: float, placement: str) -> float:
    """b with |a-b| ON the threshold max(r*max(|a|,|b|), t) of the documented formula ('at'; threshold evaluated by
    fixed-point iteration), one or two ulp NEARER to a ('inside') or one ulp FARTHER from a ('outside'; 'outside2' = two)"""
    up = rng.random() < 0.5
    m, b = abs(a), a
    for _ in range(3):
        thr = max(rn64(Fraction(m) * Fraction(r)), t)
        if math.isinf(thr):
            thr = 1e300
        b = rn64(Fraction(a) + Fraction(thr if up else -thr))
        if math.isinf(b):
            return a
        m = max(abs(a), abs(b))
    away, toward = (next_up, next_down) if up else (next_down, next_up)
    if placement == "outside":
        b = away(b, 1)
    elif placement == "outside2":
        b = away(b, 2)
    elif placement == "inside":
        for _ in range(rng.choice([1, 2])):
            if b != a:
                b = toward(b, 1)
    return b if math.isfinite(b) else a


def threshold_inputs(sc, name, rec):
    """(r, t) floats governing entry values of logical field `rec` (called `name`) under the selected tolerances"""
    rel, abs_ = selected(sc, name)
    arr = {"dt": "f64", "shape": [len(rec["v"])], "v": rec["v"]}
    r = predio.oracle_tol_at(rel, arr, arr, arr["shape"], 0, EPS64)
    t = predio.oracle_tol_at(abs_, arr, arr, arr["shape"], 0, 0.0)
    return r, t


def deviate(rng, sc, name: str, placement: str):
    """replace ONE entry of the field `name` (first / last / interior position) on one side by a value placed relative to
    the threshold of the selected tolerances; returns a description or None"""
    side = rng.choice(["res", "ref"])
    recs = [r for n, r in logical_fields(sc[side]) if n == name and r["v"]]
    if not recs:
        return None
    rec = rng.choice(recs)
    i = rng.choice([0, len(rec["v"]) - 1, rng.randrange(len(rec["v"]))])
    a = float(rec["v"][i])
    r, t = threshold_inputs(sc, name, rec)
    if r is None or t is None:
        return None
    b = partner(rng, a, r, t, placement)
    rec["v"][i] = b
    return {"side": side, "index": i, "from": a, "to": b}


def background(rng, sc, skip: str):
    """deviations well INSIDE the selected tolerance (a quarter of the threshold) in some of the other fields, so that the
    general / other-field entries of the options matter too (identical when the threshold is zero)"""
    for n, rec in logical_fields(sc["res"]):
        if n == skip or not rec["v"] or rng.random() < 0.5:
            continue
        r, t = threshold_inputs(sc, n, rec)
        if r is None or t is None:
            continue
        i = rng.randrange(len(rec["v"]))
        a = float(rec["v"][i])
        thr = max(r * abs(a), t)
        b = a + 0.25 * thr * rng.choice([1.0, -1.0])
        if math.isfinite(b):
            rec["v"][i] = b


# ---------------------------------------------------------------- C01: enumerated layouts

def gen_case(rng, fmt, lr, la, placement):
    res, ref = gen_pair(rng, fmt)
    sc = base_scenario(rng, fmt, res, ref)
    names = []
    for n, _ in logical_fields(ref):
        if n not in names:
            names.append(n)
    target = rng.choice(names)
    other = rng.choice([n for n in names if n != target] or ["nosuchfield"])
    probe = target if rng.random() < 0.75 or other == "nosuchfield" else other
    scale = [r for n, r in logical_fields(ref) if n == probe][0]["scale"]
    sc["rtol"] = layout_tokens(rng, lr, "rtol", target, other, scale)
    sc["atol"] = layout_tokens(rng, la, "atol", target, other, scale)
    background(rng, sc, probe)
    dev = deviate(rng, sc, probe, placement)
    finish(rng, sc)
    case = {"kind": "cli-tol", "fmt": fmt, "probe": probe, "target": target, "layout": [lr, la],
            "placement": placement, "deviation": dev, "sc": strip(sc)}
    tags = ["cli-route", "cli-" + fmt, "cli-rtol-" + lr, "cli-atol-" + la, "cli-dev-" + placement,
            "cli-probe-" + ("target" if probe == target else "other")]
    return case, tags


def strip(sc):
    """drop generator-only keys so that the case is the literal input"""
    sc = copy.deepcopy(sc)
    for side in ("res", "ref"):
        for _, rec in logical_fields(sc[side]):
            rec.pop("scale", None)
        if sc[side]["kind"] == "mesh":
            for f in sc[side]["stored"]["pf"] + sc[side]["stored"]["cf"]:
                f.pop("scale", None)
    return sc


def layout_cases(rng, n_vtu_pairs: int, rounds: int = 1):
    """every pair (rtol layout, atol layout) of LAYOUTS on CSV files — once with the deviation one ulp OUTSIDE the
    threshold, once AT / INSIDE it — and `n_vtu_pairs` pairs drawn for `.vtu` meshes"""
    out = []
    for _ in range(rounds):
        for lr in LAYOUTS:
            for la in LAYOUTS:
                out.append(gen_case(rng, "csv", lr, la, "outside"))
                out.append(gen_case(rng, "csv", lr, la, rng.choice(["at", "inside", "at", "outside2"])))
        pairs = [(lr, la) for lr in LAYOUTS for la in LAYOUTS]
        for lr, la in rng.sample(pairs, min(n_vtu_pairs, len(pairs))):
            out.append(gen_case(rng, "vtu", lr, la, "outside"))
            out.append(gen_case(rng, "vtu", lr, la, rng.choice(["at", "inside"])))
    return out


# ---------------------------------------------------------------- running

def run_files(sc, wd, argvs, check_read=True):
    """write the two files ONCE and run `fieldcompare file A B <options>` for every (a, b, rtol, atol) of `argvs`
    (a, b in {'res', 'ref'}) -> {"readok", "outs": [outcome class]}"""
    d = wd.fresh()
    try:
        res, ref = cs.materialise(sc, d)
        readok = cs.read_check(sc, res, ref) if check_read else True
        path = {"res": res, "ref": ref}
        outs = []
        for a, b, rtol, atol in argvs:
            o = cs.option_argv(dict(sc, rtol=rtol, atol=atol))
            out, _ = cs.run_cli(["file", path[a], path[b]] + o, None)
            outs.append(cs.outcome_class(out))
        return {"readok": readok, "outs": outs}
    finally:
        wd.drop(d)


def model_lines(pairs):
    return [predio.enc_pred("fuzzy", rel, abs_, a, b) for _, a, b, rel, abs_ in pairs]


def python_verdicts(pairs):
    return [predio.oracle_fuzzy_f64(rel, abs_, a, b) for _, a, b, rel, abs_ in pairs]


def expected(ctx, scs):
    """for every scenario: {"pairs", "model": ['T'/'F'…]|None, "spec": […]|None, "hyp": bool, "py": ['T'/'F'/'E'…],
    "bad": reply|None}   (model / spec = verdicts of `Fc.fuzzyCheck` / `Fc.Spec.fuzzySpec` per compared field)"""
    allp = [field_pairs(sc) for sc in scs]
    lines, idx = [], []
    for k, pairs in enumerate(allp):
        for ln in model_lines(pairs or []):
            lines.append(ln)
            idx.append(k)
    reps = ctx.lean(lines) if (ctx.driver_ok and lines) else [None] * len(lines)
    per = [[] for _ in scs]
    for k, r in zip(idx, reps):
        per[k].append(r)
    out = []
    for pairs, rs in zip(allp, per):
        e = {"pairs": pairs, "model": None, "spec": None, "hyp": False, "py": python_verdicts(pairs or []), "bad": None}
        if pairs and rs and all(r is not None for r in rs):
            bad = [r for r in rs if "model" not in r]
            if bad:
                e["bad"] = bad[0]
            else:
                e["model"] = [r["model"] for r in rs]
                e["spec"] = [r["spec"] for r in rs]
                e["hyp"] = all(r.get("hyp") == "1" for r in rs)
        out.append(e)
    return out


def want_exit(verdicts):
    """exit class the property demands: '0' iff every compared field is equal; None = some verdict undefined"""
    if verdicts is None or any(v not in ("T", "F") for v in verdicts):
        return None
    return "0" if all(v == "T" for v in verdicts) else "nz"


def agrees(out: str, want) -> bool:
    return want is None or (out == "0") == (want == "0")


def describe(e):
    return [{"field": n, "rel": rel, "abs": abs_, "model": (e["model"] or [None] * len(e["pairs"]))[i], "python": e["py"][i]}
            for i, (n, _a, _b, rel, abs_) in enumerate(e["pairs"])]


def option_argv(sc):
    return cs.option_argv(sc)


# ---------------------------------------------------------------- C10: chains of tolerance levels

REL_CHAIN = ["1e-17", "1e-12", "1e-9", "1e-6", "1e-3", "0.5"]
GMODES = ["none", "g-before-above", "g-after-above", "g-before-between", "g-after-below", "global-chain", "g0+field"]
SAME = {"1e-3": "0.001", "1e-6": "0.000001", "0.5": ".5", "1e-9": "1E-9"}


def _abs_chain(scale):
    return ["{:g}".format(m * scale) for m in (1e-14, 1e-11, 1e-8, 1e-5, 1e-2, 0.4)]


def gen_chain_group(rng, fmt, opt, gmode, jlevel, placement):
    """ONE pair of files and a chain of argument lists for option `opt` whose selected tolerance for the target field
    grows level by level, starting at an explicit ZERO: 0 = t0 <= t1 <= t2 (<= t3); the general value of the same
    option (absent / given before / given after the per-field value; larger than, between, smaller than the per-field
    values) and the other option are the same at all levels, so every field's selected (rel, abs) is non-decreasing
    along the chain.  The deviation of the target field sits on / next to the threshold of level `jlevel`."""
    res, ref = gen_pair(rng, fmt)
    sc = base_scenario(rng, fmt, res, ref, p_read_as=0.75)
    names = []
    for n, _ in logical_fields(ref):
        if n not in names:
            names.append(n)
    target = rng.choice(names)
    other = rng.choice([n for n in names if n != target] or ["nosuchfield"])
    scale = [r for n, r in logical_fields(ref) if n == target][0]["scale"]
    pool = REL_CHAIN if opt == "rtol" else _abs_chain(scale)
    L = rng.choice([3, 3, 4])
    # positions in the pool: chain values pool[i1] < pool[i2] (< pool[i3]); a general value above / between / below
    if gmode.endswith("above"):
        idx = sorted(rng.sample(range(0, len(pool) - 1), L - 1))
        g = pool[rng.randint(idx[-1] + 1, len(pool) - 1)]
    elif gmode.endswith("between"):
        gi = rng.randint(1, len(pool) - 2)
        nlow = rng.randint(1, min(L - 2, gi))
        nhigh = min(L - 1 - nlow, len(pool) - 1 - gi)
        idx = sorted(rng.sample(range(0, gi), nlow) + rng.sample(range(gi + 1, len(pool)), nhigh))
        g = pool[gi]
    elif gmode.endswith("below"):
        idx = sorted(rng.sample(range(1, len(pool)), L - 1))
        g = pool[rng.randint(0, idx[0] - 1)]
    else:
        idx = sorted(rng.sample(range(0, len(pool)), L - 1))
        g = None
    vals = [zero_lit(rng)] + [pool[i] for i in idx]
    if rng.random() < 0.25:           # a repeated level in another spelling: equal tolerances, equal verdicts
        k = rng.randrange(1, len(vals))
        if vals[k] in SAME:
            vals.insert(k + 1, SAME[vals[k]])
    levels = []
    with_other = other != "nosuchfield" and rng.random() < 0.5
    for v in vals:
        if gmode == "none":
            levels.append([f"{target}:{v}"])
        elif gmode.startswith("g-before"):
            levels.append([g, f"{target}:{v}"])
        elif gmode.startswith("g-after"):
            levels.append([f"{target}:{v}", g])
        elif gmode == "global-chain":
            levels.append([v, f"{other}:{pool[-1]}"] if with_other else [v])
        else:                          # "g0+field"
            levels.append([zero_lit(rng), f"{target}:{v}"])
    oopt = "atol" if opt == "rtol" else "rtol"
    okind = rng.choice(["absent", "zero", "tiny", "field-zero"])
    otoks = {"absent": None, "zero": [zero_lit(rng)],
             "tiny": ["1e-17" if oopt == "rtol" else "{:g}".format(1e-15 * scale)],
             "field-zero": [f"{target}:{zero_lit(rng)}"]}[okind]
    j = min(jlevel, len(levels) - 1)
    sc[opt], sc[oopt] = levels[j], otoks
    dev = deviate(rng, sc, target, placement)
    finish(rng, sc)
    sc[opt] = None
    group = {"kind": "cli-chain", "fmt": fmt, "opt": opt, "levels": levels, "other_opt": oopt, "other_tokens": otoks,
             "gmode": gmode, "target": target, "placed_at_level": j, "placement": placement, "deviation": dev,
             "sc": strip(sc)}
    tags = ["cli-chain", "cli-" + fmt, "chain-" + opt, "chain-" + gmode, f"chain-dev-level{j}-{placement}"]
    return group, tags


def chain_groups(rng, n_vtu: int, rounds: int = 1):
    out = []
    for _ in range(rounds):
        combos = [(opt, gm, j, pl) for opt in ("rtol", "atol") for gm in GMODES for j in (1, 2)
                  for pl in ("outside", "inside-or-at")]
        combos += [(opt, gm, 0, "outside") for opt in ("rtol", "atol") for gm in GMODES]
        for opt, gm, j, pl in combos:
            out.append(gen_chain_group(rng, "csv", opt, gm, j, pl if pl != "inside-or-at" else rng.choice(["inside", "at"])))
        for opt, gm, j, pl in rng.sample(combos, min(n_vtu, len(combos))):
            out.append(gen_chain_group(rng, "vtu", opt, gm, j, pl if pl != "inside-or-at" else rng.choice(["inside", "at"])))
    return out


def level_scenario(group, k):
    """the file scenario of level k of a chain group"""
    sc = copy.deepcopy(group["sc"])
    sc[group["opt"]] = group["levels"][k]
    sc[group["other_opt"]] = group["other_tokens"]
    return sc


def tol_leq(t1, t2) -> bool:
    """selected tolerance t1 <= t2 (same kind; the default relative tolerance of float64 data is eps)"""
    v = lambda t: EPS64 if t[0] == "dflt" else t[1]  # noqa: E731
    k1 = "num" if t1[0] == "dflt" else t1[0]
    k2 = "num" if t2[0] == "dflt" else t2[0]
    return k1 == k2 and v(t1) <= v(t2)


def levels_ordered(group, i, j) -> bool:
    """every field's selected (rel, abs) at level i is <= the one at level j (from the documented option semantics)"""
    pi, pj = field_pairs(level_scenario(group, i)), field_pairs(level_scenario(group, j))
    if pi is None or pj is None or len(pi) != len(pj):
        return False
    return all(tol_leq(a[3], b[3]) and tol_leq(a[4], b[4]) for a, b in zip(pi, pj))


def chain_argvs(group, rng=None):
    """runs of one chain group: every level (res, ref); two levels with swapped files; the reference / the result against
    ITSELF at the zero level and under all-zero options"""
    opt = group["opt"]

    def ra(k):
        toks = group["levels"][k]
        return (toks, group["other_tokens"]) if opt == "rtol" else (group["other_tokens"], toks)
    runs = []
    n = len(group["levels"])
    for k in range(n):
        r, a = ra(k)
        runs.append({"run": "level", "level": k, "files": ["res", "ref"], "rtol": r, "atol": a})
    for k in sorted({0, group["placed_at_level"], n - 1}):
        r, a = ra(k)
        runs.append({"run": "swapped", "level": k, "files": ["ref", "res"], "rtol": r, "atol": a})
    r, a = ra(0)
    runs.append({"run": "self", "level": 0, "files": ["ref", "ref"], "rtol": r, "atol": a})
    runs.append({"run": "self", "level": None, "files": ["res", "res"], "rtol": ["0"], "atol": ["0"]})
    tz = group["target"] + ":0"
    runs.append({"run": "self", "level": None, "files": ["ref", "ref"], "rtol": [tz], "atol": [tz, "0.0"]})
    return runs


def run_chain(group, wd):
    runs = chain_argvs(group)
    r = run_files(group["sc"], wd, [(x["files"][0], x["files"][1], x["rtol"], x["atol"]) for x in runs])
    for x, o in zip(runs, r["outs"]):
        x["out"] = o
    return r["readok"], runs


def run_scenario(sc, d_res="res", d_ref="ref"):
    """stand-alone (replay): -> outcome class"""
    wd = cs.Workdir()
    try:
        return run_files(sc, wd, [(d_res, d_ref, sc["rtol"], sc["atol"])])
    finally:
        wd.close()
