"""Phase 6 package G2, property C19: "extended histories" — object kinds, operations and storage forms the effect model
(`c19hist`, FcModel/Effects.lean) does not talk about.  Everything in this module is SEARCH: the implementation is held
against the property's own wording, computed independently in Python:

  (W) no array of a data set that was handed to / handed out by the public API is modified (bytes, dtype, shape,
      `flags.writeable`), nor what an object exposes through its public accessors (digest of the object),
  (F) no input file is modified (bytes, mtime), nothing is created or removed in the working directory, the input
      directories, the output directory and the private TMPDIR except the explicitly requested diff / report / output files,
  (R) every evaluation of the same comparison gives the same verdict and per-field statuses: the same comparator object
      again, a fresh one, the same / a fresh predicate object, after other operations, in another process (subprocess with
      a fixed but different PYTHONHASHSEED).

Families (case["family"]):
  "tab"   : TabularFields (in memory with / without an index map, sharing arrays, read from a .csv file) under
            FieldDataComparator, predicate selectors handing out ONE predicate object, diff_to in both roles,
            tabular.transform, io.write (.csv), repeated iteration, re-reading the file;
  "meshx" : mesh data sets stored as read-only / strided / Fortran-ordered / narrow (float32 points, uint8..int32
            connectivity) / big-endian arrays, two fields sharing ONE array, source and reference sharing ALL arrays,
            the same object in both roles, NaN / inf values; merge with 3 operands / remove_duplicate_points=False /
            an object with itself, diff_to in both directions, a view of a view (the same transformation twice),
            meshio round trip, FieldDataComparator on meshes, shared predicate objects (ExactEquality, FuzzyEquality,
            DefaultEquality, one ScaledTolerance object inside two predicates);
  "seq"   : sequences (.pvd of .vtu files written by fieldcompare; XDMF time series written by meshio): complete and
            abandoned iterations, steps kept by the caller, step-wise comparison, the CLI on the two sequence files,
            re-opening the file;
  "smerge": StructuredFieldMerger (public; merges the pieces of parallel structured files): one merger object used for
            several point / cell fields and again for the same field, a fresh merger; piece arrays and every array
            handed out earlier are watched;
  "cli"   : `main([...])` in-process twice and in a subprocess for a catalogue of option combinations in file and dir
            mode (--diff, --junit-xml, tolerances, ignore/include/exclude options, --read-as) on mesh, table and sequence
            files, including failing and erroring runs (missing / corrupt / unsupported / mismatching files).

All cases are JSON-able dictionaries with explicit data (replay: `vcheck.py C19 --replay`).  The functions take the c19
check module as `api` (gen_base_mesh, gen_fields_simple, suite_summary, object_digest, junit_statuses, cli_inprocess...).
"""
from __future__ import annotations
import contextlib
import copy
import hashlib
import logging
import os
import shutil
import subprocess
import sys
import tempfile
import warnings

import numpy as np

from . import meshgen, core

NP = {"f64": np.float64, "f32": np.float32, "i64": np.int64, "i32": np.int32, "str": str}


# ---------------------------------------------------------------- observation

def _hash_file(p):
    with open(p, "rb") as fh:
        return hashlib.blake2b(fh.read(), digest_size=12).hexdigest()


def _listing(d):
    out = []
    for root, _dirs, files in os.walk(d):
        for f in files:
            out.append(os.path.join(root, f))
    return sorted(out)


class Watch:
    """arrays / objects / files / directories under observation; `check(label, allowed)` after every step"""

    def __init__(self, dirs):
        self.dirs = list(dirs)
        self.held = {}
        self.objs = []            # (label, object, digest function, last digest)
        self.files = {}
        self.complaints = []
        self._arr = {}
        self._list = []

    def hold(self, key, arr):
        if isinstance(arr, np.ndarray):
            self.held[key] = arr

    def hold_obj(self, label, obj, fn):
        self.objs.append([label, obj, fn, self._digest(obj, fn)])

    def hold_files(self, paths):
        for p in paths:
            self.files[p] = (_hash_file(p), os.stat(p).st_mtime_ns)

    @staticmethod
    def _digest(obj, fn):
        try:
            with warnings.catch_warnings():
                warnings.simplefilter("ignore")
                return fn(obj)
        except Exception as e:  # noqa: BLE001
            return f"unreadable: {type(e).__name__}"

    @staticmethod
    def _snap(a):
        return (a.tobytes(), bool(a.flags.writeable), a.dtype.str, a.shape)

    def before(self):
        self._arr = {k: self._snap(a) for k, a in self.held.items()}
        self._list = [f for d in self.dirs for f in _listing(d)]

    def check(self, label, allowed=()):
        """-> list of files that appeared (all of them, allowed or not)"""
        bad = sorted(str(k) for k, a in self.held.items() if k in self._arr and self._snap(a) != self._arr[k])
        if bad:
            self.complaints.append(f"{label}: arrays modified: {bad[:4]}")
        for p, (h, mt) in self.files.items():
            if not os.path.exists(p):
                self.complaints.append(f"{label}: input file removed: {os.path.basename(p)}")
            elif (_hash_file(p), os.stat(p).st_mtime_ns) != (h, mt):
                self.complaints.append(f"{label}: input file modified: {os.path.basename(p)}")
        now = [f for d in self.dirs for f in _listing(d)]
        new = [f for f in now if f not in self._list]
        gone = [f for f in self._list if f not in now]
        extra = [f for f in new if not any(al(f) if callable(al) else f == al for al in allowed)]
        if extra or gone:
            self.complaints.append(f"{label}: files created {[os.path.basename(f) for f in extra]} / removed "
                                   f"{[os.path.basename(f) for f in gone]} that were not requested")
        for ent in self.objs:
            d = self._digest(ent[1], ent[2])
            if d != ent[3]:
                self.complaints.append(f"{label}: data set '{ent[0]}' no longer exposes the content it had before")
                ent[3] = d
        return new


def tab_digest(obj):
    dom = obj.domain
    idx = dom.indices
    parts = [("rows", int(dom.number_of_rows)), ("idx", None if idx is None else np.asarray(idx).tobytes())]
    for f in obj:
        v = np.asarray(f.values)
        parts.append((f.name, v.dtype.str, v.shape, np.ascontiguousarray(v).tobytes()))
    return parts


def meshio_digest(m):
    parts = [("P", np.ascontiguousarray(m.points).tobytes())]
    for blk in m.cells:
        parts.append((blk.type, np.ascontiguousarray(blk.data).tobytes()))
    for n, v in m.point_data.items():
        parts.append(("pd", n, np.ascontiguousarray(v).tobytes()))
    for n, vs in m.cell_data.items():
        for v in vs:
            parts.append(("cd", n, np.ascontiguousarray(v).tobytes()))
    return parts


def proc_state():
    return {"cwd": os.getcwd(), "environ": dict(os.environ), "seterr": dict(np.geterr()),
            "printoptions": repr(np.get_printoptions()), "log-level": logging.getLogger().level,
            "log-handlers": len(logging.getLogger().handlers)}


# ---------------------------------------------------------------- predicates (shared object vs fresh objects)

PRED_SPECS = [
    ["exact"],
    ["fuzzy", None, 0.0],
    ["fuzzy", 1e-6, ["scaled", 1e-6]],
    ["default", ["scaled", None], ["scaled", None]],
    ["default", ["shared", 1e-7], ["shared", 1e-7]],      # ONE ScaledTolerance object used as rel and abs tolerance
    ["default", 1e-9, ["shared", None]],                  # ... and the same object inside a second predicate
]


class Preds:
    """predicate objects that live as long as the history (index -> object), and their fresh twins"""

    def __init__(self):
        self.shared_tol = {}
        self.objs = {}

    def _tol(self, t, fresh):
        from fieldcompare.predicates import ScaledTolerance
        if isinstance(t, list):
            base = t[1]
            if t[0] == "shared" and not fresh:
                if base not in self.shared_tol:
                    self.shared_tol[base] = ScaledTolerance() if base is None else ScaledTolerance(base)
                return self.shared_tol[base]
            return ScaledTolerance() if base is None else ScaledTolerance(base)
        return t

    def make(self, k, fresh):
        from fieldcompare.predicates import ExactEquality, FuzzyEquality, DefaultEquality
        if not fresh and k in self.objs:
            return self.objs[k]
        spec = PRED_SPECS[k]
        if spec[0] == "exact":
            p = ExactEquality()
        else:
            kw = {"abs_tol": self._tol(spec[2], fresh)}
            if spec[1] is not None:
                kw["rel_tol"] = self._tol(spec[1], fresh)
            p = (FuzzyEquality if spec[0] == "fuzzy" else DefaultEquality)(**kw)
        if not fresh:
            self.objs[k] = p
        return p


def _summary(api, call):
    try:
        return api.suite_summary(call())
    except Exception as e:  # noqa: BLE001
        return ["X", type(e).__name__, []]


class Evals:
    """repeated evaluations: key -> list of summaries (all must agree); `again` re-evaluates everything at the end"""

    def __init__(self):
        self.runs = {}
        self.thunks = {}

    def add(self, key, value):
        self.runs.setdefault(repr(key), []).append(value)

    def later(self, key, thunk):
        self.thunks[repr(key)] = thunk

    def again(self):
        for k, th in self.thunks.items():
            for v in th():
                self.runs.setdefault(k, []).append(v)

    def complaints(self):
        return [f"repeated evaluation {k} disagrees: {rs[:4]}" for k, rs in self.runs.items() if any(r != rs[0] for r in rs)]


def compare_ops(api, ev, cache, preds, kind, key, x, y, pk=None):
    """kind: 'mfc' MeshFieldsComparator, 'fdc' FieldDataComparator; pk: index of a shared predicate or None"""
    from fieldcompare import FieldDataComparator
    from fieldcompare.mesh import MeshFieldsComparator
    cls = MeshFieldsComparator if kind == "mfc" else FieldDataComparator

    def run(cobj, fresh_pred):
        kw = {"fieldcomp_callback": lambda _c: None}
        if pk is not None:
            kw["predicate_selector"] = lambda _a, _b: preds.make(pk, fresh_pred)
        return _summary(api, lambda: cobj(**kw))

    def all_runs():
        out = []
        if key not in cache:
            cache[key] = cls(x, y)
            out.append(run(cache[key], False))
        out.append(run(cache[key], False))             # the long-lived comparator object (again)
        out.append(run(cls(x, y), False))              # a fresh comparator, the long-lived predicate object
        if pk is not None:
            out.append(run(cls(x, y), True))           # fresh comparator, fresh predicate per field
            out.append(run(cache[key], True))
        return out
    for s in all_runs():
        ev.add(key, s)
    ev.later(key, all_runs)


# ---------------------------------------------------------------- storage forms

def store(a, how, rng_int=0):
    """the same values, stored differently"""
    a = np.asarray(a)
    if how == "readonly":
        b = a.copy()
        b.setflags(write=False)
        return b
    if how == "strided":
        big = np.zeros((2 * a.shape[0] + 1,) + a.shape[1:], dtype=a.dtype)
        big[1::2] = a
        return big[1::2]
    if how == "fortran":
        return np.asfortranarray(a.copy())
    if how == "bigendian":
        if a.dtype.kind in "fiu":
            return a.astype(a.dtype.newbyteorder(">"))
        return a.copy()
    return a.copy()


def narrow_conn(c, npoints, pick):
    opts = [np.int32]
    if npoints <= 32767:
        opts.append(np.int16)
    if npoints <= 255:
        opts.append(np.uint8)
    if npoints <= 65535:
        opts.append(np.uint16)
    return np.asarray(c).astype(opts[pick % len(opts)])


def restore_mesh(obj, how, pick=0, dup_field=False):
    """a MeshFields object with the content of `obj`, its arrays stored as `how`"""
    from fieldcompare.mesh import Mesh, MeshFields
    from fieldcompare.mesh._mesh_fields import remove_cell_type_suffix
    dom = obj.domain
    pts = np.asarray(dom.points)
    cts = list(dom.cell_types)
    if how == "narrow":
        P = pts.astype(np.float32)
        K = [(ct, narrow_conn(dom.connectivity(ct), len(pts), pick)) for ct in cts]
        conv = lambda v: np.asarray(v).copy()   # noqa: E731
    else:
        P = store(pts, how)
        K = [(ct, store(dom.connectivity(ct), how)) for ct in cts]
        conv = lambda v: store(v, how)          # noqa: E731
    pd = {f.name: conv(f.values) for f in obj.point_fields}
    if dup_field and pd:
        pd["pdup"] = next(iter(pd.values()))               # two fields, ONE array object
    cd = {}
    for f, ct in obj.cell_fields_types:
        cd.setdefault(remove_cell_type_suffix(ct, f.name), {})[ct] = conv(f.values)
    mesh = Mesh(P, K)
    return MeshFields(mesh, pd, {n: [per[ct] for ct in cts] for n, per in cd.items()})


def twin_sharing(obj, other_shape=None):
    """another MeshFields / Mesh object built from the very arrays of `obj` (source and reference share everything);
    other_shape: name of a scalar point field that the twin stores flat (n,) if `obj` stores it as a column (n, 1) and
    vice versa (its own copy of the values)"""
    from fieldcompare.mesh import Mesh, MeshFields
    from fieldcompare.mesh._mesh_fields import remove_cell_type_suffix
    dom = obj.domain
    cts = list(dom.cell_types)
    pd = {f.name: f.values for f in obj.point_fields}
    if other_shape in pd:
        v = np.asarray(pd[other_shape])
        pd[other_shape] = v.reshape(-1).copy() if v.ndim == 2 else v.reshape(-1, 1).copy()
    cd = {}
    for f, ct in obj.cell_fields_types:
        cd.setdefault(remove_cell_type_suffix(ct, f.name), {})[ct] = f.values
    return MeshFields(Mesh(dom.points, [(ct, dom.connectivity(ct)) for ct in cts]), pd,
                      {n: [per[ct] for ct in cts] for n, per in cd.items()})


def hold_mesh_arrays(w, label, obj):
    try:
        dom = obj.domain
        w.hold((label, "P"), np.asarray(dom.points))
        for ct in dom.cell_types:
            w.hold((label, "K", ct.name), np.asarray(dom.connectivity(ct)))
        for f in obj:
            w.hold((label, "F", f.name), np.asarray(f.values))
    except Exception:  # noqa: BLE001
        pass


def hold_meshio_arrays(w, label, m):
    w.hold((label, "P"), m.points)
    for k, blk in enumerate(m.cells):
        w.hold((label, "K", k), blk.data)
    for n, v in m.point_data.items():
        w.hold((label, "pd", n), v)
    for n, vs in m.cell_data.items():
        for k, v in enumerate(vs):
            w.hold((label, "cd", n, k), v)


# ---------------------------------------------------------------- family "tab"

def gen_cols(rng, n):
    cols = []
    for k in range(rng.randint(1, 4)):
        dt = rng.choice(["f64", "f64", "f32", "i64", "str"])
        if dt == "str":
            v = [rng.choice(["a", "bb", "c", "dd"]) for _ in range(n)]
        elif dt == "i64":
            v = [rng.randint(-1000, 1000) for _ in range(n)]
        else:
            v = [round(rng.uniform(-1, 1) * rng.choice([1e-3, 1.0, 1e3]), 6) for _ in range(n)]
            if dt == "f32":
                v = [float(np.float32(x)) for x in v]
            if rng.random() < 0.15:
                v[rng.randrange(n)] = rng.choice([float("nan"), float("inf"), 0.0])
        cols.append({"name": f"col{k}", "dt": dt, "v": v})
    return cols


def gen_tab_case(rng):
    n = rng.choice([1, 2, 3, 5, 8, 17])
    cols = gen_cols(rng, n)
    perm = list(range(n))
    rng.shuffle(perm)
    ops = []
    for _ in range(rng.randint(3, 8)):
        name = rng.choice(["cmp", "cmp", "cmpsel", "cmpsel", "diff", "diff", "transform", "write", "iter", "reread"])
        ops.append({"op": name, "x": rng.randrange(1000), "y": rng.randrange(1000), "p": rng.randrange(len(PRED_SPECS)),
                    "idx": [rng.randrange(n) for _ in range(rng.randint(1, n))]})
    return {"kind": "xhist", "family": "tab", "n": n, "cols": cols, "perm": perm,
            "variant": rng.choice(["same", "perturbed", "missing-col", "more-rows"]),
            "storage": rng.choice(["plain", "plain", "readonly", "strided", "shared"]),
            "csv": rng.random() < 0.6, "ops": ops}


def _col_array(c):
    return np.array(c["v"], dtype=NP[c["dt"]])


def exec_tab(case, root, api):
    from fieldcompare.tabular import Table, TabularFields, transform
    from fieldcompare.io import write, read_field_data
    dirs = {k: os.path.join(root, k) for k in ("cwd", "in", "out", "tmp")}
    for d in dirs.values():
        os.makedirs(d)
    w = Watch(dirs.values())
    ev, cache, preds = Evals(), {}, Preds()
    n, how = case["n"], case["storage"]
    tags = ["xhist-tab", f"tab-variant-{case['variant']}", f"tab-storage-{how}", f"tab-rows-{n}"]
    pool = []

    def add(label, obj):
        pool.append(obj)
        w.hold_obj(label, obj, tab_digest)
        try:
            for f in obj:
                w.hold((label, f.name), np.asarray(f.values))
            if obj.domain.indices is not None:
                w.hold((label, "idx"), obj.domain.indices)
        except Exception:  # noqa: BLE001
            pass

    arrs = {c["name"]: store(_col_array(c), how if how != "shared" else "plain") for c in case["cols"]}
    if how == "shared":
        arrs["dup"] = next(iter(arrs.values()))
    for k, a in arrs.items():
        w.hold(("user", k), a)
    dict0 = dict(arrs)
    add("T0", TabularFields(Table(num_rows=n), dict0))
    perm = np.array(case["perm"], dtype=np.int64)
    inv = np.argsort(perm)
    w.hold(("user", "inv"), inv)
    parrs = {k: store(a[perm], "plain") for k, a in arrs.items()}
    for k, a in parrs.items():
        w.hold(("user-perm", k), a)
    add("T1", TabularFields(Table(idx_map=inv), parrs))
    v = case["variant"]
    t2 = {k: a.copy() for k, a in arrs.items()}
    rows2 = n
    if v == "perturbed":
        for k, a in t2.items():
            if a.dtype.kind == "f":
                a[0] = a[0] * (1 + 1e-3) + 1e-3
                break
    elif v == "missing-col":
        t2.pop(next(iter(t2)))
        t2["extra"] = np.arange(n, dtype=np.float64)
    elif v == "more-rows":
        t2 = {k: np.concatenate([a, a[:1]]) for k, a in t2.items()}
        rows2 = n + 1
    for k, a in t2.items():
        w.hold(("user-2", k), a)
    add("T2", TabularFields(Table(num_rows=rows2), t2))
    add("T3", TabularFields(Table(num_rows=n), dict(arrs)))      # shares every array with T0
    keys0 = list(dict0.keys())
    csv_path = None
    with warnings.catch_warnings():
        warnings.simplefilter("ignore")
        if case["csv"]:
            try:
                csv_path = write(pool[0], os.path.join(dirs["in"], "t0"))
                add("T4-file", read_field_data(csv_path))
                tags.append("tab-from-csv")
            except Exception:  # noqa: BLE001
                pass
        w.hold_files(_listing(dirs["in"]))
        old = os.getcwd()
        old_tmp = tempfile.tempdir
        os.chdir(dirs["cwd"])
        tempfile.tempdir = dirs["tmp"]
        nok = 0
        try:
            for step, op in enumerate(case["ops"]):
                name = op["op"]
                x, y = op["x"] % len(pool), op["y"] % len(pool)
                label = f"step {step} ({name} {x} {y})"
                allowed = []
                w.before()
                try:
                    if name == "cmp":
                        compare_ops(api, ev, cache, preds, "fdc", ("cmp", x, y), pool[x], pool[y])
                    elif name == "cmpsel":
                        compare_ops(api, ev, cache, preds, "fdc", ("sel", x, y, op["p"]), pool[x], pool[y], pk=op["p"])
                        tags.append(f"pred-spec-{op['p']}")
                    elif name == "diff":
                        r1 = pool[x].diff_to(pool[y])
                        add(f"diff{step}a", r1)
                        r2 = pool[y].diff_to(pool[x])
                        add(f"diff{step}b", r2)
                    elif name == "transform":
                        rows = int(pool[x].domain.number_of_rows)
                        # a table of the same length: any selection of rows with repetition (an index map has to be as
                        # long as the columns it is applied to)
                        idx = np.array([op["idx"][k % len(op["idx"])] % rows for k in range(rows)], dtype=np.int64)
                        w.hold((f"tr{step}", "idx-user"), idx)
                        add(f"tr{step}", transform(pool[x], lambda _t, idx=idx: Table(idx_map=idx)))
                    elif name == "write":
                        p = os.path.join(dirs["out"], f"w{step}")
                        allowed = [p + ".csv"]
                        write(pool[x], p)
                    elif name == "iter":
                        a1 = [(f.name, np.asarray(f.values).tobytes()) for f in pool[x]]
                        a2 = [(f.name, np.asarray(f.values).tobytes()) for f in pool[x]]
                        ev.add(("iter", x), a1)
                        ev.add(("iter", x), a2)
                    elif name == "reread":
                        if not csv_path:
                            raise LookupError("no file in this case")
                        add(f"reread{step}", read_field_data(csv_path))
                    nok += 1
                    tags.append(f"tab-op-{name}")
                except Exception as e:  # noqa: BLE001
                    tags.append(f"tab-raised-{name}")
                w.check(label, allowed)
                if list(dict0.keys()) != keys0:
                    w.complaints.append(f"{label}: the dictionary of fields handed to TabularFields was modified")
            w.before()
            ev.again()
            w.check("final re-evaluation")
        finally:
            os.chdir(old)
            tempfile.tempdir = old_tmp
    return w.complaints + ev.complaints(), tags, nok


# ---------------------------------------------------------------- family "meshx"

MESHX_OPS = ["cmp", "cmp", "cmpself", "fdc", "cmpsel", "cmpsel", "merge3", "mergekeep", "mergeself", "diff2", "view2",
             "view2", "roundtrip", "write", "extend"]
STORAGES = ["plain", "readonly", "strided", "fortran", "narrow", "bigendian", "sharedfield"]
VIEWFN = ["sort", "sort_points", "sort_cells", "strip_orphan_points"]


def gen_meshx_case(rng, api, storage=None):
    a, mt = api.gen_base_mesh(rng, max_points=30, allow_duplicates=False)
    api.gen_fields_simple(rng, a)
    special = None
    fl = [f for f in a["pf"] if f["dt"] == "f64"]
    if fl and rng.random() < 0.3:
        f = rng.choice(fl)
        special = rng.choice(["nan", "inf", "zero"])
        f["v"][rng.randrange(len(f["v"]))] = {"nan": float("nan"), "inf": float("inf"), "zero": 0.0}[special]
    column = rng.random() < 0.35
    if column:
        # a scalar field stored as a column (n, 1) on one side and flat (n,) on the other (the predicates' shape exemption)
        a["pf"].append({"name": "q1", "dt": "f64", "tail": [1], "v": [2.5 + 0.25 * i for i in range(len(a["points"]))]})
    b = meshgen.relabel(rng, a, extra_orphans=rng.choice([0, 0, 1]))
    if column and rng.random() < 0.5:
        a, b = b, a                      # either role
    for f in b["pf"]:
        if f["name"] == "q1":
            f["tail"] = []
    if rng.random() < 0.4 and b["pf"]:
        f = rng.choice(b["pf"])
        if f["dt"] in ("f64", "f32"):
            f["v"] = [x * (1 + 1e-3) if rng.random() < 0.3 else x for x in f["v"]]
    c = copy.deepcopy(a)
    mode = rng.choice(["far", "half", "dup"])
    span = max([abs(x) for p in a["points"] for x in p] + [1.0])
    if mode == "far":
        c["points"] = [[x + 10 * span for x in p] for p in c["points"]]
    elif mode == "half":
        c["points"] = [[x + (10 * span if i % 2 else 0.0) for x in p] for i, p in enumerate(c["points"])]
    ops = []
    for _ in range(rng.randint(3, 8)):
        ops.append({"op": rng.choice(MESHX_OPS), "x": rng.randrange(1000), "y": rng.randrange(1000), "z": rng.randrange(1000),
                    "p": rng.randrange(len(PRED_SPECS)), "f": rng.randrange(4), "g": rng.randrange(4),
                    "same": rng.random() < 0.4})
    return {"kind": "xhist", "family": "meshx", "inputs": [a, b, c], "piece": mode, "special": special, "column": column,
            "structured": (api.gen_structured_input(rng)["structured"] if rng.random() < 0.5 else None),
            "storage": storage or rng.choice(STORAGES), "pick": rng.randrange(4), "style": mt["style"], "ops": ops}


def exec_meshx(case, root, api):
    from fieldcompare import mesh as fm
    from fieldcompare.mesh import meshio_utils
    from fieldcompare.io import write
    dirs = {k: os.path.join(root, k) for k in ("cwd", "out", "tmp")}
    for d in dirs.values():
        os.makedirs(d)
    w = Watch(dirs.values())
    ev, cache, preds = Evals(), {}, Preds()
    how = case["storage"]
    tags = ["xhist-meshx", f"meshx-storage-{how}", f"meshx-style-{case['style']}"] + \
           ([f"meshx-special-{case['special']}"] if case.get("special") else []) + \
           (["meshx-column-vs-flat"] if case.get("column") else [])
    pool = []          # [object, comparable?]

    def add(label, obj, comparable=True):
        pool.append([obj, comparable])
        w.hold_obj(label, obj, api.object_digest)
        hold_mesh_arrays(w, label, obj)

    with warnings.catch_warnings():
        warnings.simplefilter("ignore")
        for k, lm in enumerate(case["inputs"]):
            base = meshgen.to_fc(lm)
            obj = base if how == "plain" else restore_mesh(base, "plain" if how == "sharedfield" else how,
                                                           pick=case["pick"], dup_field=(how == "sharedfield"))
            add("ABC"[k], obj)
        add("A-twin", twin_sharing(pool[0][0]))          # source and reference built from the very same arrays
        flat = None
        if case.get("column"):
            flat = len(pool)
            add("A-other-shape", twin_sharing(pool[0][0], other_shape="q1"))     # equal domain, q1 as (n,) vs (n, 1)
        if case.get("structured"):
            # a structured / rectilinear / image grid object of the public API (points cached, cells computed on access)
            add("S", api.build_structured(case["structured"]))
            add("S-again", api.build_structured(case["structured"]))
            tags.append(f"meshx-structured-{case['structured']['k']}")
        old = os.getcwd()
        old_tmp = tempfile.tempdir
        os.chdir(dirs["cwd"])
        tempfile.tempdir = dirs["tmp"]
        nok = 0
        try:
            for step, op in enumerate(case["ops"]):
                name = op["op"]
                cmpable = [i for i, (_, ok) in enumerate(pool) if ok]
                x, y, z = (op[k] % len(pool) for k in ("x", "y", "z"))
                cx, cy = cmpable[op["x"] % len(cmpable)], cmpable[op["y"] % len(cmpable)]
                label = f"step {step} ({name})"
                allowed = []
                w.before()
                try:
                    if flat is not None and name in ("cmp", "fdc", "cmpsel") and step % 2 == 0:
                        # directed: the pair with equal domains whose field q1 is stored (n, 1) on one side, (n,) on the
                        # other — the predicates see the caller's arrays themselves (no sorted copies), in either order
                        i, j = (0, flat) if op["same"] else (flat, 0)
                        kind = "fdc" if name == "fdc" else "mfc"
                        compare_ops(api, ev, cache, preds, kind, ("shape", kind, i, j, op["p"] if name == "cmpsel" else None),
                                    pool[i][0], pool[j][0], pk=(op["p"] if name == "cmpsel" else None))
                        tags.append("meshx-op-cmp-column-vs-flat")
                    elif name == "cmp":
                        compare_ops(api, ev, cache, preds, "mfc", ("cmp", cx, cy), pool[cx][0], pool[cy][0])
                    elif name == "cmpself":
                        compare_ops(api, ev, cache, preds, "mfc", ("cmp", cx, cx), pool[cx][0], pool[cx][0])
                    elif name == "fdc":
                        compare_ops(api, ev, cache, preds, "fdc", ("fdc", cx, cy), pool[cx][0], pool[cy][0])
                    elif name == "cmpsel":
                        compare_ops(api, ev, cache, preds, "mfc", ("sel", cx, cy, op["p"]), pool[cx][0], pool[cy][0], pk=op["p"])
                        tags.append(f"pred-spec-{op['p']}")
                    elif name == "merge3":
                        add(f"merge3-{step}", fm.merge(pool[x][0], pool[y][0], pool[z][0]), comparable=False)
                    elif name == "mergekeep":
                        add(f"mergekeep-{step}", fm.merge(pool[x][0], pool[y][0], remove_duplicate_points=False), comparable=False)
                    elif name == "mergeself":
                        r = fm.merge(pool[x][0], pool[x][0], remove_duplicate_points=not op["same"])
                        if r is not pool[x][0]:
                            add(f"mergeself-{step}", r, comparable=False)
                    elif name == "diff2":
                        # operands with equal domains: an object and itself / its twin / a view of it
                        yy = x if op["same"] else y
                        add(f"diff-{step}a", pool[x][0].diff_to(pool[yy][0]), comparable=False)
                        add(f"diff-{step}b", pool[yy][0].diff_to(pool[x][0]), comparable=False)
                    elif name == "view2":
                        f1 = getattr(fm, VIEWFN[op["f"]])
                        f2 = f1 if op["same"] else getattr(fm, VIEWFN[op["g"]])
                        r1 = f1(pool[x][0])
                        add(f"view-{step}a", r1, comparable=pool[x][1])
                        add(f"view-{step}b", f2(r1), comparable=pool[x][1])
                    elif name == "roundtrip":
                        m = meshio_utils.to_meshio(pool[x][0])
                        hold_meshio_arrays(w, f"meshio-{step}", m)
                        w.hold_obj(f"meshio-{step}", m, meshio_digest)
                        add(f"back-{step}", meshio_utils.from_meshio(m), comparable=pool[x][1])
                    elif name == "write":
                        p = os.path.join(dirs["out"], f"w{step}")
                        allowed = [p + ".vtu"]
                        write(pool[x][0], p)
                    elif name == "extend":
                        r = fm.extend_space_dimension_to(3, pool[x][0])
                        if r is not pool[x][0]:
                            add(f"ext-{step}", r, comparable=pool[x][1])
                    nok += 1
                    tags.append(f"meshx-op-{name}")
                except Exception:  # noqa: BLE001
                    tags.append(f"meshx-raised-{name}")
                w.check(label, allowed)
            w.before()
            ev.again()
            w.check("final re-evaluation")
        finally:
            os.chdir(old)
            tempfile.tempdir = old_tmp
    return w.complaints + ev.complaints(), tags, nok


# ---------------------------------------------------------------- family "seq"

def pvd_text(names):
    body = "".join(f'<DataSet timestep="{k}" part="0" file="{n}"/>\n' for k, n in enumerate(names))
    return f'<?xml version="1.0"?>\n<VTKFile type="Collection" version="0.1">\n<Collection>\n{body}</Collection>\n</VTKFile>\n'


def scale_lm(lm, s):
    out = copy.deepcopy(lm)
    for f in out["pf"] + out["cf"]:
        if f["dt"] in ("f64", "f32"):
            f["v"] = [x * (1.0 + 0.5 * s) for x in f["v"]]
    return out


def gen_seq_case(rng, api, fmt=None):
    a, mt = api.gen_base_mesh(rng, max_points=20, allow_duplicates=False)
    api.gen_fields_simple(rng, a)
    b = meshgen.relabel(rng, a)
    na = rng.choice([1, 2, 3, 3])
    nb = na if rng.random() < 0.8 else max(1, na + rng.choice([-1, 1]))
    # directed prefix: the caller keeps the first step of an abandoned iteration, then the sequence is iterated completely
    # (comparison), then all steps are kept, then everything is compared again
    ops = [{"op": "partial", "which": "A", "junit": False}, {"op": "cmpseq", "which": "A", "junit": False},
           {"op": "full", "which": rng.choice(["A", "B"]), "junit": False}]
    for _ in range(rng.randint(2, 5)):
        ops.append({"op": rng.choice(["cmpseq", "cmpseq", "partial", "full", "cli", "cli", "holdops", "holdops", "nsteps", "reopen"]),
                    "which": rng.choice(["A", "B"]), "junit": rng.random() < 0.6})
    return {"kind": "xhist", "family": "seq", "fmt": fmt or rng.choice(["pvd", "pvd", "xdmf"]), "a": a, "b": b, "na": na, "nb": nb,
            "perturb": rng.choice([None, None, 0, na - 1]), "ops": ops}


def exec_seq(case, root, api):
    from fieldcompare.io import write, read
    from fieldcompare import mesh as fm
    from fieldcompare.mesh import MeshFieldsComparator, meshio_utils
    dirs = {k: os.path.join(root, k) for k in ("cwd", "in", "out", "tmp")}
    for d in dirs.values():
        os.makedirs(d)
    w = Watch(dirs.values())
    ev = Evals()
    fmt = case["fmt"]
    with warnings.catch_warnings():
        warnings.simplefilter("ignore")
        paths = {}
        if fmt == "xdmf":
            try:
                from . import xdmfseq_p5c
                if "XML" not in xdmfseq_p5c.available_formats():
                    raise RuntimeError("no meshio")
                xf = xdmfseq_p5c.XdmfFiles()
                try:
                    for which, n in (("A", case["na"]), ("B", case["nb"])):
                        paths[which] = os.path.join(dirs["in"], f"{which}.xdmf")
                        shutil.copy(xf.path("XML", n), paths[which])
                finally:
                    xf.close()
            except Exception:  # noqa: BLE001
                fmt, paths = "pvd", {}
        if fmt == "pvd":
            for which, lm, n in (("A", case["a"], case["na"]), ("B", case["b"], case["nb"])):
                names = []
                for s in range(n):
                    lms = scale_lm(lm, s)
                    if which == "B" and case["perturb"] == s:
                        for f in lms["pf"]:
                            if f["dt"] == "f64":
                                f["v"][0] = f["v"][0] * (1 + 1e-3) + 1e-3
                    names.append(os.path.basename(write(meshgen.to_fc(lms), os.path.join(dirs["in"], f"{which}_{s}"))))
                paths[which] = os.path.join(dirs["in"], f"{which}.pvd")
                with open(paths[which], "w") as fh:
                    fh.write(pvd_text(names))
        tags = ["xhist-seq", f"seq-{fmt}", f"seq-steps-{case['na']}-{case['nb']}"]
        w.hold_files(_listing(dirs["in"]))
        seqs = {k: read(p) for k, p in paths.items()}
        held = []

        def keep(label, obj):
            held.append(obj)
            w.hold_obj(label, obj, api.object_digest)
            hold_mesh_arrays(w, label, obj)

        def cmpseq(sa, sb):
            out = []
            try:
                for x, y in zip(sa, sb):
                    out.append(_summary(api, lambda x=x, y=y: MeshFieldsComparator(x, y)(fieldcomp_callback=lambda _c: None)))
            except Exception as e:  # noqa: BLE001   (iterating raised: part of what this evaluation answers)
                out.append(["X-iteration", type(e).__name__])
            return out

        def cli(junit, n):
            args = ["file", paths["A"], paths["B"]]
            j = os.path.join(dirs["out"], f"j{n}.xml")
            if junit:
                args += ["--junit-xml", j]
            rc = api.cli_inprocess(args)
            st = api.junit_statuses(j) if junit and os.path.exists(j) else None
            return [rc, st], ([j] if junit else [])

        old = os.getcwd()
        old_tmp = tempfile.tempdir
        os.chdir(dirs["cwd"])
        tempfile.tempdir = dirs["tmp"]
        nok = 0
        try:
            for step, op in enumerate(case["ops"]):
                name, which = op["op"], op["which"]
                label = f"step {step} ({name} {which})"
                allowed = []
                w.before()
                try:
                    if name == "cmpseq":
                        ev.add(("cmpseq",), cmpseq(seqs["A"], seqs["B"]))
                    elif name == "full":
                        for k, o in enumerate(seqs[which]):
                            keep(f"{which}-step{k}@{step}", o)
                    elif name == "partial":
                        it = iter(seqs[which])
                        keep(f"{which}-first@{step}", next(it))
                        del it
                    elif name == "cli":
                        r, allowed = cli(op["junit"], step)
                        ev.add(("cli", op["junit"]), r)
                    elif name == "holdops" and len(held) >= 1:
                        o1, o2 = held[0], held[-1]
                        fm.sort(o1).diff_to(fm.sort(o2))
                        meshio_utils.to_meshio(o1)
                        fm.merge(o1, o2)
                    elif name == "nsteps":
                        ev.add(("nsteps", which), int(seqs[which].number_of_steps))
                    elif name == "reopen":
                        seqs[which] = read(paths[which])
                    nok += 1
                    tags.append(f"seq-op-{name}")
                except Exception:  # noqa: BLE001
                    tags.append(f"seq-raised-{name}")
                new = w.check(label, allowed)
                for f in new:
                    os.remove(f)
            w.before()
            if repr(("cmpseq",)) in ev.runs:
                ev.add(("cmpseq",), cmpseq(seqs["A"], seqs["B"]))
                ev.add(("cmpseq",), cmpseq(read(paths["A"]), read(paths["B"])))      # freshly opened files
            for junit in (False, True):
                if repr(("cli", junit)) in ev.runs:
                    r, allowed = cli(junit, "end")
                    ev.add(("cli", junit), r)
            for which in ("A", "B"):
                if repr(("nsteps", which)) in ev.runs:
                    ev.add(("nsteps", which), int(seqs[which].number_of_steps))
            w.check("final re-evaluation", [lambda f: f.startswith(dirs["out"])])
        finally:
            os.chdir(old)
            tempfile.tempdir = old_tmp
    return w.complaints + ev.complaints(), tags, nok


# ---------------------------------------------------------------- family "cli"

def cli_catalogue(have_seq, have_corrupt):
    M = ["file", "{src}/m.vtu", "{ref}/m.vtu"]
    T = ["file", "{src}/t.csv", "{ref}/t.csv"]
    D = ["dir", "{src}", "{ref}"]
    J = ["--junit-xml", "{out}/j.xml"]
    cat = {
        "file-plain": M, "file-diff": M + ["--diff"], "file-junit": M + J,
        "file-diff-junit-tol": M + ["--diff"] + J + ["-rtol", "1e-3", "-atol", "1e-9"],
        "file-scaled-tol": M + ["-atol", "1e-6*max", "-rtol", "p0:1e-2"] + J,
        "file-ignore-missing": M + ["--ignore-missing-source-fields", "--ignore-missing-reference-fields"] + J,
        "file-no-reorder": M + ["--disable-mesh-reordering"] + J,
        "file-no-orphan-no-dim": M + ["--disable-mesh-orphan-point-removal", "--disable-mesh-space-dimension-matching", "--diff"],
        "file-exclude": M + ["--exclude-fields", "p0"] + J, "file-include": M + ["--include-fields", "p*"] + J,
        "file-verbose": M + ["--verbosity", "3", "--diff"],
        "table-plain": T + J, "table-diff": T + ["--diff"], "table-read-as": T + ["--read-as", "dsv:*.csv"] + J,
        "err-missing-file": ["file", "{src}/nope.vtu", "{ref}/m.vtu"] + J,
        "err-mesh-vs-table": ["file", "{src}/m.vtu", "{ref}/t.csv", "--diff"],
        "err-unsupported": ["file", "{src}/notes.txt", "{ref}/notes.txt"] + J,
        "dir-plain": D, "dir-diff": D + ["--diff"], "dir-junit": D + ["--junit-xml", "{out}/jd.xml"],
        "dir-include": D + ["--include-files", "*.vtu"] + ["--junit-xml", "{out}/jd.xml"],
        "dir-ignore-missing": D + ["--ignore-missing-source-files", "--ignore-missing-reference-files", "--diff"],
        "dir-diff-junit-exclude": D + ["--diff", "--junit-xml", "{out}/jd.xml", "--exclude-files", "*.csv"],
    }
    if have_seq:
        cat["seq-plain"] = ["file", "{src}/s.pvd", "{ref}/s.pvd"] + J
        cat["seq-diff"] = ["file", "{src}/s.pvd", "{ref}/s.pvd", "--diff"]
    if have_corrupt:
        cat["err-corrupt"] = ["file", "{src}/broken.vtu", "{ref}/broken.vtu"] + J
    return cat


def gen_cli_case(rng, api, nruns=6, nsub=2):
    pc = api.gen_process_case(rng)
    n = rng.choice([2, 3, 5])
    cols = gen_cols(rng, n)
    extras = {"only-src": rng.random() < 0.5, "unsupported": True, "corrupt": rng.random() < 0.6, "seq": rng.random() < 0.6}
    cat = cli_catalogue(extras["seq"], extras["corrupt"])
    names = sorted(cat)
    must = [rng.choice([k for k in names if "diff" in k and k.startswith("file")]), rng.choice([k for k in names if k.startswith("dir")]),
            rng.choice([k for k in names if k.startswith("err")])]
    rest = [k for k in names if k not in must]
    rng.shuffle(rest)
    chosen = must + rest[:max(0, nruns - len(must))]
    rng.shuffle(chosen)
    runs = [{"name": k, "argv": cat[k], "sub": None} for k in chosen]
    for k, r in enumerate(rng.sample(runs, min(nsub, len(runs)))):
        r["sub"] = ["0", "12345", "1", "4242"][(k + rng.randrange(4)) % 4]
    return {"kind": "xhist", "family": "cli", "a": pc["a"], "b": pc["b"], "how": pc["how"], "cols": cols,
            "table_how": rng.choice(["same", "perturbed"]), "extras": extras, "runs": runs}


def cli_subprocess(args, cwd, tmp, hashseed):
    env = dict(os.environ)
    env["PYTHONPATH"] = core.REPO + os.pathsep + env.get("PYTHONPATH", "")
    env["PYTHONHASHSEED"] = hashseed
    env["TMPDIR"] = tmp
    code = "import sys; from fieldcompare._cli import main; sys.exit(main(sys.argv[1:]))"
    p = subprocess.run([sys.executable, "-c", code] + args, cwd=cwd, env=env, stdout=subprocess.PIPE,
                       stderr=subprocess.PIPE, timeout=180)
    return p.returncode


def exec_cli(case, root, api):
    from fieldcompare.io import write
    from fieldcompare.tabular import Table, TabularFields
    dirs = {k: os.path.join(root, k) for k in ("cwd", "src", "ref", "out", "tmp")}
    for d in dirs.values():
        os.makedirs(d)
    tags = ["xhist-cli", f"cli-{case['how']}"]
    complaints = []
    with warnings.catch_warnings():
        warnings.simplefilter("ignore")
        write(meshgen.to_fc(case["a"]), os.path.join(dirs["src"], "m"))
        write(meshgen.to_fc(case["b"]), os.path.join(dirs["ref"], "m"))
        n = len(case["cols"][0]["v"])
        for side in ("src", "ref"):
            arrs = {c["name"]: _col_array(c) for c in case["cols"]}
            if side == "ref" and case["table_how"] == "perturbed":
                for a in arrs.values():
                    if a.dtype.kind == "f":
                        a[0] = a[0] * (1 + 1e-3) + 1e-3
                        break
            write(TabularFields(Table(num_rows=n), arrs), os.path.join(dirs[side], "t"))
            with open(os.path.join(dirs[side], "notes.txt"), "w") as fh:
                fh.write("not a data file\n")
            if case["extras"]["corrupt"]:
                with open(os.path.join(dirs[side], "broken.vtu"), "w") as fh:
                    fh.write('<?xml version="1.0"?>\n<VTKFile type="UnstructuredGrid"><Unstruc')
            if case["extras"]["seq"]:
                names = []
                for s in range(2):
                    lms = scale_lm(case["a" if side == "src" else "b"], s)
                    names.append(os.path.basename(write(meshgen.to_fc(lms), os.path.join(dirs[side], f"s_{s}"))))
                with open(os.path.join(dirs[side], "s.pvd"), "w") as fh:
                    fh.write(pvd_text(names))
        if case["extras"]["only-src"]:
            write(meshgen.to_fc(case["a"]), os.path.join(dirs["src"], "only_here"))
    w = Watch(dirs.values())
    w.hold_files(_listing(dirs["src"]) + _listing(dirs["ref"]))
    state0 = proc_state()
    old = os.getcwd()
    old_tmp = tempfile.tempdir
    os.chdir(dirs["cwd"])
    tempfile.tempdir = dirs["tmp"]
    env_tmp = os.environ.get("TMPDIR")
    os.environ["TMPDIR"] = dirs["tmp"]
    state1 = proc_state()
    try:
        for run in case["runs"]:
            argv = [a.replace("{src}", dirs["src"]).replace("{ref}", dirs["ref"]).replace("{out}", dirs["out"]) for a in run["argv"]]
            junit = argv[argv.index("--junit-xml") + 1] if "--junit-xml" in argv else None
            allowed = [junit] if junit else []
            if "--diff" in argv:
                allowed.append(lambda f: f.startswith(dirs["src"] + os.sep) and os.path.basename(f).startswith("diff_"))
            results = []
            modes = ["in-process", "in-process again"] + ([f"subprocess PYTHONHASHSEED={run['sub']}"] if run["sub"] else [])
            for mode in modes:
                w.before()
                if mode.startswith("sub"):
                    rc = cli_subprocess(argv, dirs["cwd"], dirs["tmp"], run["sub"])
                else:
                    rc = api.cli_inprocess(argv)
                st = None
                if junit and os.path.exists(junit):
                    try:
                        st = api.junit_statuses(junit)
                    except Exception as e:  # noqa: BLE001
                        st = f"unreadable junit file: {type(e).__name__}"
                new = w.check(f"run '{run['name']}' ({mode}): {' '.join(run['argv'])}", allowed)
                results.append((mode, rc, st, sorted(os.path.basename(f) for f in new)))
                for f in new:
                    os.remove(f)
            tags += [f"cli-run-{run['name']}", f"cli-exit-{results[0][1]}"] + ([f"cli-hashseed-{run['sub']}"] if run["sub"] else [])
            for mode, rc, st, new in results[1:]:
                if rc != results[0][1]:
                    complaints.append(f"run '{run['name']}': exit code {results[0][1]} in-process, {rc} {mode}")
                if st != results[0][2]:
                    complaints.append(f"run '{run['name']}': per-field statuses differ: in-process {results[0][2]}, {mode} {st}")
        state2 = proc_state()
        for k in state1:
            tags.append("cli-proc-state-same" if state1[k] == state2[k] else f"cli-proc-state-changed-{k}")
    finally:
        os.chdir(old)
        tempfile.tempdir = old_tmp
        if env_tmp is None:
            os.environ.pop("TMPDIR", None)
        else:
            os.environ["TMPDIR"] = env_tmp
    del state0
    return w.complaints + complaints, tags, len(case["runs"])


# ---------------------------------------------------------------- family "smerge" (StructuredFieldMerger)

def gen_smerge_case(rng):
    dim = rng.choice([1, 2, 2, 3])
    decomp = [[rng.randint(1, 2) for _ in range(rng.randint(1, 3 if dim < 3 else 2))] for _ in range(dim)]
    fields = []
    for k in range(rng.randint(2, 4)):
        fields.append({"where": rng.choice(["point", "cell"]), "dt": rng.choice(["f64", "f64", "f32", "i64"]),
                       "tail": rng.choice([[], [], [2], [3]]), "base": rng.choice([0.5, 100.0, -7.0]) * (k + 1)})
    order = [rng.randrange(len(fields)) for _ in range(rng.randint(len(fields), 2 * len(fields)))]
    return {"kind": "xhist", "family": "smerge", "decomp": decomp, "fields": fields, "ops": [{"op": "merge", "k": k} for k in order]}


def exec_smerge(case, root, api):
    import itertools
    from fieldcompare.mesh import StructuredFieldMerger
    dirs = {k: os.path.join(root, k) for k in ("cwd", "tmp")}
    for d in dirs.values():
        os.makedirs(d)
    w = Watch(dirs.values())
    ev = Evals()
    decomp = tuple(tuple(d) for d in case["decomp"])
    dim = len(decomp)
    tags = ["xhist-smerge", f"smerge-dim-{dim}", f"smerge-pieces-{'x'.join(str(len(d)) for d in decomp)}"]
    locs = list(itertools.product(*[range(len(d)) for d in decomp]))
    pieces = []
    for k, f in enumerate(case["fields"]):
        per = {}
        for li, loc in enumerate(locs):
            shape = [decomp[d][loc[d]] + (1 if f["where"] == "point" else 0) for d in range(dim)]
            n = int(np.prod(shape))
            tail = list(f["tail"])
            vals = f["base"] + 1000.0 * li + np.arange(n * int(np.prod(tail or [1])), dtype=np.float64)
            per[loc] = vals.reshape([n] + tail).astype(NP[f["dt"]])
            w.hold((f"piece{k}", loc), per[loc])
        pieces.append(per)
    merger = StructuredFieldMerger(decomp)

    def merge(m, k):
        f = case["fields"][k]
        fn = m.merge_point_fields if f["where"] == "point" else m.merge_cell_fields
        return fn(lambda loc: pieces[k][tuple(loc)])

    old = os.getcwd()
    os.chdir(dirs["cwd"])
    nok = 0
    try:
        for step, op in enumerate(case["ops"]):
            k = op["k"]
            w.before()
            try:
                r = merge(merger, k)                                   # the long-lived merger object
                w.hold((f"result{step}", k), r)                        # what was handed out must stay as it is
                ev.add(("merge", k), (r.dtype.str, r.shape, r.tobytes()))
                r2 = merge(StructuredFieldMerger(decomp), k)           # a fresh one
                ev.add(("merge", k), (r2.dtype.str, r2.shape, r2.tobytes()))
                nok += 1
                tags.append(f"smerge-{case['fields'][k]['where']}")
            except Exception:  # noqa: BLE001
                tags.append("smerge-raised")
            w.check(f"step {step} (merge field {k})")
    finally:
        os.chdir(old)
    return w.complaints + ev.complaints(), tags, nok


# ---------------------------------------------------------------- evaluation, shrinking

EXEC = {"tab": exec_tab, "meshx": exec_meshx, "seq": exec_seq, "cli": exec_cli, "smerge": exec_smerge}


def complaints_of(case, api):
    root = tempfile.mkdtemp(prefix="fcv_c19x_")
    try:
        # floating-point error state and warning filters are NOT reset between the steps of one history (a leak made by
        # one step reaches the repetitions that follow), only after the whole history
        with np.errstate(), warnings.catch_warnings():
            s0 = proc_state()
            comp, tags, nok = EXEC[case["family"]](case, root, api)
            s1 = proc_state()
            # informational only (the property does not talk about interpreter state): which process-wide settings a
            # history left changed — cwd, environment, numpy error state / print options, root logger
            changed = [k for k in s0 if s0[k] != s1[k]]
            tags = list(tags) + (["proc-state-unchanged"] if not changed else [f"proc-state-changed-{k}" for k in changed])
            return comp, tags, nok
    finally:
        shutil.rmtree(root, ignore_errors=True)


def shrink(case, api):
    key = "runs" if case["family"] == "cli" else "ops"
    items = case[key]
    for k in range(len(items)):
        c2 = dict(case, **{key: [items[k]]})
        if complaints_of(c2, api)[0]:
            return c2
    for k in range(1, len(items)):
        c2 = dict(case, **{key: items[:k]})
        if complaints_of(c2, api)[0]:
            return c2
    return case


def eval_case(ctx, case, api, do_shrink=True):
    comp, tags, nok = complaints_of(case, api)
    key = hashlib.blake2b(repr(case).encode(), digest_size=10).hexdigest()
    ctx.case(("xhist", case["family"], key), nontrivial=nok >= 2, tags=sorted(set(tags)),
             sample={"family": case["family"], "ops": [o.get("op") or o.get("name") for o in case.get("ops", case.get("runs", []))]})
    if comp:
        c2 = case
        if do_shrink and len(ctx.spec_viol) < 3:
            try:
                c2 = shrink(case, api)
                comp = complaints_of(c2, api)[0] or comp
            except Exception:  # noqa: BLE001
                c2 = case
        ctx.violation(c2, {"complaints": comp[:5]}, "no data set / input file modified, only requested files written, "
                      "every repetition of a comparison (same / fresh comparator and predicate object, later, other process) agrees",
                      what=comp[0])


def run_all(ctx, api):
    import time
    rng = ctx.rng
    secs = {}
    t = time.time()
    for k in range(ctx.scale(60, 2000)):
        eval_case(ctx, gen_tab_case(rng), api)
    secs["tab"], t = round(time.time() - t, 1), time.time()
    for k in range(ctx.scale(42, 1500)):
        eval_case(ctx, gen_meshx_case(rng, api, storage=STORAGES[k % len(STORAGES)]), api)
    secs["meshx"], t = round(time.time() - t, 1), time.time()
    for k in range(ctx.scale(9, 200)):
        eval_case(ctx, gen_seq_case(rng, api, fmt=("xdmf" if k % 3 == 2 else "pvd")), api)
    secs["seq"], t = round(time.time() - t, 1), time.time()
    for k in range(ctx.scale(3, 30)):
        eval_case(ctx, gen_cli_case(rng, api), api)
    secs["cli"], t = round(time.time() - t, 1), time.time()
    for k in range(ctx.scale(30, 1000)):
        eval_case(ctx, gen_smerge_case(rng), api)
    secs["smerge"] = round(time.time() - t, 1)
    ctx.notes.append(f"xhist (phase 6 G2) seconds per family: {secs}")
