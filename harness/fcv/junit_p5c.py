"""Phase-5 package C helper for C20 (wraps `fcv.cli_scen`, which stays untouched).

* `strict(...)`: context manager under which
    - the report written with --junit-xml is examined STRICTLY before it is canonicalised: the raw bytes must decode in
      the declared encoding, contain no character outside the XML 1.0 `Char` production (in particular no byte < 0x20
      other than TAB / LF / CR — e.g. the ESC of an ANSI colour sequence), no character reference to such a character,
      and must be accepted by the (non-recovering) expat parser and by minidom; anything else counts as "malformed";
    - the reader side-check understands zero-row tables (a header-only CSV file reads back as one EMPTY non-float column
      per header name — the logical table carries them as `i64` columns without values, i.e. the exact-comparison path);
    - the name pools of the scenario generators additionally contain field names with XML-special (`<`, `>`, `&`,
      quotes) and non-ASCII characters where the writers/readers round-trip them (VTU: all of them; CSV column names:
      non-ASCII letters only — numpy's name validator deletes the punctuation).
* generators of scenarios with EMPTY fields, file mode and directory mode (tables without rows next to ordinary ones).
  Meshes cannot carry an empty field through the writers/readers: `Mesh` rejects zero points, cell blocks without
  cells are dropped by the VTU writer, zero-component arrays are rejected by the writers (checked when this was written).
"""
from __future__ import annotations
import contextlib
import copy
import os
import re
import xml.dom.minidom
import xml.parsers.expat

import numpy as np

from . import cli_scen as cs

XML_SPECIAL_MESH_NAMES = ["a<b", "c&d", "x>y", "q'r", 't"u', "Δp", "k<&>", "é [m/s]"]
NON_ASCII_CSV_NAMES = ["Δp", "température", "速度"]


# ---------------------------------------------------------------- strict well-formedness

def _is_xml_char(cp: int) -> bool:
    return cp in (0x9, 0xA, 0xD) or 0x20 <= cp <= 0xD7FF or 0xE000 <= cp <= 0xFFFD or 0x10000 <= cp <= 0x10FFFF


_CHARREF = re.compile(r"&#(x[0-9a-fA-F]+|[0-9]+);")
_ENCODING = re.compile(rb"^<\?xml[^>]*encoding=[\"']([A-Za-z0-9._-]+)[\"']")


def strictness_problem(raw: bytes):
    """None if the document is strictly well-formed XML 1.0, else a short description"""
    m = _ENCODING.match(raw)
    enc = m.group(1).decode("ascii") if m else "utf-8"
    try:
        text = raw.decode(enc)
    except (UnicodeDecodeError, LookupError) as e:
        return f"does not decode as {enc}: {e}"
    for i, ch in enumerate(text):
        if not _is_xml_char(ord(ch)):
            return f"character U+{ord(ch):04X} at offset {i} is outside the XML 1.0 Char production"
    for m in _CHARREF.finditer(text):
        s = m.group(1)
        cp = int(s[1:], 16) if s[0] == "x" else int(s)
        if not _is_xml_char(cp):
            return f"character reference {m.group(0)} denotes a character outside the XML 1.0 Char production"
    try:
        p = xml.parsers.expat.ParserCreate()
        p.Parse(raw, True)
    except xml.parsers.expat.ExpatError as e:
        return f"expat: {e}"
    try:
        xml.dom.minidom.parseString(raw)
    except Exception as e:  # noqa: BLE001
        return f"minidom: {type(e).__name__}: {e}"
    return None


# ---------------------------------------------------------------- reader side-check for zero-row tables

def _empty_table_reads_back(sc, path, data) -> bool:
    try:
        back = cs._read_like_cli(sc, path)
    except Exception:  # noqa: BLE001
        return False
    got = [(f.name, np.asarray(f.values)) for f in back]
    want = [c["name"] for c in data["cols"]]
    if sorted(g[0] for g in got) != sorted(want) or len({g[0] for g in got}) != len(got):
        return False
    if any(c["dt"] != "i64" or c["v"] for c in data["cols"]):
        return False
    # empty, one-dimensional, and NOT floating point (so that the exact-equality path is the one modelled)
    return all(g.shape == (0,) and g.dtype.kind in "biu" for _, g in got)


def _is_empty_table(data) -> bool:
    return data["kind"] == "table" and data["rows"] == 0


def make_read_check(orig):
    def read_check(sc, res, ref):
        sides = [(res, sc["res"], sc["damage"][0]), (ref, sc["ref"], sc["damage"][1])]
        if not any(_is_empty_table(d) and dmg is None for _, d, dmg in sides):
            return orig(sc, res, ref)
        sc2 = dict(sc, damage=list(sc["damage"]))
        for k, (path, data, dmg) in enumerate(sides):
            if _is_empty_table(data) and dmg is None:
                if not cs._unknown_reader(sc) and not _empty_table_reads_back(sc, path, data):
                    return False
                sc2["damage"][k] = "checked-here"      # (any non-None value makes the original skip this side)
        return orig(sc2, res, ref)
    return read_check


class Strict:
    def __init__(self):
        self.reasons = []       # why reports were rejected (first few)
        self.n_checked = 0


@contextlib.contextmanager
def strict(extend_names=True):
    st = Strict()
    orig_parse, orig_read = cs.parse_report, cs.read_check

    def parse_report(path):
        if os.path.exists(path):
            st.n_checked += 1
            with open(path, "rb") as fh:
                why = strictness_problem(fh.read())
            if why is not None:
                if len(st.reasons) < 5:
                    st.reasons.append(why)
                return "malformed"
        return orig_parse(path)

    pools = [(cs.MESH_PNAMES, XML_SPECIAL_MESH_NAMES), (cs.MESH_CNAMES, ["c<d", "e&f", "Δc"]),
             (cs.CSV_NAMES, NON_ASCII_CSV_NAMES)] if extend_names else []
    saved = [list(p) for p, _ in pools]
    cs.parse_report, cs.read_check = parse_report, make_read_check(orig_read)
    for p, extra in pools:
        p.extend(x for x in extra if x not in p)
    try:
        yield st
    finally:
        cs.parse_report, cs.read_check = orig_parse, orig_read
        for (p, _), s in zip(pools, saved):
            p[:] = s


# ---------------------------------------------------------------- scenarios with empty fields

def empty_table(t):
    """the same columns without any row (what a header-only file carries)"""
    return {"kind": "table", "rows": 0, "cols": [{"name": c["name"], "dt": "i64", "v": []} for c in t["cols"]]}


EMPTY_STYLES = ["both-empty", "both-empty", "both-empty", "res-empty", "ref-empty"]


def _make_empty(rng, sc, tags, style):
    if style in ("both-empty", "res-empty"):
        sc["res"] = empty_table(sc["res"])
    if style in ("both-empty", "ref-empty"):
        sc["ref"] = empty_table(sc["ref"])
    tags.append("empty-" + style)


def gen_empty_file_scenario(rng, k: int):
    """file-mode CSV scenario (all option/edit dimensions of `cs.gen_csv_scenario`: tolerances, filters, ignore flags,
    dropped / renamed columns, damaged files) in which the result table, the reference table or both have NO rows.
    The first of every five is the plain case: identical header-only files, no options."""
    sc, tags = cs.gen_csv_scenario(rng)
    if sc["damage"][0] in ("garbage", "unsupported") or sc["damage"][1] in ("garbage", "unsupported"):
        sc["damage"] = [None, None]          # (those need the sniffing reader; here the reader is given explicitly)
        tags = [t for t in tags if not t.startswith("damage-")]
    style = EMPTY_STYLES[k % len(EMPTY_STYLES)]
    if k % 5 == 0:
        sc.update(rtol=None, atol=None, incl=None, excl=None, damage=[None, None],
                  flags={"ign_src": False, "ign_ref": False})
        sc["res"] = copy.deepcopy(sc["ref"])
        sc.pop("ext", None)
        sc["read_as"] = None
        tags = ["csv", "empty-plain"]
    _make_empty(rng, sc, tags, style)
    if not sc["read_as"]:
        # a header-only file cannot be sniffed reliably: name the reader (as the generator does for short tables)
        sc["read_as"] = [cs.DSV_READER]
        tags.append("read-as-dsv")
    return sc, tags + ["empty-fields"]


def gen_empty_dir_scenario(rng, k: int):
    """directory-mode scenario of `cs.gen_dir_scenario` in which at least one file pair consists of tables without rows
    (both sides, or one side only = unequal domains), next to the ordinary files of the tree"""
    d, tags = cs.gen_dir_scenario(rng)
    if k % 4 == 0:
        # plain: no file filters, explicit reader, nothing ignored — only the data decide
        d["incl_files"], d["excl_files"] = None, None
        d["opts"].update(rtol=None, atol=None, incl=None, excl=None, read_as=[cs.DSV_READER])
        for f in d["files"]:
            if f["sc"] is not None:
                # (a "garbage" file is modelled for the sniffing reader only — `cs.gen_dir_scenario` damages files only
                #  when no reader is named; with the reader named here the damage is taken back)
                f["sc"].update(rtol=None, atol=None, incl=None, excl=None, read_as=[cs.DSV_READER], damage=[None, None])
        tags[:] = [t for t in tags if t != "file-damage-garbage"]
        tags.append("empty-plain")
    both = [f for f in d["files"] if f["where"] == "both" and f["sc"]["damage"] == [None, None]]
    if not both:
        ref = cs.gen_table(rng, sniffable=True)
        rel = "empty0.csv"
        sc = dict(copy.deepcopy(d["opts"]), kind="csv", damage=[None, None], res=copy.deepcopy(ref), ref=ref, ext=".csv")
        f = {"rel": rel, "where": "both", "sc": sc}
        d["files"].append(f)
        both = [f]
        tags.append("file-both.csv")
    chosen = [f for f in both if rng.random() < 0.5] or [rng.choice(both)]
    for j, f in enumerate(chosen):
        sc = f["sc"]
        if not sc["read_as"] and min(len(sc["res"]["cols"]), len(sc["ref"]["cols"])) < 2:
            continue            # (single-column header without a named reader: not sniffable)
        style = "both-empty" if (j == 0 and k % 2 == 0) else rng.choice(EMPTY_STYLES)
        ft = []
        _make_empty(rng, sc, ft, style)
        tags += ["file-" + t for t in ft]
    return d, tags + ["empty-fields"]
