"""Phase 5 / package A — integer fields on the MESH route (C09).

C09 demands that integer data are compared exactly "whatever tolerances are set".  For mesh data the values do not reach
the predicate as the user supplied them: `MeshFieldsComparator` may sort points / cells, strip unconnected points and —
when source and reference differ in space dimension — zero-pad the coordinates AND every vector / tensor field to the
larger dimension.  This module generates small meshes carrying integer scalar / vector / tensor point and cell fields of
all eight integer dtypes, in a 2d form and in the zero-padded 3d form of the same data set, optionally stored in
permuted order, and runs them through `MeshFieldsComparator` (every combination of its three switches) and through
`fieldcompare file` (2d `.xdmf` written by meshio next to 3d `.vtu`).

Logical meshes are those of `fcv.meshgen`; a *case* is a plain JSON-serialisable dict (see `gen_case`)."""
from __future__ import annotations
import copy
import itertools
import os
import warnings

import numpy as np

from . import meshgen, predio

INTS = {"i8": (-2 ** 7, 2 ** 7 - 1), "i16": (-2 ** 15, 2 ** 15 - 1), "i32": (-2 ** 31, 2 ** 31 - 1),
        "i64": (-2 ** 63, 2 ** 63 - 1), "u8": (0, 2 ** 8 - 1), "u16": (0, 2 ** 16 - 1), "u32": (0, 2 ** 32 - 1),
        "u64": (0, 2 ** 64 - 1)}

# user tolerances (rel, abs) in predio form: large ones, the defaults, explicit zeros, a data-computed absolute one
TOLS = [(["num", 0.5], ["num", 0.0]), (["num", 0.0], ["num", 1e3]), (["num", 1e3], ["num", 1e3]),
        (["num", 1e300], ["num", 1e300]), (["dflt"], ["dflt"]), (["num", 0.0], ["num", 0.0]),
        (["num", 1e-3], ["scaled", 1.0]), (["num", 0.9], ["num", 2.0])]

SWITCHES = list(itertools.product([False, True], repeat=3))      # (dis_reorder, dis_orphan, dis_spacedim)
DIMS = [(2, 3), (3, 2), (2, 2), (3, 3)]                          # (source, reference) space dimension
TAILS = {"s": [], "v": [2], "t": [2, 2]}


def _rowsize(tail):
    r = 1
    for d in tail:
        r *= d
    return r


def _values(rng, dt, count, big):
    lo, hi = INTS[dt]
    if big and dt in ("i64", "u64"):
        # beyond 2^53, where neighbouring integers share one float64 value, and next to the type limit
        base = rng.choice([2 ** 53, 2 ** 60 + 1, hi - 3 * count - 7])
        return [base + 3 * i for i in range(count)]
    if big:
        return [hi - 2 * i - 1 for i in range(count)] if count * 2 + 1 < hi - lo else [lo + i % (hi - lo) for i in range(count)]
    top = min(hi, 120)
    bot = max(lo, -120)
    return [rng.randint(bot, top) for _ in range(count)]


def gen_base(rng, dt, big=False, kinds="svt"):
    """2d logical mesh with integer point and cell fields of dtype `dt`: scalar, 2-vector and 2x2-tensor (`kinds`)"""
    lm, tags = meshgen.gen_mesh(rng, max_cells_per_dir=rng.choice([1, 2, 2]), dims=(2,), allow_orphans=False,
                                allow_duplicates=False, fields=False, types=rng.choice(["quad", "tri", "mixed2"]),
                                scale=rng.choice([1.0, 1.0, 10.0]))
    npnt = len(lm["points"])
    for k, tail in TAILS.items():
        if k not in kinds:
            continue
        lm["pf"].append({"name": "p" + k, "dt": dt, "tail": list(tail), "v": _values(rng, dt, npnt * _rowsize(tail), big)})
        for t, rows in lm["cells"]:
            lm["cf"].append({"name": "c" + k, "ctype": t, "dt": dt, "tail": list(tail),
                             "v": _values(rng, dt, len(rows) * _rowsize(tail), big)})
    return lm, tags


def _pad_rows(v, tail, zero):
    """rows of shape `tail` (2 or 2x2) -> rows of shape 3 / 3x3, the data in the leading corner, zeros elsewhere"""
    rs = _rowsize(tail)
    out = []
    for r in range(len(v) // rs):
        row = v[r * rs:(r + 1) * rs]
        if tail == [2]:
            out += row + [zero]
        else:
            out += row[0:2] + [zero] + row[2:4] + [zero] + [zero, zero, zero]
    return out


def pad3(lm):
    """the same data set with a third, zero, coordinate; vector / tensor fields zero-padded accordingly"""
    out = copy.deepcopy(lm)
    out["dim"] = 3
    out["points"] = [list(p) + [0.0] for p in out["points"]]
    for f in out["pf"] + out["cf"]:
        if f["tail"] in ([2], [2, 2]):
            f["v"] = _pad_rows(f["v"], f["tail"], 0)
            f["tail"] = [3] * len(f["tail"])
    return out


def field_records(lm):
    """[(reported name, record)]: point fields by name, cell fields as `name @ TYPE`"""
    return [(f["name"], f) for f in lm["pf"]] + [(f["name"] + " @ " + f["ctype"], f) for f in lm["cf"]]


def change_entry(rng, lm, fname, where, dt):
    """change ONE data entry (never a padding zero: the mesh is still in its 2d form) of field `fname`"""
    rec = dict(field_records(lm))[fname]
    n = len(rec["v"])
    i = {"first": 0, "last": n - 1, "middle": n // 2}[where]
    lo, hi = INTS[dt]
    old = rec["v"][i]
    for delta in rng.sample([1, -1, 2, -2, 3], 5):
        if lo <= old + delta <= hi:
            rec["v"][i] = old + delta
            return {"field": fname, "flat_index": i, "from": old, "to": old + delta}
    raise ValueError("no room to change the entry")


def gen_case(rng, dt, dims, switches, tol, permute, n_diff, big=False, kinds="svt", diff_kinds=None):
    """source / reference = the same integer data set in space dimension dims[0] / dims[1] (3 = zero-padded form),
    `n_diff` fields differing in a single entry, source stored in permuted order if `permute`"""
    base, _ = gen_base(rng, dt, big, kinds)
    src2, ref2 = copy.deepcopy(base), copy.deepcopy(base)
    names = [n for n, f in field_records(base) if diff_kinds is None or f["name"][1] in diff_kinds]
    changed = []
    for fname in rng.sample(names, min(n_diff, len(names))):
        side = rng.choice(["source", "reference"])
        changed.append(dict(change_entry(rng, src2 if side == "source" else ref2, fname,
                                         rng.choice(["first", "middle", "last"]), dt), side=side))
    logical = {"source": pad3(src2) if dims[0] == 3 else src2, "reference": pad3(ref2) if dims[1] == 3 else ref2}
    stored = copy.deepcopy(logical)
    if permute in ("source", "both"):
        stored["source"] = meshgen.relabel(rng, stored["source"], shuffle_blocks=False)
    if permute in ("reference", "both"):
        stored["reference"] = meshgen.relabel(rng, stored["reference"], shuffle_blocks=False)
    case = {"kind": "mesh-int", "dt": dt, "dims": list(dims),
            "switches": {"disable_mesh_reordering": switches[0], "disable_orphan_point_removal": switches[1],
                         "disable_space_dimension_matching": switches[2]},
            "rel": tol[0], "abs": tol[1], "permute": permute, "changed": changed,
            "source": stored["source"], "reference": stored["reference"],
            "logical_source": logical["source"], "logical_reference": logical["reference"]}
    tags = ["mesh-route", "mesh-" + dt, f"mesh-dims-{dims[0]}v{dims[1]}", "mesh-permute-" + str(permute),
            "mesh-diff-" + str(len(changed))] + (["mesh-big-values"] if big else [])
    return case, tags


def padded_pairs(case):
    """[(reported name, source array, reference array)] as the predicate is to see them: logical (unpermuted) order,
    vector / tensor entries of the lower-dimensional side zero-padded to the larger space dimension (the comparator's
    documented space-dimension matching); predio arrays"""
    ls, lr = case["logical_source"], case["logical_reference"]
    if ls["dim"] < lr["dim"]:
        ls = pad3(ls)
    if lr["dim"] < ls["dim"]:
        lr = pad3(lr)
    ncell_s = {t: len(rows) for t, rows in ls["cells"]}
    rr = dict(field_records(lr))
    out = []
    for name, f in field_records(ls):
        g = rr[name]
        n = len(ls["points"]) if "ctype" not in f else ncell_s[f["ctype"]]
        out.append((name, {"dt": f["dt"], "shape": [n] + list(f["tail"]), "v": list(f["v"])},
                    {"dt": g["dt"], "shape": [n] + list(g["tail"]), "v": list(g["v"])}))
    return out


def model_lines(case):
    return [predio.enc_pred("default", case["rel"], case["abs"], a, b) for _, a, b in padded_pairs(case)]


def spec_verdicts(case):
    """what C09 says for integer data: equal iff identical (shapes agree by construction)"""
    return {n: ("T" if a["v"] == b["v"] and a["shape"] == b["shape"] else "F") for n, a, b in padded_pairs(case)}


def run_api(case):
    """-> {"domain": bool, "status": {reported name: 'passed'|'failed'|'error'|…}, "dtypes": {...}} | {"raised": …}"""
    from fieldcompare.mesh import MeshFieldsComparator
    src, ref = meshgen.to_fc(case["source"]), meshgen.to_fc(case["reference"])
    pred = lambda *_: predio.make_pred("default", case["rel"], case["abs"])  # noqa: E731
    with warnings.catch_warnings():
        warnings.simplefilter("ignore")
        with np.errstate(all="ignore"):
            try:
                suite = MeshFieldsComparator(src, ref, **case["switches"])(
                    predicate_selector=pred, fieldcomp_callback=lambda _: None)
            except Exception as e:  # noqa: BLE001
                return {"raised": f"{type(e).__name__}: {e}"}
    return {"domain": bool(suite.domain_equality_check),
            "status": {c.name: str(getattr(c.status, "name", c.status)) for c in suite}}


def enumerate_cases(rng, rounds=1):
    """directed batch: for every integer dtype x (source dim, reference dim) x switch combination one case with a single
    differing field (tolerances and permutation cycled so that every value occurs with every dtype), plus cases without
    any difference, with several differing fields and with values beyond 2^53"""
    out = []
    k = 0
    perms = [None, "source", None, "both", "reference"]
    for _ in range(rounds):
        for dt in INTS:
            for dims in DIMS:
                for sw in SWITCHES:
                    j = k + k // len(SWITCHES)          # shifts by one per switch block: every pairing occurs
                    tol = TOLS[j % len(TOLS)]
                    permute = perms[k % len(perms)]
                    n_diff = [1, 1, 0, 1, 2, 6][j % 6]
                    out.append(gen_case(rng, dt, dims, sw, tol, permute, n_diff, big=(k % 7 == 3)))
                    k += 1
    return out


# ---------------------------------------------------------------- command-line route

def have_xdmf() -> bool:
    try:
        import meshio  # noqa: F401
        import h5py  # noqa: F401
        return True
    except Exception:  # noqa: BLE001
        return False


MESHIO_NAMES = {"TRIANGLE": "triangle", "QUAD": "quad", "LINE": "line"}


def write_xdmf(lm, path):
    """logical mesh -> .xdmf (+ .h5) through meshio, which keeps two-column coordinates"""
    import meshio
    pts = np.array(lm["points"], dtype=np.float64).reshape(len(lm["points"]), lm["dim"])
    cells = [(MESHIO_NAMES[t], np.array(rows, dtype=np.int64)) for t, rows in lm["cells"]]
    pd = {f["name"]: meshgen._values_array(f, len(lm["points"])) for f in lm["pf"]}
    cd = {}
    for f in lm["cf"]:
        cd.setdefault(f["name"], [None] * len(lm["cells"]))
        idx = [t for t, _ in lm["cells"]].index(f["ctype"])
        cd[f["name"]][idx] = meshgen._values_array(f, len(lm["cells"][idx][1]))
    cwd = os.getcwd()
    os.chdir(os.path.dirname(path))        # the .h5 sidecar is referenced by its relative name
    try:
        with warnings.catch_warnings():
            warnings.simplefilter("ignore")
            meshio.Mesh(pts, cells, point_data=pd, cell_data=cd).write(os.path.basename(path))
    finally:
        os.chdir(cwd)


def write_side(lm, directory, stem):
    import fieldcompare.io as fio
    os.makedirs(directory, exist_ok=True)
    if lm["dim"] == 2:
        path = os.path.join(directory, stem + ".xdmf")
        write_xdmf(lm, path)
        return path
    return fio.write(meshgen.to_fc(lm), os.path.join(directory, stem))


def read_back_ok(lm, path) -> bool:
    """side-check: the file reads back (public reader) to the integer data it was written from"""
    import fieldcompare.io as fio
    try:
        with warnings.catch_warnings():
            warnings.simplefilter("ignore")
            back = fio.read(path)
        if np.asarray(back.domain.points).shape != (len(lm["points"]), lm["dim"]):
            return False
        got = {f.name: np.asarray(f.values) for f in back}
    except Exception:  # noqa: BLE001
        return False
    ncell = {t: len(rows) for t, rows in lm["cells"]}
    want = field_records(lm)
    if sorted(got) != sorted(n for n, _ in want):
        return False
    for n, f in want:
        g = got[n]
        cnt = ncell[f["ctype"]] if "ctype" in f else len(lm["points"])
        if g.dtype != np.dtype(predio.NP_DT[f["dt"]]) or list(g.shape) != [cnt] + list(f["tail"]):
            return False
        if [int(x) for x in g.flatten()] != [int(x) for x in f["v"]]:
            return False
    return True


def cli_options(case):
    o = []
    for t in case["rtol"] or []:
        o += ["-rtol", t]
    for t in case["atol"] or []:
        o += ["-atol", t]
    sw = case["switches"]
    if sw["disable_mesh_reordering"]:
        o.append("--disable-mesh-reordering")
    if sw["disable_orphan_point_removal"]:
        o.append("--disable-mesh-orphan-point-removal")
    if sw["disable_space_dimension_matching"]:
        o.append("--disable-mesh-space-dimension-matching")
    return o


def run_cli_case(case, directory):
    """-> {"readok", "out": outcome class, "failed_fields": names of test cases reported as failure / error}"""
    from .cli_scen import run_cli, outcome_class
    a = write_side(case["source"], os.path.join(directory, "r"), "data")
    b = write_side(case["reference"], os.path.join(directory, "f"), "data")
    ok = read_back_ok(case["source"], a) and read_back_ok(case["reference"], b)
    jp = os.path.join(directory, "report.xml")
    out, rep = run_cli(["file", a, b] + cli_options(case) + ["--junit-xml", jp], jp)
    failed = None
    if isinstance(rep, list):
        failed = sorted(n for _s, _c, cases in rep for n, kind in cases if kind in ("failure", "error"))
    return {"readok": ok, "out": outcome_class(out), "failed_fields": failed}


CLI_TOLS = [(["0.5"], None, False), (None, ["1e3"], False), (["{f}:0.5"], ["{f}:1e3"], True), (["1e3"], ["1e3"], False),
            (["{f}:0.9", "0"], ["{f}:2"], True), (None, None, True)]


def enumerate_cli_cases(rng, rounds=1):
    """2d .xdmf vs zero-padded 3d .vtu (both roles) and equal dimensions, every integer dtype, large general / per-field
    -rtol / -atol values; one differing integer entry or none.  Permuted storage only together with per-field tolerances
    (a large GENERAL tolerance also applies to the mesh coordinates, where it would defeat the sorting)"""
    out, k = [], 0
    for _ in range(rounds):
        for dt in INTS:
            for dims in DIMS:
                rt, at_, perm_ok = CLI_TOLS[k % len(CLI_TOLS)]
                permute = "source" if (perm_ok and k % 2 == 0) else None
                n_diff = [1, 1, 0][k % 3]
                case, tags = gen_case(rng, dt, dims, (False, False, False), (["dflt"], ["dflt"]), permute, n_diff,
                                      big=(k % 5 == 4), kinds="sv",   # (.vtu stores tensors as 9-vectors)
                                      diff_kinds=("v" if k % 2 == 0 else None))
                f = (case["changed"][0]["field"] if case["changed"] else rng.choice(["pv", "cv", "ps"])).split(" @ ")[0]
                case["kind"] = "mesh-int-cli"
                case["rtol"] = None if rt is None else [t.format(f=f) for t in rt]
                case["atol"] = None if at_ is None else [t.format(f=f) for t in at_]
                del case["rel"], case["abs"]
                out.append((case, ["mesh-cli"] + tags[1:]))
                k += 1
    return out
