"""C18 phase-6 (package G) directed file sets: flavour x encoding combinations, sizes, piece positions / sub-directories
and CSV shapes that `corr.c18.build_sets` sampled at one point only.  Uses the encoder of `fcv.c18files` unchanged.
Returns tuples (label, kind, files, main, target); `corr.c18` wraps them into its FileSet."""
from __future__ import annotations
import numpy as np
from fcv import c18files as cf


def big_dataset(rng, n=41):
    """a strip of quads and triangles with `n` points: array payloads of 8n / 12n / 4c / c bytes (n = 41: residues
    1, 0 / 1 mod 3), several compressed blocks per array at block size 48"""
    m = n // 2
    pts = np.array([[i % m + rng.uniform(-0.05, 0.05), i // m + rng.uniform(-0.05, 0.05), 0.0] for i in range(n)])
    quads = [[i, i + 1, m + i + 1, m + i] for i in range(0, m - 2, 2)]
    tris = [[i, i + 1, m + i] for i in range(1, m - 2, 2)]
    cells = [("QUAD", 9, quads), ("TRIANGLE", 5, tris)]
    nc = len(quads) + len(tris)
    pf = {"pscal": np.array([rng.uniform(1, 2) + i for i in range(n)], dtype=np.float64),
          "pvec": np.array([[i + 0.5, -i - 0.25, rng.randint(1, 9)] for i in range(n)], dtype=np.float32)}
    cfd = {"cid": np.array([rng.randint(10, 99) + 100 * i for i in range(nc)], dtype=np.int32),
           "cval": np.array([rng.uniform(5, 6) * (i + 1) for i in range(nc)], dtype=np.float64)}
    return {"points": pts, "cells": cells, "pf": pf, "cf": cfd}


def matrix_sets(rng, thorough=False):
    """every VTK-XML flavour with encodings it was not yet enumerated with; every compressor inline AND appended"""
    ds = cf.small_dataset(rng)
    vals = [rng.uniform(1, 2), rng.randint(3, 9) + 0.5, rng.uniform(0.1, 0.2)]
    have_lz4 = "lz4" in cf.COMPRESS
    lz = "lz4" if have_lz4 else "zlib"
    C = cf.Cfg
    out = []

    def add(label, name, data):
        out.append((label, "vtk", {name: data}, name, name))
    for c in [C("binary", lz, "UInt32", 32), C("appended-base64", "lzma", "UInt64", 64), C("appended-base64", lz, "UInt32", 48),
              C("appended-raw", "lzma", "UInt64", 48)] + ([C("binary", None, "UInt32"), C("appended-raw", None, "UInt32")] if thorough else []):
        add(f"p6g-vtu-{c.label}", "m.vtu", cf.vtu_bytes(ds, c))
    add("p6g-vtp-ascii", "m.vtp", cf.vtp_bytes(ds, C("ascii")))
    add(f"p6g-vti-binary-{lz}", "m.vti", cf.vti_bytes(vals, C("binary", lz, "UInt64", 32)))
    add("p6g-vti-appended-raw-zlib", "m.vti", cf.vti_bytes(vals, C("appended-raw", "zlib", "UInt32", 32)))
    # the encoder's flat grid has the single z ordinate 0.0, which is also what the reader substitutes for an EMPTY
    # ordinate array; with inline ascii data the well-formed fault "array loses its last number" would then leave the
    # logical content unchanged.  Use a non-zero ordinate so that the loss is a loss (nothing may cancel).
    vtr = cf.vtr_bytes(vals, C("ascii"))
    z_old = b'format="ascii">\n          0.0\n        </DataArray>\n      </Coordinates>'
    assert vtr.count(z_old) == 1
    add("p6g-vtr-ascii", "m.vtr", vtr.replace(z_old, z_old.replace(b"0.0", b"0.75")))
    add("p6g-vtr-appended-base64-lzma", "m.vtr", cf.vtr_bytes(vals, C("appended-base64", "lzma", "UInt32", 64)))
    add(f"p6g-vts-appended-base64-{lz}", "m.vts", cf.vts_bytes(vals, C("appended-base64", lz, "UInt32", 32)))
    if thorough:
        add("p6g-vtp-appended-base64-zlib", "m.vtp", cf.vtp_bytes(ds, C("appended-base64", "zlib", "UInt64", 32)))
        add("p6g-vts-binary-zlib", "m.vts", cf.vts_bytes(vals, C("binary", "zlib", "UInt64", 32)))
        for fl, fn in (("vtp", cf.vtp_bytes), ("vti", cf.vti_bytes), ("vtr", cf.vtr_bytes), ("vts", cf.vts_bytes)):
            for c in (C("binary", None, "UInt64"), C("appended-raw", lz, "UInt64", 32), C("appended-base64", None, "UInt64"),
                      C("binary", "lzma", "UInt32", 64)):
                add(f"p6g-{fl}-{c.label}-t", "m." + fl, fn(ds if fl == "vtp" else vals, c))
    return out


def size_sets(rng, thorough=False):
    out = []
    C = cf.Cfg
    lz = "lz4" if "lz4" in cf.COMPRESS else "zlib"
    for n, c in [(41, C("binary", "zlib", "UInt32", 48)), (42, C("appended-raw", lz, "UInt64", 48))] + ([
                 (43, C("binary", None, "UInt64")), (41, C("appended-base64", None, "UInt32")),
                 (160, C("binary", "zlib", "UInt64", 48)), (161, C("appended-raw", None, "UInt32")),
                                                              (44, C("ascii")), (45, C("appended-base64", "lzma", "UInt64", 96))] if thorough else []):
        out.append((f"p6g-vtu-n{n}-{c.label}", "vtk", {"m.vtu": cf.vtu_bytes(big_dataset(rng, n), c)}, "m.vtu", "m.vtu"))
    return out


def parallel_sets(rng):
    """pieces / steps in sub-directories, the damaged file being the FIRST piece / step"""
    ds = cf.small_dataset(rng)
    p0 = cf.vtu_bytes(ds, cf.Cfg("appended-raw", None, "UInt64"))
    p1 = cf.vtu_bytes(cf.shifted(ds, 5.0, 1000.0), cf.Cfg("binary"))
    p2 = cf.vtu_bytes(cf.shifted(ds, 10.0, 2000.0), cf.Cfg("ascii"))
    pv = {"set.pvtu": cf.pvtu_bytes(["pieces/p0.vtu", "pieces/p1.vtu", "pieces/deep/p2.vtu"]),
          "pieces/p0.vtu": p0, "pieces/p1.vtu": p1, "pieces/deep/p2.vtu": p2}
    s0 = cf.vtu_bytes(ds, cf.Cfg("binary", "zlib", "UInt32"))
    s1 = cf.vtu_bytes(cf.shifted(ds, 0.0, 3.0), cf.Cfg("ascii"))
    s2 = cf.vtu_bytes(cf.shifted(ds, 0.0, 7.0), cf.Cfg("appended-base64"))
    sq = {"series.pvd": cf.pvd_bytes(["steps/s0.vtu", "steps/s1.vtu", "s2.vtu"]), "steps/s0.vtu": s0, "steps/s1.vtu": s1,
          "s2.vtu": s2}
    return [("p6g-pvtu-subdir-first-piece", "vtk", pv, "set.pvtu", "pieces/p0.vtu"),
            ("p6g-pvtu-subdir-middle-piece", "vtk", pv, "set.pvtu", "pieces/p1.vtu"),
            ("p6g-pvtu-subdir-index", "vtk", pv, "set.pvtu", "set.pvtu"),
            ("p6g-pvd-subdir-first-step", "vtk", sq, "series.pvd", "steps/s0.vtu"),
            ("p6g-pvd-subdir-middle-step", "vtk", sq, "series.pvd", "steps/s1.vtu"),
            ("p6g-pvd-subdir-index", "vtk", sq, "series.pvd", "series.pvd")]


def csv_sets(rng):
    def num(i):
        return repr(rng.uniform(-3, 3) * 10 ** rng.randint(-6, 6))
    rows40 = "time,kount,label,xval\n" + "".join(
        f"{0.25 * i},{rng.randint(2, 99999)},s{''.join(rng.choice('abcxyz') for _ in range(3))},{num(i)}\n" for i in range(40))
    one = f"time,kount,xval\n0.25,{rng.randint(2, 99999)},{num(0)}\n"
    two_nonl = f"time,xval,kount\n0.25,{num(0)},{rng.randint(2, 99999)}\n0.5,{num(1)},{rng.randint(100, 99999)}"
    neg = f"time,xval\n-0.0,{num(0)}\n-1.5,-{abs(float(num(1)))!r}\n2.5,1e-300\n"
    return [("p6g-csv-40rows", "csv", {"t.csv": rows40.encode()}, "t.csv", "t.csv"),
            ("p6g-csv-1row", "csv", {"t.csv": one.encode()}, "t.csv", "t.csv"),
            ("p6g-csv-no-final-newline", "csv", {"t.csv": two_nonl.encode()}, "t.csv", "t.csv"),
            ("p6g-csv-signs-exponents", "csv", {"t.csv": neg.encode()}, "t.csv", "t.csv")]


def sparse_offsets(rng, content: bytes, n_random: int) -> list[int]:
    """proper prefixes: every offset of the first 40 and the last 24 bytes, and random samples of the boundaries of
    the appended blocks, of the structural offsets (tags, line ends, `_`) and of all offsets"""
    n = len(content)
    offs = set(range(0, min(40, n))) | set(range(max(0, n - 24), n))
    blocks = sorted(cf.appended_block_offsets(content))
    offs |= set(rng.sample(blocks, min(len(blocks), n_random)))
    struct = sorted(cf.structural_offsets(content))
    offs |= set(rng.sample(struct, min(len(struct), n_random)))
    offs |= {rng.randrange(n) for _ in range(n_random)}
    return sorted(o for o in offs if 0 <= o < n)
