"""Plumbing shared by the C03 and C16 checks: mesh objects of every representation from JSON-able
specs, their encoding for the Lean driver, and an *independent* Python oracle of mesh equality
(exact evaluation of the documented formula, no numpy, no fieldcompare).

spec (JSON-able, self-contained):
  {"k": "E", "lm": lm}                              fieldcompare.mesh.Mesh from a logical mesh (fcv.meshgen)
  {"k": "P", "lm": lm}                              PermutedMesh view: sort(MeshFields(Mesh)).domain
      optional "tol_on": "base" (default: tolerances set on the wrapped Mesh before sorting) | "view" (set on the
      permuted view returned by sort — a PermutedMesh of PermutedMeshes) | "inner-view" (set on the point-sorted
      view before it is wrapped by the cell-sorted view)
  {"k": "R", "ext": [e0,e1,e2], "ords": [[..],[..],[..]]}          RectilinearMesh
  {"k": "S", "ext": [e0,e1,e2], "dim": d, "points": [[..], ..]}    StructuredMesh
  {"k": "I", "ext": [e0,e1,e2], "origin": [..], "spacing": [..], "basis": [[..]*3] | None}   ImageMesh
      basis None = constructed WITHOUT `basis=` (standard basis); optional "via": "vti" = the ImageMesh obtained by
      reading an ascii .vti file with these attributes (Direction attribute iff basis is not None) through the
      public reader (fcv.history_p5d)
  optional "tol": [abs_tol, rel_tol]  -> set_tolerances(abs_tol=…, rel_tol=…) after construction
"""
from __future__ import annotations
import warnings
from fractions import Fraction

import numpy as np

from . import meshgen
from .num import f2u, rn64


# ---------------------------------------------------------------- building implementation objects

def build(spec):
    from fieldcompare.mesh import Mesh, MeshFields, RectilinearMesh, StructuredMesh, ImageMesh, sort
    k = spec["k"]
    if k == "E":
        obj = meshgen.to_fc(dict(spec["lm"], pf=[], cf=[])).domain
    elif k == "P":
        base = meshgen.to_fc(dict(spec["lm"], pf=[], cf=[]))
        on = spec.get("tol_on", "base") if spec.get("tol") is not None else None
        tol = dict(abs_tol=float(spec["tol"][0]), rel_tol=float(spec["tol"][1])) if on else {}
        if on == "base":            # the wrapped explicit mesh carries the tolerances, the views inherit them
            base.domain.set_tolerances(**tol)
            return sort(base).domain
        if on == "view":            # set_tolerances on the (outermost) permuted view itself
            view = sort(base).domain
            view.set_tolerances(**tol)
            return view
        if on == "inner-view":      # set on the point-sorted view, which the cell-sorted view then wraps
            from fieldcompare.mesh import sort_points, sort_cells, strip_orphan_points
            inner = sort_points(strip_orphan_points(base))
            inner.domain.set_tolerances(**tol)
            return sort_cells(inner).domain
        if on is not None:
            raise ValueError(on)
        return sort(base).domain
    elif k == "R":
        obj = RectilinearMesh(tuple(spec["ext"]), tuple(np.array(o, dtype=np.float64) for o in spec["ords"]))
    elif k == "S":
        pts = np.array(spec["points"], dtype=np.float64).reshape(len(spec["points"]), spec["dim"])
        obj = StructuredMesh(tuple(spec["ext"]), pts)
    elif k == "I" and spec.get("via") == "vti":
        from . import history_p5d
        obj = history_p5d.read_vti_image(spec)
    elif k == "I":
        basis = None if spec.get("basis") is None else np.array(spec["basis"], dtype=np.float64)
        obj = ImageMesh(tuple(spec["ext"]), tuple(float(x) for x in spec["origin"]),
                        tuple(float(x) for x in spec["spacing"]), basis)
    else:
        raise ValueError(k)
    if spec.get("tol") is not None:
        obj.set_tolerances(abs_tol=float(spec["tol"][0]), rel_tol=float(spec["tol"][1]))
    return obj


def explicit_lm(obj):
    """points / connectivity through the public accessors -> logical mesh (no fields)"""
    pts = np.asarray(obj.points)
    lm = {"dim": int(pts.shape[1]), "points": [[float(c) for c in p] for p in pts], "cells": [], "pf": [], "cf": []}
    for ct in obj.cell_types:
        conn = np.asarray(obj.connectivity(ct))
        lm["cells"].append([ct.name, [[int(i) for i in row] for row in conn]])
    return lm


def explicit_copy(obj):
    """the explicit representation of the same grid: Mesh(points, connectivity) carrying the same tolerances"""
    from fieldcompare.mesh import Mesh
    m = Mesh(np.array(obj.points, dtype=np.float64), [(ct, np.array(obj.connectivity(ct))) for ct in obj.cell_types])
    m.set_tolerances(abs_tol=float(obj.absolute_tolerance), rel_tol=float(obj.relative_tolerance))
    return m


def tolerances(obj):
    return float(obj.absolute_tolerance), float(obj.relative_tolerance)


def run_equals(a, b) -> str:
    with warnings.catch_warnings():
        warnings.simplefilter("ignore")
        with np.errstate(all="ignore"):
            try:
                return "T" if bool(a.equals(b)) else "F"
            except Exception as e:  # noqa: BLE001
                return f"X:{type(e).__name__}"


# ---------------------------------------------------------------- encoding for the driver

def _u(x):
    return str(f2u(float(x)))


def enc_any(spec, obj) -> str:
    """protocol text of one mesh object; tolerances are the ones the object reports"""
    abs_, rel = tolerances(obj)
    head = f"{spec['k']} {f2u(rel)} {f2u(abs_)}"
    k = spec["k"]
    if k in ("E", "P"):
        return f"{head} {meshgen.enc_mesh(explicit_lm(obj))}"
    ext = " ".join(str(int(e)) for e in spec["ext"])
    if k == "R":
        ords = " ".join(f"{len(o)} " + " ".join(_u(x) for x in o) if len(o) else "0" for o in spec["ords"])
        return f"{head} {ext} {ords}"
    if k == "S":
        cs = " ".join(_u(c) for p in spec["points"] for c in p)
        return f"{head} {ext} {spec['dim']} {len(spec['points'])} {cs}".rstrip()
    if k == "I":
        basis = spec.get("basis") or [[1.0, 0.0, 0.0], [0.0, 1.0, 0.0], [0.0, 0.0, 1.0]]
        vals = list(spec["origin"]) + list(spec["spacing"]) + [x for r in basis for x in r]
        return f"{head} {ext} " + " ".join(_u(x) for x in vals)
    raise ValueError(k)


# ---------------------------------------------------------------- independent oracle

COMPAT = {frozenset(("QUAD", "PIXEL")), frozenset(("HEXAHEDRON", "VOXEL"))}   # the property's statement


def compat(a: str, b: str) -> bool:
    return a == b or frozenset((a, b)) in COMPAT


def within(a: float, b: float, rel: float, abs_: float) -> bool:
    """documented formula, each arithmetic step rounded once to binary64 (python ints / fractions only)"""
    d = abs(rn64(Fraction(b) - Fraction(a)))
    p = rn64(Fraction(max(abs(a), abs(b))) * Fraction(rel))
    return d <= max(p, abs_)


def oracle_points(lmA, lmB, rel, abs_) -> bool:
    if len(lmA["points"]) != len(lmB["points"]) or lmA["dim"] != lmB["dim"]:
        return False
    return all(within(x, y, rel, abs_) for p, q in zip(lmA["points"], lmB["points"]) for x, y in zip(p, q))


def oracle_cells(lmA, lmB) -> bool:
    """type sets equal up to interchangeable pairs (both directions), and for every type the partner
    block has the same number of cells with cell-wise equal corner sets"""
    ta = [t for t, _ in lmA["cells"]]
    tb = [t for t, _ in lmB["cells"]]
    only_a = [t for t in ta if t not in tb]
    only_b = [t for t in tb if t not in ta]
    for t in only_a:
        if not any(compat(t, s) for s in only_b):
            return False
    for s in only_b:
        if not any(compat(t, s) for t in only_a):
            return False
    cb = dict((t, rows) for t, rows in lmB["cells"])
    for t, rows in lmA["cells"]:
        partner = t if t in cb else next(s for s in only_b if compat(t, s))
        rows_b = cb[partner]
        if len(rows) != len(rows_b):
            return False
        for r, s in zip(rows, rows_b):
            if sorted(r) != sorted(s):
                return False
    return True


def oracle_mesh_equal(lmA, lmB, rel, abs_) -> bool:
    return oracle_points(lmA, lmB, rel, abs_) and oracle_cells(lmA, lmB)


def all_within(xs, ys, rel, abs_) -> bool:
    xs, ys = list(xs), list(ys)
    return len(xs) == len(ys) and all(within(float(x), float(y), rel, abs_) for x, y in zip(xs, ys))
