"""C20, phase 6 package G — directed batches for dimensions of the quantifier that the scenario generators of
`fcv/cli_scen.py` (shared with C04; untouched) sample at one point only.

`cli_scen` runs every scenario in a fresh temporary directory, under the fixed file names `r/data.<ext>` / `f/data.<ext>`
(directory mode: stems a, b, c, d1, e_x, f in `sub/`, `sub/deep/`; at most 5 files), writes the report to a fresh
`report.xml`, and never passes `--diff`.  The batches (all evaluated by the unchanged rules of `corr/c20.py`; the scenario
carries its options under the key "p6g", so violations replay through the normal path):

  names      file names / sub-directory names (= JUnit suite names and `classname` attributes) with XML-special characters,
             blanks, non-ASCII letters, several dots — file mode and directory mode
  many       directory trees with 12-18 files (many suites in one report) and tables with 40-70 columns (many test cases)
  diff       `--diff` together with `--junit-xml` (option combination; the diff files must not change report or exit status)
  stale      a report file that already exists at the `--junit-xml` path (a passing report of an earlier run) must be replaced
  repath     the SAME paths used again in the same process with NEW content (scenario A, then scenario B written over it):
             the report of the second run must be the report of B (nothing keyed on path names may survive)
  fmtnames   MESH files (.vtu) inside directory trees (cli_scen's trees hold tables only) and in file mode, whose VTK array names
             are special to a formatting layer: `{`, `}`, `{0}`, `{}`, `%s`, `%(x)s`, `100%`, backslashes (CSV headers are
             normalised by the reader, so .vtu); the failing / missing / erroring fields carry such names, so any text
             assembled from field names with `.format()` / `%` meets them.  Needs `mesh_dirs()` (the shared ground-truth
             function `cli_scen.dir_categories` knows tables only) and `fmt_names()` (name pools of the mesh generator)
"""
from __future__ import annotations
import contextlib
import copy
import fnmatch
import os
import shutil

from . import cli_scen as cs

ODD_STEMS = ["a&b", "x<y>", 'q"uote', "it's", "sp ace", "ümlaut-Δ", "dot.dot", "semi;colon", "a=b,c", "#hash", "100%"]
ODD_SUBS = ["", "", "sub dir/", "ü/", "a&b/", "x.y/deep<1>/"]

STALE_REPORT = ('<?xml version="1.0"?>\n<testsuite name="stale" tests="1" disabled="0" errors="0" failures="0" skipped="0" '
                'timestamp="2000-01-01T00:00:00" time="0"><properties /><testcase name="stale" classname="stale" '
                'status="passed" time="0"><system-out>stale</system-out></testcase></testsuite>\n')


# ---------------------------------------------------------------- runners

def _report_after(jp, stale: bool):
    """parsed report, or None when the run did not write one (a pre-existing stale file left untouched counts as not written)"""
    if stale and os.path.exists(jp):
        with open(jp, "r", encoding="utf-8", errors="replace") as fh:
            if fh.read() == STALE_REPORT:
                return None
    return cs.parse_report(jp)


def _prepare_report(jp, stale: bool):
    if os.path.exists(jp):
        os.remove(jp)
    if stale:
        with open(jp, "w", encoding="utf-8") as fh:
            fh.write(STALE_REPORT)


def _read_check_elsewhere(sc, d, res, ref) -> bool:
    """the reader side-check (do the harness' writers and the public readers round-trip this scenario?) on COPIES of the two
    sides under other path names: when paths are used again, the side-check must not depend on what an earlier read of the
    same path names left behind in the process — that is what the run itself is looking for"""
    chk = os.path.join(d, "chk")
    shutil.rmtree(chk, ignore_errors=True)
    try:
        out = []
        for side, p in (("r", res), ("f", ref)):
            src = os.path.join(d, side)
            dst = os.path.join(chk, side)
            if os.path.isdir(src):
                shutil.copytree(src, dst)
            else:
                os.makedirs(dst)
            out.append(os.path.join(dst, os.path.basename(p)))
        return cs.read_check(sc, out[0], out[1])
    finally:
        shutil.rmtree(chk, ignore_errors=True)


def run_file(sc, wd) -> dict:
    """like cli_scen.run_file_scenario(junit=True), with the options of sc["p6g"]"""
    opt = sc["p6g"]
    d = wd.fresh()
    try:
        result = None
        for cur in ([opt["prelude"]] if opt.get("prelude") else []) + [sc]:
            for sub in ("r", "f"):
                shutil.rmtree(os.path.join(d, sub), ignore_errors=True)
            stem = opt.get("stem", "data")
            res = cs.write_side(os.path.join(d, "r"), stem, cur["res"], cur["damage"][0], cur.get("ext"))
            ref = cs.write_side(os.path.join(d, "f"), stem, cur["ref"], cur["damage"][1], cur.get("ext"))
            if cur is not sc:
                readok = True                     # the earlier run only has to happen
            else:
                readok = _read_check_elsewhere(cur, d, res, ref) if opt.get("prelude") else cs.read_check(cur, res, ref)
            jp = os.path.join(d, opt.get("report_name", "report.xml"))
            _prepare_report(jp, bool(opt.get("stale")))
            argv = ["file", res, ref] + cs.option_argv(cur) + (["--diff"] if opt.get("diff") else []) + ["--junit-xml", jp]
            out, _ = cs.run_cli(argv, None)
            result = {"out": out, "rep": _report_after(jp, bool(opt.get("stale"))), "parts": cs.path_parts(res), "readok": readok}
        return result
    finally:
        wd.drop(d)


def run_dir(d, wd) -> dict:
    """like cli_scen.run_dir_scenario, with the options of d["p6g"]"""
    opt = d["p6g"]
    base = wd.fresh()
    try:
        result = None
        for cur in ([opt["prelude"]] if opt.get("prelude") else []) + [d]:
            resdir, refdir = os.path.join(base, "res"), os.path.join(base, "ref")
            for x in (resdir, refdir):
                shutil.rmtree(x, ignore_errors=True)
                os.makedirs(x)
            readok = True
            compared = cs.dir_categories(cur)["compared"]
            for f in cur["files"]:
                rel = f["rel"]
                stem, ext = os.path.splitext(os.path.basename(rel))
                sub = os.path.dirname(rel)
                if f["sc"] is None:
                    side = resdir if f["where"] == "res" else refdir
                    os.makedirs(os.path.join(side, sub), exist_ok=True)
                    with open(os.path.join(side, rel), "w") as fh:
                        fh.write("u,v\n1.0,2\n2.0,3\n")
                    continue
                s = f["sc"]
                p1 = cs.write_side(os.path.join(resdir, sub), stem, s["res"], s["damage"][0], ext)
                p2 = cs.write_side(os.path.join(refdir, sub), stem, s["ref"], s["damage"][1], ext)
                if f in compared and cur is d:
                    if opt.get("prelude"):
                        chk = os.path.join(base, "chk")
                        shutil.rmtree(chk, ignore_errors=True)
                        os.makedirs(os.path.join(chk, "r"))
                        os.makedirs(os.path.join(chk, "f"))
                        q1 = shutil.copy(p1, os.path.join(chk, "r", os.path.basename(p1))) if os.path.exists(p1) else p1
                        q2 = shutil.copy(p2, os.path.join(chk, "f", os.path.basename(p2))) if os.path.exists(p2) else p2
                        ok = cs.read_check(s, q1, q2)
                        shutil.rmtree(chk, ignore_errors=True)
                    else:
                        ok = cs.read_check(s, p1, p2)
                    if not ok:
                        readok = False
            jp = os.path.join(base, opt.get("report_name", "report.xml"))
            _prepare_report(jp, bool(opt.get("stale")))
            argv = cs.dir_argv(cur, resdir, refdir, jp) + (["--diff"] if opt.get("diff") else [])
            out, _ = cs.run_cli(argv, None)
            result = {"out": out, "rep": _report_after(jp, bool(opt.get("stale"))), "resdir": resdir, "readok": readok}
        return result
    finally:
        wd.drop(base)


# ---------------------------------------------------------------- generators

def _file_pair(rng, opts, ext, ncols=None):
    """one table pair with edits under the directory-wide options (as in cli_scen.gen_dir_scenario)"""
    ref = cs.gen_table(rng, sniffable=True)
    if ncols:
        cols = []
        while len(cols) < ncols:
            for c in cs.gen_table(rng, sniffable=True)["cols"]:
                if len(c["v"]) >= 3 and len(cols) < ncols:
                    cols.append({"name": f"{c['name']}_{len(cols)}", "dt": "f64" if not cols else c["dt"], "v": c["v"][:3]})
        cols[0]["v"] = [cs._rand_float(rng) for _ in range(3)]
        ref = {"kind": "table", "rows": 3, "cols": cols}
    res = copy.deepcopy(ref)
    sc = dict(copy.deepcopy(opts), kind="csv", damage=[None, None], res=res, ref=ref, ext=ext)
    ft = []
    cs.apply_field_edits(rng, sc, res, ref, ft)
    if rng.random() < 0.12:
        res["rows"] += 1
        for c in res["cols"]:
            c["v"].append(c["v"][-1])
        ft.append("edit-rows")
    return sc, ft


def gen_dir(rng, nfiles, stems, subs, tag, ncols=None, patterns=True):
    names = list(cs.CSV_NAMES)
    opts = {"rtol": cs.gen_tokens(rng, names, "rtol"), "atol": cs.gen_tokens(rng, names, "atol"),
            "flags": {"ign_src": rng.random() < 0.3, "ign_ref": rng.random() < 0.3, "ign_seq": False},
            "incl": cs.gen_patterns(rng, names[:4]), "excl": cs.gen_patterns(rng, names[:4]) if rng.random() < 0.4 else None,
            "read_as": rng.choice([None, [cs.DSV_READER], ["dsv:*.tbl"]])}
    d = {"opts": opts, "ims": rng.random() < 0.4, "imr": rng.random() < 0.4,
         "incl_files": rng.choice([None, None, ["*.csv"], ["*a*", "*b*", "sub*"]]) if patterns else None,
         "excl_files": rng.choice([None, None, ["*b*"], ["*.tbl", "*dot*"]]) if patterns else None, "files": [], "p6g": {}}
    tags = ["dir", "p6g", "p6g-" + tag]
    used = set()
    for k in range(nfiles):
        # `stems` given as a tuple: taken in turn (every name of a directed pool is used), else drawn at random
        stem = stems[k % len(stems)] if isinstance(stems, tuple) else rng.choice(stems)
        rel = rng.choice(subs) + stem + rng.choice([".csv", ".csv", ".csv", ".tbl"])
        if rel in used:
            continue
        used.add(rel)
        where = rng.choice(["both", "both", "both", "both", "res", "ref"])
        if where != "both":
            d["files"].append({"rel": rel, "where": where, "sc": None})
            tags.append("file-onesided")
            continue
        sc, ft = _file_pair(rng, opts, os.path.splitext(rel)[1], ncols)
        tags += ["file-" + t for t in ft]
        d["files"].append({"rel": rel, "where": "both", "sc": sc})
    return d, tags


def gen_batch_dirs(rng, n):
    """n rounds; each round: odd names, many files, wide tables, --diff, stale report, same paths with new content"""
    out = []
    plain_stems = list(cs.DIR_NAMES) + [f"g{i}" for i in range(12)]
    plain_subs = ["", "", "sub/", "sub/deep/", "other/"]
    odd = list(ODD_STEMS)
    for _ in range(n):
        rng.shuffle(odd)
        d, t = gen_dir(rng, 6, tuple(odd[:6]), ODD_SUBS, "names")
        out.append((d, t))
        d, t = gen_dir(rng, 5, tuple(odd[6:]), ODD_SUBS, "names", patterns=False)
        out.append((d, t))
        d, t = gen_dir(rng, rng.randint(12, 18), plain_stems, plain_subs, "many")
        out.append((d, t + ["p6g-many-files"]))
        d, t = gen_dir(rng, 2, plain_stems, [""], "many", ncols=rng.randint(40, 70))
        out.append((d, t + ["p6g-many-columns"]))
        d, t = gen_dir(rng, rng.randint(1, 4), plain_stems, plain_subs, "diff")
        d["p6g"]["diff"] = True
        out.append((d, t))
        d, t = gen_dir(rng, rng.randint(0, 3), plain_stems, plain_subs, "stale")
        d["p6g"]["stale"] = True
        out.append((d, t))
        # same paths, new content: the prelude tree has the same relative names with other tables / other sides
        d, t = gen_dir(rng, rng.randint(2, 4), plain_stems[:4], ["", "sub/"], "repath", patterns=False)
        pre, _ = gen_dir(rng, 0, plain_stems[:4], [""], "repath", patterns=False)
        pre["opts"] = copy.deepcopy(d["opts"])
        for f in d["files"]:
            sc, _ft = _file_pair(rng, pre["opts"], os.path.splitext(f["rel"])[1])
            pre["files"].append({"rel": f["rel"], "where": "both", "sc": sc})
        del pre["p6g"]
        d["p6g"]["prelude"] = pre
        out.append((d, t))
    return out


def gen_batch_files(rng, n):
    out = []
    for _ in range(n):
        for tag in ("names", "diff", "stale", "repath"):
            sc, t = cs.gen_scenario(rng)
            sc["p6g"] = {}
            if tag == "names":
                # the harness' own .pvd writer does not escape file names: XML-safe odd names for sequences
                seq = any(isinstance(sc.get(k), dict) and sc[k].get("kind") == "seq" for k in ("res", "ref"))
                sc["p6g"]["stem"] = rng.choice(["sp ace", "ümlaut-Δ", "dot.dot", "#hash"] if seq else ODD_STEMS)
                sc["p6g"]["report_name"] = rng.choice(["report.xml", "re port.xml", "bericht-ü.xml", "r&d.xml"])
            elif tag == "diff":
                sc["p6g"]["diff"] = True
            elif tag == "stale":
                sc["p6g"]["stale"] = True
            else:
                pre, _ = cs.gen_scenario(rng)
                for _try in range(30):          # same kind of data: the same file names are written again
                    if pre["kind"] == sc["kind"]:
                        break
                    pre, _ = cs.gen_scenario(rng)
                sc["p6g"]["prelude"] = pre
            out.append((sc, list(t) + ["p6g", "p6g-" + tag]))
    return out


# ---------------------------------------------------------------- mesh files in trees, names special to formatting layers

FMT_PNAMES = ["u{0}", "{p}", "%s", "100%", "a\\b", "{", "}", "{}", "%(x)s", "T{0!r}", "{0}{1}", "x%dy", "c&d<{e}>", "Δ{0}"]
FMT_CNAMES = ["k{0}", "{c}", "%d", "50%%", "c\\d", "{}", "}{", "é%s"]


@contextlib.contextmanager
def fmt_names():
    """the mesh scenario generators of cli_scen draw field names from these pools only"""
    oldp, oldc = list(cs.MESH_PNAMES), list(cs.MESH_CNAMES)
    cs.MESH_PNAMES[:] = FMT_PNAMES
    cs.MESH_CNAMES[:] = FMT_CNAMES
    try:
        yield
    finally:
        cs.MESH_PNAMES[:] = oldp
        cs.MESH_CNAMES[:] = oldc


def dir_categories_with_meshes(d):
    """cli_scen.dir_categories with `.vtu` among the supported formats (superset: identical on trees of tables)"""
    def consider(rel):
        inc = True if d["incl_files"] is None else any(fnmatch.fnmatch(rel, p) for p in d["incl_files"])
        exc = False if d["excl_files"] is None else any(fnmatch.fnmatch(rel, p) for p in d["excl_files"])
        return inc and not exc

    def mapped(rel):
        for r in d["opts"]["read_as"] or []:
            pat = r[len(cs.DSV_READER) + 1:] if r.startswith(cs.DSV_READER) else r[4:]
            if fnmatch.fnmatch(rel, pat or "*"):
                return True
        return False
    cat = {"compared": [], "missing_src": [], "missing_ref": [], "unsupported": [], "discarded": []}
    for f in d["files"]:
        rel = f["rel"]
        if f["where"] == "both":
            if not consider(rel):
                cat["discarded"].append(rel)
            elif rel.endswith(".csv") or rel.endswith(".vtu") or mapped(rel):
                cat["compared"].append(f)
            else:
                cat["unsupported"].append(rel)
        elif consider(rel):
            cat["missing_src" if f["where"] == "ref" else "missing_ref"].append(rel)
    return cat


@contextlib.contextmanager
def mesh_dirs():
    old = cs.dir_categories
    cs.dir_categories = dir_categories_with_meshes
    try:
        yield
    finally:
        cs.dir_categories = old


def gen_mesh_dir(rng, nfiles):
    """a tree of .vtu pairs under ONE set of options; call under fmt_names().  The first pair is built exactly like
    cli_scen.gen_mesh_scenario (options, tolerance plan, field and domain edits); the further pairs are meshes of the same
    length scale with field edits made under the same options (no domain edits: the tolerance plan belongs to one mesh)"""
    lm0, mt = cs.gen_logical_mesh(rng)
    names = list(dict.fromkeys(FMT_PNAMES + FMT_CNAMES))
    sc0 = {"kind": "mesh", "rtol": None, "atol": None, "flags": cs.gen_flags(rng, mesh=True),
           "incl": cs.gen_patterns(rng, cs._mesh_names(lm0)),
           "excl": cs.gen_patterns(rng, cs._mesh_names(lm0)) if rng.random() < 0.5 else None,
           "read_as": None, "damage": [None, None]}
    sc0["rtol"] = cs.gen_tokens(rng, rng.sample(names, 4) + cs._mesh_names(lm0), "rtol", mesh=True)
    sc0["atol"] = cs.gen_tokens(rng, rng.sample(names, 4) + cs._mesh_names(lm0), "atol", mesh=True, scale=mt["scale"] * 1e-2)
    t0 = []
    plan = cs.plan_domain_tolerance(rng, sc0, mt["scale"], t0)
    sc0["res"], sc0["ref"] = cs.gen_mesh_pair(rng, sc0, lm0, t0, plan=plan)
    keys = ("rtol", "atol", "flags", "incl", "excl", "read_as")
    opts = {k: copy.deepcopy(sc0[k]) for k in keys}
    d = {"opts": opts, "ims": rng.random() < 0.4, "imr": rng.random() < 0.4, "incl_files": None, "excl_files": None,
         "files": [], "p6g": {"meshes": True}}
    tags = ["dir", "p6g", "p6g-fmtnames", "p6g-mesh-dir"]
    subs = ["", "", "sub/", "sub/deep/"]
    for k in range(nfiles):
        if k == 0:
            sc, t = sc0, t0
        else:
            for _try in range(40):
                lm, mtk = cs.gen_logical_mesh(rng)
                if mtk["scale"] == mt["scale"]:
                    break
            else:
                continue
            sc = dict(copy.deepcopy(opts), kind="mesh", damage=[None, None])
            t = []
            sc["res"], sc["ref"] = cs.gen_mesh_pair(rng, sc, lm, t, domain_edits=False)
            if rng.random() < 0.1:
                sc["damage"][rng.randrange(2)] = rng.choice(["truncated", "garbage"])
                t.append("damage-" + [x for x in sc["damage"] if x][0])
        rel = rng.choice(subs) + f"m{k}.vtu"
        d["files"].append({"rel": rel, "where": "both", "sc": sc})
        tags += ["file-both.vtu"] + ["file-" + x for x in t if x.startswith(("edit", "damage"))]
    if rng.random() < 0.5:
        d["files"].append({"rel": "only.csv", "where": rng.choice(["res", "ref"]), "sc": None})
        tags.append("file-onesided")
    return d, tags


def gen_fmt_file_scenarios(rng, n):
    out = []
    for _ in range(n):
        sc, t = cs.gen_mesh_scenario(rng)
        sc["p6g"] = {}
        out.append((sc, list(t) + ["p6g", "p6g-fmtnames"]))
    return out
