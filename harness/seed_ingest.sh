#!/bin/bash
# seed_ingest.sh <prop> <seed-id> [extra-props] (RND=<round dir under /tmp>, default r4): copy /tmp/$RND/<prop>_out into seeded/<seed-id>, verify in a scratch worktree, run the property's quick check in scratch mode (FCV_REPO)
prop=$1; id=$2; extra=$3
cd /verif
mkdir -p seeded/$id
cp /tmp/${RND:-r4}/${prop}_out/patch.diff /tmp/${RND:-r4}/${prop}_out/demo.py /tmp/${RND:-r4}/${prop}_out/meta.json seeded/$id/
/venv/bin/python harness/seedtest.py $id $prop --verify-only 2>&1 | tail -1
/venv/bin/python harness/seedtest.py $id $prop --no-verify --scratch ${extra:+--extra-props $extra} 2>&1 | tail -5
