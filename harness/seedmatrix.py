#!/venv/bin/python
"""seedmatrix.py [-j N] [--out FILE] : every kept seed x every registered check (quick tier), each seed applied to a
SCRATCH worktree of /repo (FCV_REPO), never to /repo itself.  Writes seeded/MATRIX.json and prints a markdown table.
Maintainers' tool (not a registered command); the official per-seed runs against /repo are done by seedtest.py."""
from __future__ import annotations
import argparse, glob, json, os, subprocess, sys, tempfile
from concurrent.futures import ThreadPoolExecutor

VERIF = os.path.dirname(os.path.dirname(os.path.abspath(__file__)))
PY = "/venv/bin/python"


def sh(cmd, cwd=None, env=None, timeout=3600):
    p = subprocess.run(cmd, cwd=cwd, env=env, stdout=subprocess.PIPE, stderr=subprocess.STDOUT, timeout=timeout)
    return p.returncode, p.stdout.decode(errors="replace")


def main():
    ap = argparse.ArgumentParser()
    ap.add_argument("-j", type=int, default=4)
    ap.add_argument("--out", default=os.path.join(VERIF, "seeded", "MATRIX.json"))
    ap.add_argument("--seeds", default="")
    a = ap.parse_args()
    props = sorted(c["property_id"] for c in json.load(open(os.path.join(VERIF, "MANIFEST.json")))["checks"])
    seeds = sorted(os.path.basename(os.path.dirname(p)) for p in glob.glob(os.path.join(VERIF, "seeded", "*", "patch.diff")))
    if a.seeds:
        seeds = [s for s in seeds if s in a.seeds.split(",")]
    sh([PY, "harness/setup.py"], cwd=VERIF)
    matrix = {}
    for sid in seeds:
        wt = tempfile.mkdtemp(prefix="fcv_matrix_"); os.rmdir(wt)
        rc, out = sh(["git", "-C", "/repo", "worktree", "add", "-q", "--detach", wt, "HEAD"])
        assert rc == 0, out
        try:
            rc, out = sh(["git", "-C", wt, "apply", os.path.join(VERIF, "seeded", sid, "patch.diff")])
            if rc != 0:
                matrix[sid] = {"error": "patch does not apply: " + out[-200:]}
                continue
            env = dict(os.environ, FCV_REPO=wt)

            def one(prop):
                rc, out = sh([PY, "harness/vcheck.py", prop, "--tier", "quick"], cwd=VERIF, env=env)
                vl = [l for l in out.splitlines() if l.startswith("VIOLATION")]
                kind = "-" if rc == 0 else ("broken" if vl and "no-failing-input-found" in vl[0] else
                                            ("input" if vl else f"exit{rc}"))
                return prop, kind
            with ThreadPoolExecutor(a.j) as ex:
                matrix[sid] = dict(ex.map(one, props))
            print(sid, " ".join(f"{p}:{k}" for p, k in matrix[sid].items() if k != "-"), flush=True)
        finally:
            sh(["git", "-C", "/repo", "worktree", "remove", "--force", wt])
    json.dump({"props": props, "matrix": matrix}, open(a.out, "w"), indent=1)
    print("| seed | " + " | ".join(props) + " |")
    print("|---|" + "---|" * len(props))
    for sid, row in matrix.items():
        print(f"| {sid} | " + " | ".join({"-": "", "input": "I", "broken": "b"}.get(row.get(p, "?"), row.get(p, "?")) for p in props) + " |")


if __name__ == "__main__":
    sys.exit(main())
