#!/venv/bin/python
"""mutsweep.py [--n N] [--seed S] [-j J] [--out FILE]

Property-agnostic mutation sweep (maintainers' tool, not a registered command): N random single-site AST mutations of
fieldcompare's source (comparison / boolean / arithmetic operators, min<->max, off-by-one constants, dropped `not`,
dropped `abs`, swapped call arguments of same-named keyword pairs …), each applied to a SCRATCH worktree of /repo.
A mutant that still passes the 239 pinned tests is run through all registered quick checks (FCV_REPO); the result says
which checks report it.  Survivors (no check alarms) are equivalent mutants or gaps — they are listed for analysis."""
from __future__ import annotations
import argparse, ast, json, os, random, subprocess, sys, tempfile, glob
from concurrent.futures import ThreadPoolExecutor

VERIF = os.path.dirname(os.path.dirname(os.path.abspath(__file__)))
PY = "/venv/bin/python"
SKIP_FILES = ("_logger.py", "__about__.py", "_format.py", "protocols.py", "__init__.py", "_deprecation.py")


def sh(cmd, cwd=None, env=None, timeout=3600):
    p = subprocess.run(cmd, cwd=cwd, env=env, stdout=subprocess.PIPE, stderr=subprocess.STDOUT, timeout=timeout)
    return p.returncode, p.stdout.decode(errors="replace")


CMP = {ast.Lt: ast.LtE, ast.LtE: ast.Lt, ast.Gt: ast.GtE, ast.GtE: ast.Gt, ast.Eq: ast.NotEq, ast.NotEq: ast.Eq,
       ast.Is: ast.IsNot, ast.IsNot: ast.Is, ast.In: ast.NotIn, ast.NotIn: ast.In}
BIN = {ast.Add: ast.Sub, ast.Sub: ast.Add, ast.Mult: ast.FloorDiv, ast.FloorDiv: ast.Mult}
DROP_KW = ("dtype", "copy", "axis", "order")
NAME_SWAP = {"flatten": "ravel", "startswith": "endswith", "endswith": "startswith", "rstrip": "strip", "match": "search",
             "fullmatch": "match", "setdefault": "get", "rsplit": "split", "split": "rsplit", "min": "max", "max": "min", "any": "all", "all": "any", "maximum": "minimum", "minimum": "maximum",
             "less_equal": "less", "less": "less_equal", "logical_and": "logical_or", "logical_or": "logical_and",
             "argmax": "argmin", "cumsum": "cumprod"}


def sites(tree):
    """list of (kind, node) mutation sites"""
    out = []
    for node in ast.walk(tree):
        if isinstance(node, ast.Compare) and len(node.ops) == 1 and type(node.ops[0]) in CMP:
            out.append(("cmp", node))
        elif isinstance(node, ast.BoolOp):
            out.append(("bool", node))
        elif isinstance(node, ast.BinOp) and type(node.op) in BIN:
            out.append(("bin", node))
        elif isinstance(node, ast.UnaryOp) and isinstance(node.op, ast.Not):
            out.append(("not", node))
        elif isinstance(node, ast.Constant) and isinstance(node.value, int) and not isinstance(node.value, bool) \
                and 0 <= node.value <= 8:
            out.append(("const", node))
        elif isinstance(node, ast.IfExp) and isinstance(node.test, ast.Compare) and len(node.test.ops) == 1 \
                and isinstance(node.test.ops[0], ast.IsNot) and isinstance(node.test.comparators[0], ast.Constant) \
                and node.test.comparators[0].value is None:
            out.append(("noneor", node))          # `x if x is not None else y` -> `x or y`
        elif isinstance(node, ast.Call):
            f = node.func
            nm = f.id if isinstance(f, ast.Name) else (f.attr if isinstance(f, ast.Attribute) else None)
            if any(k.arg in DROP_KW for k in node.keywords):
                out.append(("dropkw", node))      # forget dtype= / copy= / axis= / order=
            if nm == "copy" and isinstance(f, ast.Attribute) and not node.args and not node.keywords:
                out.append(("dropcopy", node))    # x.copy() -> x  (aliasing)
            if nm in NAME_SWAP:
                out.append(("name", node))
            elif nm in ("abs", "absolute") and len(node.args) == 1:
                out.append(("dropcall", node))
            elif len(node.args) >= 2 and not node.keywords and all(isinstance(a, ast.Name) for a in node.args[:2]):
                out.append(("swapargs", node))
    return out


def mutate(src: str, rng: random.Random, kinds=None):
    """-> (new_src, description) or None"""
    tree = ast.parse(src)
    ss = [x for x in sites(tree) if kinds is None or x[0] in kinds]
    if not ss:
        return None
    kind, node = rng.choice(ss)
    line = getattr(node, "lineno", 0)
    before = ast.unparse(node)
    repl = None
    if kind == "cmp":
        node.ops[0] = CMP[type(node.ops[0])]()
    elif kind == "bool":
        node.op = ast.Or() if isinstance(node.op, ast.And) else ast.And()
    elif kind == "bin":
        node.op = BIN[type(node.op)]()
    elif kind == "not":
        node.op = ast.UAdd() if False else node.op
        # replace `not x` by `x`: mutate in place by turning the node into a no-op double negation is impossible; rebuild
        for parent in ast.walk(tree):
            for fld, val in ast.iter_fields(parent):
                if val is node:
                    setattr(parent, fld, node.operand)
                elif isinstance(val, list) and node in val:
                    val[val.index(node)] = node.operand
    elif kind == "const":
        node.value = node.value + rng.choice([1, -1]) if node.value > 0 else 1
    elif kind == "name":
        f = node.func
        if isinstance(f, ast.Name):
            f.id = NAME_SWAP[f.id]
        else:
            f.attr = NAME_SWAP[f.attr]
    elif kind == "dropcall":
        for parent in ast.walk(tree):
            for fld, val in ast.iter_fields(parent):
                if val is node:
                    setattr(parent, fld, node.args[0])
                elif isinstance(val, list) and node in val:
                    val[val.index(node)] = node.args[0]
    elif kind == "swapargs":
        node.args[0], node.args[1] = node.args[1], node.args[0]
    elif kind == "noneor":
        repl = ast.BoolOp(op=ast.Or(), values=[node.body, node.orelse])
    elif kind == "dropkw":
        ks = [k for k in node.keywords if k.arg in DROP_KW]
        node.keywords.remove(rng.choice(ks))
    elif kind == "dropcopy":
        repl = node.func.value
    if repl is not None:
        for parent in ast.walk(tree):
            for fld, val in ast.iter_fields(parent):
                if val is node:
                    setattr(parent, fld, repl)
                elif isinstance(val, list) and node in val:
                    val[val.index(node)] = repl
        ast.fix_missing_locations(tree)
    try:
        new = ast.unparse(tree)
    except Exception:  # noqa: BLE001
        return None
    try:
        after = ast.unparse(repl if repl is not None else (node.operand if kind == "not" else
                                                             (node.args[0] if kind == "dropcall" else node)))
    except Exception:  # noqa: BLE001
        after = "?"
    return new, f"{kind}@{line}", f"{before}  ==>  {after}"


def main():
    ap = argparse.ArgumentParser()
    ap.add_argument("--n", type=int, default=40)
    ap.add_argument("--seed", type=int, default=1)
    ap.add_argument("-j", type=int, default=4)
    ap.add_argument("--out", default=os.path.join(VERIF, "seeded", "MUTSWEEP.json"))
    ap.add_argument("--kinds", default="", help="comma separated: restrict to these mutation kinds")
    ap.add_argument("--files", default="", help="comma separated substrings: restrict to matching source files")
    a = ap.parse_args()
    rng = random.Random(a.seed)
    props = sorted(c["property_id"] for c in json.load(open(os.path.join(VERIF, "MANIFEST.json")))["checks"])
    sh([PY, "harness/setup.py"], cwd=VERIF)
    files = [p for p in glob.glob("/repo/fieldcompare/**/*.py", recursive=True) if not p.endswith(SKIP_FILES)]
    if a.files:
        files = [p for p in files if any(x in p for x in a.files.split(","))]
    results = []
    tried = 0
    while len(results) < a.n and tried < 6 * a.n:
        tried += 1
        path = rng.choice(files)
        rel = os.path.relpath(path, "/repo")
        # NOTE: ast.unparse drops comments/formatting — irrelevant for behaviour; the baseline of a mutant is the
        # unparsed ORIGINAL (so that table extractors see the same normalisation)
        m = mutate(open(path).read(), rng, a.kinds.split(",") if a.kinds else None)
        if m is None:
            continue
        new, desc, change = m
        wt = tempfile.mkdtemp(prefix="fcv_mut_"); os.rmdir(wt)
        rc, out = sh(["git", "-C", "/repo", "worktree", "add", "-q", "--detach", wt, "HEAD"])
        assert rc == 0, out
        try:
            open(os.path.join(wt, rel), "w").write(new)
            rc, out = sh([PY, "-c", "import fieldcompare"], cwd=wt, env=dict(os.environ, PYTHONPATH=wt))
            if rc != 0:
                continue
            rc, out = sh([PY, "-m", "pytest", "-q", "-x", "-p", "no:cacheprovider", "--timeout=300",
                          "--deselect", "test/test_examples.py::test_api_examples"], cwd=wt, timeout=1200)
            if rc != 0:
                results.append({"file": rel, "mutation": desc, "change": change, "tests": "fail"})
                print(f"[tests-kill] {rel} {desc}", flush=True)
                continue
            env = dict(os.environ, FCV_REPO=wt)

            def one(prop):
                rc, out = sh([PY, "harness/vcheck.py", prop, "--tier", "quick"], cwd=VERIF, env=env)
                vl = [l for l in out.splitlines() if l.startswith("VIOLATION")]
                return prop, ("-" if rc == 0 else ("broken" if vl and "no-failing-input-found" in vl[0] else
                                                  ("input" if vl else f"exit{rc}")))
            with ThreadPoolExecutor(a.j) as ex:
                row = dict(ex.map(one, props))
            killers = {p: k for p, k in row.items() if k != "-"}
            diff = sh(["git", "-C", wt, "diff", "--stat"])[1]
            results.append({"file": rel, "mutation": desc, "change": change, "tests": "pass", "killers": killers})
            print(f"[{'KILLED' if killers else 'SURVIVED'}] {rel} {desc} {killers}", flush=True)
        finally:
            sh(["git", "-C", "/repo", "worktree", "remove", "--force", wt])
        json.dump(results, open(a.out, "w"), indent=1)
    surv = [r for r in results if r["tests"] == "pass" and not r["killers"]]
    print(f"mutants: {len(results)}; killed by the pinned tests: {sum(r['tests'] == 'fail' for r in results)}; "
          f"test-surviving: {sum(r['tests'] == 'pass' for r in results)}; of these not reported by any check: {len(surv)}")
    for r in surv:
        print("SURVIVOR", r["file"], r["mutation"], "|", r.get("change"))


if __name__ == "__main__":
    sys.exit(main())
