#!/venv/bin/python
"""vcheck.py Cxx --tier quick|thorough [--replay FILE]

One check run for one property (see DESIGN.md §4):
  S0 regenerate FcGen/Tables.lean from /repo source text, build driver and the property's proofs
  S1 audit (forbidden tokens; #print axioms on every theorem Cxx_*)
  S2-S5 correspondence / spec agreement / search / known findings  (harness/corr/cxx.py)
  S6 evidence
Exit 0 = held; 1 = VIOLATION line printed; 2 = infrastructure problem (never a VIOLATION line).
"""
from __future__ import annotations
import argparse
import importlib
import json
import os
import sys
import traceback

HERE = os.path.dirname(os.path.abspath(__file__))
sys.path.insert(0, HERE)
from fcv import core, gen_tables  # noqa: E402
from fcv.core import Ctx, EXIT_OK, EXIT_VIOLATION, EXIT_INFRA  # noqa: E402

TRUSTED_BASE = [
    "Lean 4.33.0 kernel (theorems re-checked by `lake build`; axioms per theorem listed under coverage.theorems)",
    "harness: generators, canonicalisation, line-protocol encoder, table translator gen_tables.py",
    "compiled Lean driver fcdrv executes the kernel-checked definitions faithfully",
    "numpy / CPython / expat / codecs behave as assumed in DESIGN.md §5 item 4 (sampled by the correspondence, not proved)",
]


def main() -> int:
    ap = argparse.ArgumentParser()
    ap.add_argument("prop")
    ap.add_argument("--tier", default=os.environ.get("VERIF_TIER", "quick"), choices=["quick", "thorough"])
    ap.add_argument("--replay", default=None)
    args = ap.parse_args()
    prop = args.prop.upper()
    seed = int(os.environ.get("VERIF_SEED", "0"))
    ctx = Ctx(prop, args.tier, seed)
    sys.path.insert(0, core.REPO)

    # ---- S0: tables + build
    # every extractor module is rendered separately; a module that fails on the current source, or whose changed
    # rendering breaks the model build, falls back to its frozen rendering (so the driver keeps building for the
    # other properties) and marks the properties that own it as 'proof obligation broken'
    with core.BuildLock():
        status = gen_tables.regenerate()
        failed = [n for n, st in status.items() if st.startswith("failed")]
        changed = [n for n, st in status.items() if st == "changed"]
        ok_drv, log1 = core.lake_build(["fcdrv"])
        broken_tables = list(failed)
        if not ok_drv and changed:
            ctx.build_log += "model/driver does not build with the regenerated tables of: " + ", ".join(changed) + "\n" + log1[-2000:]
            status2 = gen_tables.regenerate(use_lastgood=changed)
            ok_drv, log1 = core.lake_build(["fcdrv"])
            broken_tables += changed
        for n in failed:
            ctx.build_log += f"translator {n} failed on the current source: {status[n]}\n"
        owners = gen_tables.broken_owners(status, broken_tables) if broken_tables else set()
        tables_ok = not (prop in owners or "*" in owners)
        ctx.extra["tables"] = {"status": status, "frozen_fallback_for": broken_tables}
        if broken_tables:
            ctx.notes.append(f"table extractors broken: {broken_tables} (owners {sorted(owners)})")
        ctx.driver_ok = ok_drv
        ok_prf, log2 = (False, "no Props file")
        if core.props_modules(prop):
            ok_prf, log2 = core.lake_build(core.props_modules(prop))
        ok_prf = ok_prf and tables_ok
        ctx.proofs_ok = ok_prf
        ctx.build_log += ("" if ok_drv else log1[-4000:]) + ("" if ok_prf else log2[-4000:])

    # ---- S1: audit
    hits = core.textual_audit()
    if hits:
        print("AUDIT: forbidden tokens in the Lean sources:", hits)
        return EXIT_INFRA
    with core.BuildLock():
        obligations = core.axioms_audit(prop) if ok_prf else {n: None for n in core.theorem_names(prop)}
    bad_ax = {n: a for n, a in obligations.items() if a is not None and not set(a) <= core.ALLOWED_AXIOMS}
    if bad_ax:
        print("AUDIT: theorems depending on non-standard axioms:", bad_ax)
        return EXIT_INFRA

    # thorough tier: independent re-check of the compiled property module with leanchecker
    if args.tier == "thorough" and ok_prf:
        rc, out = core.run_cmd(["lake", "env", "leanchecker"] + core.props_modules(prop), cwd=core.LEAN_DIR, timeout=3600)
        ctx.extra["leanchecker"] = {"exit": rc, "output_tail": out[-300:]}
        if rc != 0:
            print("AUDIT: leanchecker rejected the compiled property module:", out[-500:])
            return EXIT_INFRA

    # ---- S2-S5
    try:
        mod = importlib.import_module(f"corr.{prop.lower()}")
    except ModuleNotFoundError:
        print(f"no correspondence module for {prop}")
        return EXIT_INFRA
    findings = core.load_findings(prop)
    known_classes = {e["class"] for e in findings if e["status"] == "known"}
    try:
        if args.replay:
            return mod.replay(ctx, json.load(open(args.replay)))
        mod.run(ctx)
        finding_lines, regressions = [], []
        for e in findings:
            fails, detail = mod.replay_witness(ctx, e)
            if e["status"] == "known":
                if fails:
                    finding_lines.append(f"KNOWN-FINDING: property={prop} {e['id']}: {e['what']}")
                else:
                    ctx.notes.append(f"known finding {e['id']} no longer reproduces")
            else:  # fixed
                if fails:
                    regressions.append({"what": f"fixed finding {e['id']} fails again", "case": e["witness"],
                                        "impl": detail, "spec": "pass", "class": None})
    except Exception as exc:
        # An exception escaping the correspondence module.  If it was raised inside the implementation under test
        # (a frame of the traceback lies in /repo's fieldcompare package) the implementation no longer behaves as the
        # harness — written against the unchanged tree — relies on: that is a broken correspondence, reported as such
        # (never silently as an infrastructure problem).  Anything else is infrastructure: exit 2.
        tb = traceback.extract_tb(exc.__traceback__)
        repo_pkg = os.path.join(os.path.realpath(core.REPO), "fieldcompare") + os.sep
        in_impl = [f for f in tb if os.path.realpath(f.filename).startswith(repo_pkg)]
        traceback.print_exc()
        if not in_impl:
            print("infrastructure failure while running the check")
            return EXIT_INFRA
        path = core.write_replay(prop, "broken", {
            "property": prop, "kind": "no-failing-input-found",
            "broken": ["correspondence impl-vs-harness broken: the implementation raised an exception the check does "
                       "not expect on any input it generates"],
            "exception": f"{type(exc).__name__}: {exc}",
            "raised_in": [f"{os.path.relpath(f.filename, core.REPO)}:{f.lineno} in {f.name}" for f in in_impl][-5:],
            "traceback": traceback.format_exc()[-4000:], "theorems": core.theorem_names(prop)})
        print(f"VIOLATION property={prop} replay={path} no-failing-input-found")
        try:
            core.write_evidence(ctx, obligations, 1, TRUSTED_BASE)
        except Exception:  # noqa: BLE001
            pass
        return EXIT_VIOLATION

    # ---- verdict
    viol = list(regressions)
    for v in ctx.spec_viol:
        if v.get("class") in known_classes:
            ctx.known_hits[v["class"]] += 1
        else:
            viol.append(v)
    for line in finding_lines:
        print(line)
    code = EXIT_OK
    if viol:
        v = viol[0]
        path = core.write_replay(prop, "violation", {
            "property": prop, "kind": "failing-input", "what": v["what"], "case": v["case"],
            "impl": v["impl"], "spec": v["spec"], "n_candidates": len(viol),
            "rerun": f"/venv/bin/python harness/vcheck.py {prop} --replay <this file>"})
        print(f"VIOLATION property={prop} replay={path}")
        code = EXIT_VIOLATION
    elif (not ok_prf) or (not ok_drv) or ctx.corr_mismatch or ctx.internal:
        broken = []
        if not ok_drv:
            broken.append("model/driver no longer builds against regenerated FcGen/Tables.lean")
        if not ok_prf:
            broken.append(f"proof obligation(s) of FcProofs/Props/{prop}.lean no longer check")
        if ctx.corr_mismatch:
            broken.append(f"correspondence impl-vs-model broken on {len(ctx.corr_mismatch)} case(s)")
        if ctx.internal:
            broken.append(f"model-vs-spec runtime re-check of the theorem failed on {len(ctx.internal)} case(s)")
        path = core.write_replay(prop, "broken", {
            "property": prop, "kind": "no-failing-input-found", "broken": broken,
            "theorems_not_checking": _failing_theorems(ctx.build_log) if not ok_prf else [],
            "theorems": core.theorem_names(prop), "build_log_tail": ctx.build_log[-3000:],
            "first_mismatch": (ctx.corr_mismatch or ctx.internal or [None])[0]})
        print(f"VIOLATION property={prop} replay={path} no-failing-input-found")
        code = EXIT_VIOLATION
    core.write_evidence(ctx, obligations, len(viol), TRUSTED_BASE)
    print(f"{prop} {args.tier}: evaluations={ctx.evaluations} distinct_nontrivial={len(ctx._distinct)} "
          f"theorems={len(obligations)} corr_mismatch={len(ctx.corr_mismatch)} candidates={len(ctx.spec_viol)} "
          f"known_hits={sum(ctx.known_hits.values())} exit={code}")
    return code


def _failing_theorems(build_log: str) -> list:
    """names of the theorems/definitions in which `lake build` reported an error (file:line of each `error:` mapped to
    the nearest preceding declaration of that file)"""
    import re
    out = []
    for m in re.finditer(r"error: ([^\s:]+\.lean):(\d+):\d+", build_log):
        path, line = m.group(1), int(m.group(2))
        full = path if os.path.isabs(path) else os.path.join(core.LEAN_DIR, path)
        name = None
        try:
            for i, l in enumerate(open(full, encoding="utf-8").read().splitlines(), 1):
                if i > line:
                    break
                d = re.match(r"\s*(?:private\s+|protected\s+)?(?:theorem|lemma|def|example|instance|abbrev)\s+([^\s:({\[]+)", l)
                if d:
                    name = d.group(1)
        except OSError:
            pass
        entry = f"{name or '?'} ({os.path.relpath(full, core.LEAN_DIR)}:{line})"
        if entry not in out:
            out.append(entry)
    return out


if __name__ == "__main__":
    sys.exit(main())
